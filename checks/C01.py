# C01 — big-integer operations are exact over Z, identically across all overloads.  (DESIGN 5/C01)
# proof:  coq/C01 (one Gallina definition per overload body over a C-integer layer + GMP primitive meanings;
#         theorems: every overload = the Z operation for all operands in the C type's range)
# tie:    (a) body-text hashes: every modelled body is re-extracted from /repo's current source and compared
#             with the hash recorded next to the model definition;
#         (b) correspondence: extracted model vs the implementation compiled from /repo, every call form
# search: python big-integer specification oracle on the same cases
import hashlib, json, math, os, re, struct, subprocess, sys, time
import vf
sys.path.insert(0, os.path.join(vf.ROOT, "harness"))
import c01_table as T
import c01_decls as DECL

AREA = "C01"
MODEL_FILES = ["Model.v", "Model2.v", "Model3.v"]
HARNESS_DEPS = ("c01_part1.inc", "c01_part2.inc", "c01_part3.inc", "c01_part4.inc")


# ------------------------------------------------------------------ body-text tie
def strip_comments(txt):
    txt = re.sub(r"/\*.*?\*/", "", txt, flags=re.S)
    txt = re.sub(r"//[^\n]*", "", txt)
    return txt


def nows(s):
    return re.sub(r"\s+", "", s)


_src_cache = {}


def source_nows(rel):
    p = os.path.join(vf.REPO, rel)
    if p not in _src_cache:
        try:
            _src_cache[p] = nows(strip_comments(open(p, errors="replace").read()))
        except OSError:
            _src_cache[p] = None
    return _src_cache[p]


def extract_body(rel, sig):
    """whitespace-free text of the body `{...}` following the (whitespace-free) signature, or None"""
    src = source_nows(rel)
    if src is None:
        return None
    s = nows(sig)
    i = src.find(s + "{")
    if i < 0:
        return None
    j = i + len(s)
    depth = 0
    for k in range(j, len(src)):
        if src[k] == "{":
            depth += 1
        elif src[k] == "}":
            depth -= 1
            if depth == 0:
                return src[j:k + 1]
    return None


def annotations():
    """(*@ name | file | signature | sha *) lines of the model files"""
    out = []
    for f in MODEL_FILES:
        p = os.path.join(vf.coq_dir(AREA), f)
        if not os.path.exists(p):
            continue
        for m in re.finditer(r"\(\*@\s*(\S+)\s*\|\s*([^|]+?)\s*\|\s*(.+?)\s*\|\s*([0-9a-f]+)\s*\*\)", open(p).read()):
            out.append({"name": m.group(1), "file": m.group(2), "sig": m.group(3), "sha": m.group(4), "model_file": f})
    return out


def body_sha(rel, sig):
    b = extract_body(rel, sig)
    return None if b is None else hashlib.sha256(b.encode()).hexdigest()[:12]


def rehash():
    for f in MODEL_FILES:
        p = os.path.join(vf.coq_dir(AREA), f)
        if not os.path.exists(p):
            continue
        txt = open(p).read()

        def rep(m):
            sha = body_sha(m.group(2).strip(), m.group(3).strip())
            if sha is None:
                print("NOT FOUND:", m.group(1), m.group(2), m.group(3))
                sha = "0"
            return "(*@ %s | %s | %s | %s *)" % (m.group(1), m.group(2).strip(), m.group(3).strip(), sha)
        txt2 = re.sub(r"\(\*@\s*(\S+)\s*\|\s*([^|]+?)\s*\|\s*(.+?)\s*\|\s*([0-9a-f]+)\s*\*\)", rep, txt)
        if txt2 != txt:
            open(p, "w").write(txt2)
    return 0


# ------------------------------------------------------------------ call-sequence census (tie between a body's text and its model definition)
# For every modelled body the set of GMP primitives it calls and the number of its isZero(...) dispatch tests are read from the
# CURRENT source text and compared with the Gallina definition that was written after it.  A body that starts calling another
# primitive (mpz_set_si instead of building an Integer, mpz_cmp_ui instead of mpz_cmp_si ...) or gains / loses a zero dispatch is
# reported even when no generated operand shows a wrong value.
CENSUS_IGNORE = {"mpz_ptr", "mpz_srcptr", "mpz_const", "mpz_t", "mpz_init", "mpz_clear", "mpz_init_set_str", "mpz_set", "mpz_init_set"}
CENSUS_MAP = {"mpz_init_set_si": "mpz_set_si", "mpz_init_set_ui": "mpz_set_ui", "mpz_init_set_d": "mpz_set_d", "mpz_tstbit": "mpz_tstbit0",
              "mpz_sizeinbase2": "mpz_sizeinbase"}
# bodies whose model deliberately differs in the primitives it names (reason)
CENSUS_EXPECT = {
    "ctor_vect": ({"mpz_mul_ui", "mpz_set_ui"}, {"mpz_set_ui"}),        # model: the loop body is ctor_vect_loop (calls mpz_mul_ui there)
    "cast_vect": ({"mpz_getlimbn", "mpz_size"}, {"mpz_size"}),          # model: the loop body is limbs_from (calls mpz_getlimbn there)
}


def model_definitions():
    """name -> text of the Gallina definition that follows the (*@ name | ... *) annotation"""
    defs = {}
    for f in MODEL_FILES:
        p = os.path.join(vf.coq_dir(AREA), f)
        if not os.path.exists(p):
            continue
        txt = open(p).read()
        for m in re.finditer(r"\(\*@\s*(\S+)\s*\|[^\n]*\*\)\s*\n((?:Definition|Fixpoint)[^\n]*(?:\n(?!\(\*|Definition|Fixpoint|\n)[^\n]*)*)", txt):
            defs[m.group(1)] = m.group(2)
    return defs


def census(ann):
    defs = model_definitions()
    bad, n = [], 0
    for a in ann:
        body = extract_body(a["file"], a["sig"])
        d = defs.get(a["name"])
        if body is None or d is None:
            continue
        n += 1
        sp = {CENSUS_MAP.get(t, t) for t in re.findall(r"mpz_\w+", body)} - CENSUS_IGNORE
        mp = {CENSUS_MAP.get(t, t) for t in re.findall(r"mpz_\w+", d)} - CENSUS_IGNORE
        if a["name"] in CENSUS_EXPECT:
            if (sp, mp) != CENSUS_EXPECT[a["name"]]:
                bad.append("%s: source calls %s, model names %s (expected %s / %s)" % ((a["name"], sorted(sp), sorted(mp)) + tuple(sorted(x) for x in CENSUS_EXPECT[a["name"]])))
            continue
        if sp != mp:
            bad.append("%s: the source body calls %s, the model definition written after it calls %s" % (a["name"], sorted(sp), sorted(mp)))
        if not a["name"].startswith("isZero_"):
            sz, mz = len(re.findall(r"\bisZero\(", body)), len(re.findall(r"\bisZero_\w+", d))
            if sz != mz:
                bad.append("%s: the source body has %d isZero(...) dispatch test(s), the model definition %d" % (a["name"], sz, mz))
    return n, bad


# ------------------------------------------------------------------ cast / operator census (the bodies without a GMP primitive)
# 190 of the modelled bodies are forwarders: `return this->operator+=((int64_t)n);`, `return !this->operator<(l);`, `return n + (uint64_t)l;`.
# For those the C casts (by target type, incl. static_cast, functional casts and std::abs) are counted in the current source text and compared
# with the conversion functions of the C-integer layer named by the model definition (i32_to_i64/to_i64, u32_to_u64/to_u64, abs_i64 ...), and
# the operators the body applies (explicit `operator@(`, infix, prefix; comparisons up to direction) with the operator bodies the model calls.
# This is the defect class of fix-1 / fix-2 (a forwarder widening through the wrong type).
CAST_CLASSES = {   # class -> (source regexes, model conversion functions)
    "int64_t":  ([r"\(int64_t\)", r"static_cast<int64_t>", r"\(long\)", r"(?<![\w<])int64_t\("], ["i32_to_i64", "to_i64"]),
    "uint64_t": ([r"\(uint64_t\)", r"static_cast<uint64_t>", r"\(unsignedlong\)", r"(?<![\w<])uint64_t\("], ["u32_to_u64", "to_u64"]),
    "int32_t":  ([r"\(int32_t\)", r"static_cast<int32_t>", r"\(int\)", r"(?<![\w<])int32_t\("], ["to_i32"]),
    "uint32_t": ([r"\(uint32_t\)", r"static_cast<uint32_t>", r"(?<![\w<])uint32_t\("], ["to_u32"]),
    "int16_t":  ([r"\(int16_t\)"], ["to_i16"]), "uint16_t": ([r"\(uint16_t\)"], ["to_u16"]),
    "int8_t":   ([r"\(int8_t\)", r"\(signedchar\)", r"\(char\)"], ["to_i8"]), "uint8_t": ([r"\(uint8_t\)", r"\(unsignedchar\)"], ["to_u8"]),
    "abs":      ([r"std::abs\("], ["abs_i64", "abs_i32"]),
}
OPSYM = {"opPlusEq": "+=", "opPlus": "+", "opMinusEq": "-=", "opMinus": "-", "opMulEq": "*=", "opMul": "*", "opNe": "!=", "opEq": "==",
         "opGt": ">", "opLt": "<", "opGe": ">=", "opLe": "<=", "opShlEq": "<<=", "opShl": "<<", "opShrEq": ">>=", "opShr": ">>",
         "opXorEq": "^=", "opXor": "^", "opOrEq": "|=", "opOr": "|", "opAndEq": "&=", "opAnd": "&", "opNot": "~", "opNeg": "neg", "negb": "!",
         "preinc": "++", "predec": "--"}
NORM = {"!=": ["!", "eq"], "==": ["eq"], "<": ["lt"], ">": ["lt"], "<=": ["le"], ">=": ["le"]}
def norm(ops):
    out = []
    for o in ops:
        out += NORM.get(o, [o])
    return sorted(out)
def src_casts(body):
    b = re.sub(r"\((?:int|uint32_t|int32_t|uint64_t|int64_t|long)\)\*this", "CONV", body)    # `(int)*this` is Integer::operator int, a callee
    return {cl: sum(len(re.findall(r, b)) for r in srx) for cl, (srx, _) in CAST_CLASSES.items()}
def model_casts(d):
    return {cl: sum(len(re.findall(r"\b%s\b" % f, d)) for f in mfn) for cl, (_, mfn) in CAST_CLASSES.items()}
def src_ops(body):
    b = re.sub(r"\b\w+<[\w:]+>", "T", body)                       # template arguments are not comparisons
    b = b.replace("return", ";").replace("->", ".").replace("*this", "THIS").replace("else", ";")
    ops = re.findall(r"operator([-+*/%<>=!^|&~]+)\(", b)
    b = re.sub(r"operator[-+*/%<>=!^|&~]+\(", "(", b)
    b = re.sub(r"\((?:u?int\d+_t|Integer|double|float|bool|long|int|unsignedlong|unsignedchar|signedchar)\)", "", b)
    pre = re.findall(r"(?<![\w)\]])(!|~|\+\+|--|-)(?=[\w(])", b)
    ops += ["neg" if o == "-" else o for o in pre]
    b = re.sub(r"(?<![\w)\]])(!|~|\+\+|--|-)(?=[\w(])", "", b)
    ops += re.findall(r"(?<=[\w)\]])(<<=|>>=|\+=|-=|\*=|\^=|\|=|&=|!=|==|<=|>=|<<|>>|\+|-|\*|<|>)(?=[\w(:])", b)
    return norm(ops)
def model_ops(d):
    ops = [OPSYM[k] for k in re.findall(r"\b(%s)(?:_\w+)?\b" % "|".join(sorted(OPSYM, key=len, reverse=True)), d)]
    ops += [{"=?": "==", "<?": "<", "<=?": "<="}[t] for t in re.findall(r"(<=\?|<\?|=\?)", d)]
    ops += re.findall(r"\s([-+*])\s", d)
    return norm(ops)

CENSUS2_EXPECT_SRC = {      # bodies whose loops live in helper Fixpoints of the model: the source token list is written down
    "logp": ["!", "*", "*=", "+=", "<<", "<<", "le", "le", "lt", "lt"],      # incl. `p < 2` (since /repo 2291e98)
}


def census2(ann, skip=()):
    defs = model_definitions()
    bad, n = [], 0
    for a in ann:
        if a["name"] in skip:
            continue
        body = extract_body(a["file"], a["sig"])
        d = defs.get(a["name"])
        if body is None or d is None:
            continue
        prim = {CENSUS_MAP.get(t, t) for t in re.findall(r"mpz_\w+", body)} - CENSUS_IGNORE
        if prim or re.findall(r"\bisZero\(", body):
            continue
        n += 1
        dd = d.split(":=", 1)[1] if ":=" in d else d
        sc, mc = src_casts(body), model_casts(dd)
        if sc != mc:
            bad.append("%s: the source body casts %s, the model definition converts %s" % (a["name"], {k: v for k, v in sc.items() if v}, {k: v for k, v in mc.items() if v}))
        so = src_ops(body)
        mo = CENSUS2_EXPECT_SRC[a["name"]] if a["name"] in CENSUS2_EXPECT_SRC else model_ops(dd)
        if so != mo:
            bad.append("%s: the source body applies the operators %s, the model definition %s" % (a["name"], so, mo))
    return n, bad


# ------------------------------------------------------------------ forwarding census (ZRing<Integer> wrappers of givinteger.h)
# The `@dom` call forms of a wrapper `Rep& f(..) const { return Integer::f(..); }` share the model definition of the function
# they forward to.  That assumption is read from the current text of givinteger.h: a wrapper that still is a one-line forward
# must name the expected callee and pass its parameters in the expected order.
FORWARD_EXPECT = {   # (wrapper, number of parameters) -> (callee, order of the wrapper's parameters in the call)
    ("mul", 3): ("mul", (0, 1, 2)), ("mulin", 2): ("mulin", (0, 1)), ("add", 3): ("add", (0, 1, 2)), ("addin", 2): ("addin", (0, 1)),
    ("sub", 3): ("sub", (0, 1, 2)), ("subin", 2): ("subin", (0, 1)), ("axpy", 4): ("axpy", (0, 1, 2, 3)), ("maxpy", 4): ("maxpy", (0, 1, 2, 3)),
    ("axmy", 4): ("axmy", (0, 1, 2, 3)), ("axpyin", 3): ("axpyin", (0, 1, 2)), ("maxpyin", 3): ("maxpyin", (0, 1, 2)),
    ("axmyin", 3): ("axmyin", (0, 1, 2)), ("neg", 2): ("neg", (0, 1)), ("negin", 1): ("negin", (0,)),
    ("gcd", 5): ("gcd", (0, 1, 2, 3, 4)), ("gcd", 3): ("gcd", (0, 1, 2)), ("lcm", 3): ("lcm", (0, 1, 2)),
    ("inv", 3): ("inv", (0, 1, 2)), ("invin", 2): ("invin", (0, 1)), ("invmod", 3): ("inv", (0, 1, 2)), ("invmodin", 2): ("invin", (0, 1)),
    ("sqrt", 2): ("sqrt", (0, 1)), ("sqrt", 3): ("sqrtrem", (0, 2, 1)), ("logp", 2): ("logp", (0, 1)), ("length", 1): ("length", (0,)),
    ("sign", 1): ("sign", (0,)), ("isZero", 1): ("isZero", (0,)), ("isOne", 1): ("isOne", (0,)), ("isMOne", 1): ("isMOne", (0,)),
    ("abs", 1): ("abs", (0,)), ("compare", 2): ("compare", (0, 1)),
}


def forwarding_census():
    p = os.path.join(vf.REPO, "src/kernel/integer/givinteger.h")
    try:
        txt = strip_comments(open(p, errors="replace").read())
    except OSError:
        return 0, ["givinteger.h not found"], []
    w = re.sub(r"\s+", " ", txt)
    seen, bad = set(), []
    for m in re.finditer(r"(\w+) ?\(([^()]*)\) ?const ?\{ ?return ([\w:]+) ?\(([^()]*)\); ?\}", w):
        name, params, callee, args = m.group(1), m.group(2), m.group(3), m.group(4)
        pn = [q.strip().split()[-1].lstrip("&*") for q in params.split(",") if q.strip()]
        key = (name, len(pn))
        if key not in FORWARD_EXPECT:
            continue
        seen.add(key)
        ecallee, order = FORWARD_EXPECT[key]
        got = [a.strip() for a in args.split(",") if a.strip()]
        want = [pn[i] for i in order]
        if callee.split("::")[-1] != ecallee or got != want:
            bad.append("ZRing<Integer>::%s/%d returns %s(%s); the shared model assumes %s(%s)" % (name, len(pn), callee, ",".join(got), ecallee, ",".join(want)))
    notfwd = sorted("%s/%d" % k for k in FORWARD_EXPECT if k not in seen)
    return len(seen), bad, notfwd


# ------------------------------------------------------------------ known findings (frag until merged)
def install_known():
    base = vf.load_known()
    have = {(k.get("property"), k.get("site"), k.get("klass")) for k in base}
    extra = []
    p = os.path.join(vf.ROOT, "frag", "C01.findings.json")
    if os.path.exists(p):
        try:
            for k in json.load(open(p)):
                if (k.get("property"), k.get("site"), k.get("klass")) not in have:
                    extra.append(k)
        except ValueError:
            pass
    merged = base + extra
    vf.load_known = lambda: merged
    return len(extra)


# ------------------------------------------------------------------ running the two executables
def run_one(binary, text, timeout, env=None):
    """-> (rc, stdout lines, stderr); rc = 124 on a wall-clock time-out (the child is killed and reaped)"""
    e = dict(os.environ)
    if env:
        e.update(env)
    p = subprocess.Popen([binary], stdin=subprocess.PIPE, stdout=subprocess.PIPE, stderr=subprocess.PIPE, universal_newlines=True, errors="replace", env=e)
    try:
        out, err = p.communicate(text, timeout=timeout)
        return p.returncode, out.splitlines(), err
    except subprocess.TimeoutExpired:
        p.kill()
        try:
            p.communicate(timeout=30)
        except Exception:
            pass
        return 124, [], "[timeout after %ss]" % timeout


NOT_DRIVEN = "NOT-DRIVEN"
MAX_OVERRUNS = 6          # first-stage CPU-budget overruns per run (all streams, configurations and parallel chunks together)
MAX_CONFIRMATIONS = 3     # re-runs alone with the larger budget per run
MAX_CRASHES_PER_FORM = 4
MAX_CRASHES = 12


class Caps:
    """shared by every stream / chunk / configuration of one run (threads): a hang must not cost workers x budget"""
    def __init__(self):
        import threading
        self.lock = threading.Lock()
        self.overruns = 0
        self.confirmations = 0
        self.crashes = {}
        self.dead_forms = set()      # call forms that hung once (or crashed 4 times): not driven any more in this run
        self.stopped = []            # streams cut short because a cap was reached

    def form_dead(self, line):
        return line.split(" ", 1)[0] in self.dead_forms


CAPS = Caps()


def run_stream(binary, lines, timeout, env=None, caps=None):
    """run_one, restarted after every case on which the harness watchdog ended the process (last line DOES-NOT-RETURN) or on which the
    process died (CRASH <rc>).  After the first overrun of a call form that form is not driven any more (NOT-DRIVEN lines), in any stream;
    when the run's cap of overruns / crashes is reached the rest of the stream is not driven either."""
    caps = caps or CAPS
    out, err, t0 = [], "", time.time()
    while len(out) < len(lines):
        rest = lines[len(out):]
        if caps.form_dead(rest[0]) or caps.overruns >= MAX_OVERRUNS or sum(caps.crashes.values()) >= MAX_CRASHES:
            if not caps.form_dead(rest[0]):
                with caps.lock:
                    caps.stopped.append("%d cases from `%s` on" % (len(rest), rest[0][:60]))
                out += [NOT_DRIVEN] * len(rest)
                break
            out.append(NOT_DRIVEN)
            continue
        # drive up to the next case of a dead form
        n = 0
        while n < len(rest) and not caps.form_dead(rest[n]):
            n += 1
        r, o, e = run_one(binary, "\n".join(rest[:n]) + "\n", max(30, timeout - (time.time() - t0)), env)
        err += e
        if r == 124:
            return 124, out, err
        out += o
        if o and o[-1].strip() == DNR and r == 0:      # the watchdog ended the process on the case of the last line
            with caps.lock:
                caps.overruns += 1
                caps.dead_forms.add(rest[len(o) - 1].split(" ", 1)[0])
        elif len(o) < n:                               # the process died on the next case
            form = rest[len(o)].split(" ", 1)[0]
            out.append("CRASH %s" % r)
            with caps.lock:
                caps.crashes[form] = caps.crashes.get(form, 0) + 1
                if caps.crashes[form] >= MAX_CRASHES_PER_FORM:
                    caps.dead_forms.add(form)
        elif r != 0:
            return r, out, err
    return 0, out, err


def run_chunks(binary, lines, timeout, env=None):
    """run the line protocol on contiguous chunks in parallel; -> (rc, output lines, stderr); rc = 124 when a chunk timed out"""
    import concurrent.futures
    k = max(1, min(8, vf.NCPU // 2, len(lines) // 2000 + 1))
    size = (len(lines) + k - 1) // k if lines else 1
    chunks = [lines[i:i + size] for i in range(0, len(lines), size)] or [[]]
    with concurrent.futures.ThreadPoolExecutor(max_workers=len(chunks)) as ex:
        res = list(ex.map(lambda c: run_stream(binary, c, timeout, env), chunks))
    out, err, rc = [], "", 0
    for c, (r, o, e) in zip(chunks, res):
        if r == 124:
            return 124, out, "[timeout]"
        if r != 0 or len(o) != len(c):
            return (r or 1), out + o, e
        out += o
        err += e
    return rc, out, err


def lines_for(cases, live_fixed):
    impl_in, model_in = [], []
    for v, a in cases:
        spec = T.VARIANTS[v]
        mname = spec.get("model", v.split("@")[0])
        mname = live_fixed.get(mname, mname)
        ks = T.kinds(spec, a)
        impl_in.append(v + " " + " ".join(fmt_impl(k, x) for k, x in zip(ks, a)))
        if spec.get("oracle_only"):     # no model (or operands outside the model's reach): nothing to run
            model_in.append("skip")
        elif "margs" in spec:      # the model takes the operands the call form duplicates (x op= x) or a destination's old value
            model_in.append(mname + " " + " ".join(str(x) for x in spec["margs"](*a)))
        else:
            model_in.append(mname + " " + " ".join(fmt_model(k, x) for k, x in zip(ks, a)))
    return impl_in, model_in


DNR = "DOES-NOT-RETURN"
STREAM_CPU_BUDGET = "10"      # CPU seconds per case inside the streams (a legitimate case takes micro- to milliseconds)
CONFIRM_CPU_BUDGET = "30"     # ... when a case that hit the budget is re-run alone
PROBE_CPU_BUDGET = "0.3"      # known does-not-return inputs: each in a process of its own (logp leaks ~700 MB per CPU second while it loops)
PROBE_CONFIRM_BUDGET = "1.0"


DEBUG_FLAGS = ("-D__GIVARO_DEBUG", "-DC01_DEBUGCFG")
DEBUG_FORMS = ("inv3", "invin", "powmod", "dom_powmod", "dom_inv", "fact", "pow3_", "pow_", "dom_pow_", "gcd", "lcm", "dom_gcdin", "dom_lcmin",
               "dom_dxgcd", "pp", "sqrt", "root", "logp", "swap", "abs_v", "length", "size", "bitsize", "limb", "cast_vect", "isperfectpower")


def debug_stream(chk, replay):
    """givaro's --enable-debug configuration (-D__GIVARO_DEBUG): gmp++_int_gcd.C / _misc.C / _pow.C are compiled inside the harness with their
    `#ifdef __GIVARO_DEBUG` blocks and GIVARO_ASSERT / ENSURE / REQUIRE post-conditions on; the deterministic grid of the operations defined
    there is driven and compared with the specification oracle: a post-condition that fires on an input inside the domain is a failing input."""
    if replay:
        return
    hdbg, l3 = vf.build_harness("c01_integer.C", deps=HARNESS_DEPS, extra_flags=DEBUG_FLAGS, name="c01_integer_dbg")
    if hdbg is None:
        if "[timeout after" in (l3 or ""):
            chk.cov["inconclusive"].append("compiling the -D__GIVARO_DEBUG harness timed out; the debug-configuration stream was not run")
        else:
            chk.broke("the harness does not compile against /repo in the -D__GIVARO_DEBUG configuration", l3)
        chk.cov["floor"]["debug-configuration comparisons"] = (0, 1000)
        return
    cases = []
    for v in sorted(T.VARIANTS):
        spec = T.VARIANTS[v]
        if v.split("@")[0].startswith(DEBUG_FORMS) and spec["oracle"] is not None and "verify" not in spec and not v.endswith("@unit"):
            cases += [(v, a) for a in T.grid_cases(v, spec)]
    lines, _ = lines_for(cases, {})
    rc, out, err = run_chunks(hdbg, lines, 900, {"C01_CPU_BUDGET": STREAM_CPU_BUDGET})
    if rc == 124:
        chk.cov["inconclusive"].append("the -D__GIVARO_DEBUG harness did not finish within its wall-clock limit; the debug-configuration stream was not compared")
        chk.cov["floor"]["debug-configuration comparisons"] = (0, 1000)
        return
    if rc != 0 or len(out) != len(cases):
        chk.broke("-D__GIVARO_DEBUG harness failed (rc=%s, %d/%d lines)" % (rc, len(out), len(cases)), err)
        return
    n = bad = 0
    for (v, a), g in zip(cases, out):
        spec = T.VARIANTS[v]
        got = g.split()
        if got in ([NOT_DRIVEN], ["UNKNOWN-VARIANT"]):
            continue
        exp = spec["oracle"](*a)
        if exp is None:
            continue
        exp = [str(x) for x in (exp if isinstance(exp, (list, tuple)) else [exp])]
        n += 1
        if got != exp:
            bad += 1
            ks = T.kinds(spec, a)
            kl = "does not return" if got == [DNR] else "crash" if got[:1] == ["CRASH"] else "post-condition or debug-only code rejects a valid input" if got == ["THROWS"] else T.klass_of(spec, a)
            chk.fail_input(spec["site"] + " [-D__GIVARO_DEBUG]", kl, {"variant": v, "args": [T.ser(k, x) for k, x in zip(ks, a)], "build": "-D__GIVARO_DEBUG"},
                           exp, g.strip(), "the debug configuration of the library differs from integer arithmetic over Z on this input")
    chk.cov["debug_configuration"] = {"flags": list(DEBUG_FLAGS), "recompiled_units": ["gmp++_int_gcd.C", "gmp++_int_misc.C", "gmp++_int_pow.C"],
                                      "call_forms": len({v for v, _ in cases}), "comparisons": n, "differences": bad}
    chk.cov["floor"]["debug-configuration comparisons"] = (n, 1000 if not chk.failing else 0)


def finish(chk):
    """floor on what was actually compared: an inconclusive stream is never counted as a pass of that stream"""
    fl = chk.cov.setdefault("floor", {})
    missed = []
    for key, (got, want) in fl.items():
        if got < want:
            missed.append("%s: %d < %d" % (key, got, want))
    if chk.cov.get("discharged", 0) < chk.cov.get("obligations", 0) and not chk.broken:
        missed.append("theorems re-checked: %d < %d" % (chk.cov.get("discharged", 0), chk.cov.get("obligations", 0)))
    chk.cov["floor_missed"] = missed
    if missed or chk.cov.get("inconclusive"):
        print("INCONCLUSIVE property=C01 (tooling, not the property): " + "; ".join(chk.cov.get("inconclusive", []) + missed))
        chk.notes.append("THIS RUN IS INCONCLUSIVE IN PART: " + "; ".join(chk.cov.get("inconclusive", []) + missed))
    return chk.finish()


# ------------------------------------------------------------------ main
def fmt_impl(kind, x):
    if kind in ("d", "f"):
        return float(x).hex()
    return str(x)


def fmt_model(kind, x):
    if kind in ("d", "f"):
        m, e = T.dbl_me(x)
        return "%d %d" % (m, e)
    return str(x)


def main(tier, replay=None):
    if tier == "--rehash" or os.environ.get("C01_REHASH"):
        return rehash()
    chk = vf.Check("C01", tier, "proof")
    rng = vf.Rng(chk.seed)
    nfrag = install_known()
    chk.cov["trusted_base"] = [
        "Coq 8.16.1 kernel + vm_compute (no native_compute)",
        "Model.v sections CInt (x86-64 LP64: unsigned long = uint64_t, two's-complement wrap at the UB sites -INT64_MIN, std::abs(INT_MIN)) and GmpSpec (Z-level meaning of each mpz_* primitive, restating the GMP manual); validated on every run by the correspondence run against the real GMP",
        "the hand-written model follows the C++ bodies; tie = body-text hash per modelled overload + correspondence on generated cases",
        "extraction: ExtrOcamlBasic only; Z/positive/string kept as extracted inductives; OCaml 4.13.1; zarith only for text I/O in harness/zio.ml",
        "harness/c01_integer.C + c01_part*.inc, checks/C01.py, harness/c01_table*.py (case generator, python big-integer oracle)",
        "g++ 12 -O2 / x86-64 / GMP 6 for the implementation side",
    ]
    chk.assumptions = ["aliasing of operands is C15's subject; here only the explicit `&res == &b` tests of the fused forms and x op= x self forms",
                       "division / modulo overloads are C02's subject and not modelled here",
                       "%d finding(s) taken from frag/C01.findings.json (not yet merged into known_findings.json)" % nfrag]
    # 1. proofs
    chk.cov["inconclusive"] = []
    res = vf.coq_check_props(AREA)
    if not res["ok"] and not res["forbidden"] and "[timeout after" in res["log"]:
        # our own tooling ran out of time (machine load): recorded, not a violation of the property
        chk.cov["inconclusive"].append("Coq build of coq/C01 timed out; the proofs were not re-checked in this run")
        chk.cov["obligations"] += len(res["theorems"])
    else:
        chk.proof_result(res, AREA)
    # 2. body-text tie
    ann = annotations()
    changed, missing = [], []
    for a in ann:
        sha = body_sha(a["file"], a["sig"])
        if sha is None:
            missing.append(a["name"])
        elif sha != a["sha"]:
            changed.append(a["name"])
    chk.cov["modelled_bodies"] = len(ann)
    chk.cov["changed_bodies"] = changed
    chk.cov["missing_bodies"] = missing
    live_fixed = {}
    for name, (rel, sig, fixed_sha, fixed_model) in T.FIXED_BODIES.items():
        if body_sha(rel, sig) == fixed_sha:
            live_fixed[name] = fixed_model
    chk.cov["repaired_bodies_live"] = sorted(live_fixed)      # pending repairs whose body is now in the tree: the prepared model of the repaired body runs
    changed = [c for c in changed if c not in live_fixed]
    chk.cov["changed_bodies"] = changed
    if changed:
        chk.broke("the source text of %d modelled body/bodies changed since the model was written after it (re-read the body, update the model "
                  "definition and its proofs, then `bin/check C01 --rehash`): %s" % (len(changed), ", ".join(changed[:20])))
    ann_c = [a for a in ann if a["name"] not in live_fixed]
    ncen, cbad = census(ann_c)
    n2, cbad2 = census2(ann_c)
    chk.cov["census_bodies_checked"] = ncen
    chk.cov["cast_operator_census_bodies_checked"] = n2
    cbad = cbad + cbad2
    chk.cov["census_mismatches"] = cbad
    if cbad:
        chk.broke("call-sequence census: %d modelled body/bodies no longer call the GMP primitives / zero dispatches their model follows: " % len(cbad)
                  + "; ".join(cbad[:8]))
    nfw, fbad, notfwd = forwarding_census()
    chk.cov["forwarding_wrappers_checked"] = nfw
    chk.cov["forwarding_wrappers_no_longer_one_line_forwards"] = notfwd      # recorded only: the correspondence run still drives them
    if fbad:
        chk.broke("forwarding census: " + "; ".join(fbad[:8]))
    if missing:
        chk.broke("modelled overload bodies no longer found in the source (signature changed or removed): " + ", ".join(missing[:20]))
    # 2b. completeness of the call-form table against the declarations of /repo's current headers (clang AST)
    decl_timeout = False
    try:
        cv = DECL.coverage(T.VARIANTS)
    except subprocess.TimeoutExpired as ex:      # our tooling ran out of time (machine load): inconclusive, not a violation
        decl_timeout = True
        cv = {"declarations": 0, "covered": 0, "excluded": [], "unmapped": [], "missing_variants": [], "unreferenced_variants": [], "err": repr(ex)}
        chk.cov["inconclusive"].append("clang AST dump of the headers timed out; the declaration completeness check did not run")
    except Exception as ex:     # clang missing / crashed
        cv = {"declarations": 0, "covered": 0, "excluded": [], "unmapped": [], "missing_variants": [], "unreferenced_variants": [], "err": repr(ex)}
    chk.cov["public_declarations"] = cv["declarations"]
    chk.cov["declarations_covered_by_call_forms"] = cv["covered"]
    exr = {}
    for d, r in cv["excluded"]:
        exr[r] = exr.get(r, 0) + 1
    chk.cov["declarations_excluded_by_reason"] = exr
    if cv["declarations"] == 0 and not decl_timeout:
        # clang++ missing or crashed: our tooling, not the property (headers that do not parse make the harness build fail below)
        chk.cov["inconclusive"].append("clang AST dump produced no declarations (%s); the declaration completeness check did not run" % cv["err"][:200])
    chk.cov.setdefault("floor", {})["public declarations read"] = (cv["declarations"], 400)
    if cv["unmapped"]:
        chk.broke("public overloads declared in the headers that the C01 call-form table does not know (new or changed signature): "
                  + "; ".join(cv["unmapped"][:12]))
    if cv["missing_variants"]:
        chk.broke("declarations mapped to call forms the table does not have: " + "; ".join(cv["missing_variants"][:12]))
    if cv["unreferenced_variants"]:
        chk.broke("call forms of the table whose declaration is no longer in the headers (removed or changed signature): "
                  + ", ".join(cv["unreferenced_variants"][:20]))
    # 3. executables
    drv, l1 = vf.ocaml_build(AREA) if os.path.exists(os.path.join(vf.coq_dir(AREA), "ocaml", "model.ml")) else (None, "extraction did not run")
    if drv is None and "[timeout after" in (l1 or ""):
        chk.cov["inconclusive"].append("building the extracted model driver timed out; no correspondence in this run")
    elif drv is None:
        chk.broke("extracted model driver does not build", l1)
    himpl, l2 = vf.build_harness("c01_integer.C", deps=HARNESS_DEPS)
    if himpl is None and "[timeout after" in (l2 or ""):
        chk.cov["inconclusive"].append("compiling the implementation harness / library timed out; no comparison in this run")
        return finish(chk)
    if himpl is None:
        chk.broke("implementation harness does not compile against /repo", l2)
        return finish(chk)
    # 4. cases
    per = 60 if tier == "quick" else 3000
    cases = []
    grid_n = {}
    if replay:
        rp = json.load(open(replay))
        for f in rp.get("failing_inputs", []):
            c = f["case"]
            sp = T.VARIANTS[c["variant"]]
            ks = ["u64"] * len(c["args"]) if "gen" in sp else sp["args"]
            cases.append((c["variant"], [T.unser(k, x) for k, x in zip(ks, c["args"])]))
    else:
        for v in sorted(T.VARIANTS):
            spec = T.VARIANTS[v]
            g = T.grid_cases(v, spec)       # deterministic, independent of the seed
            grid_n[v] = len(g)
            for a in g:
                cases.append((v, a))
            n = max(8, int(per * spec.get("weight", 1)))
            for a in T.gen_cases(rng, v, spec, n):
                cases.append((v, a))
    if not replay:
        nz, lost = T.grid_selfcheck()
        chk.cov["grid_zero_x_word_limit_pairs_verified"] = nz
        if lost:
            chk.broke("the deterministic grid no longer contains a special accumulator x word limit pair: " + "; ".join(lost[:6]))
    # deterministic probes of the inputs on which an operation is known not to return (findings): appended as cases, run apart
    nstream = len(cases)
    if not replay:
        for v in sorted(T.VARIANTS):
            for a in T.VARIANTS[v].get("probes", []):
                cases.append((v, list(a)))
    probe_idx = list(range(nstream, len(cases)))
    if replay:      # a replayed case may be one that does not return: run every replayed case as a probe
        probe_idx, nstream = list(range(len(cases))), 0
    impl_in, model_in = lines_for(cases, live_fixed)
    wd = {"C01_CPU_BUDGET": STREAM_CPU_BUDGET}
    rc, iout, ierr = run_chunks(himpl, impl_in[:nstream], 1800, wd)
    if rc == 124:
        chk.cov["inconclusive"].append("the implementation harness did not finish within its wall-clock limit (machine load); no comparison in this run")
        chk.cov["floor"]["oracle comparisons"] = (0, int(0.9 * len(cases)))
        return finish(chk)
    if rc != 0 or len(iout) != nstream:
        chk.broke("implementation harness failed (rc=%s, %d/%d lines)" % (rc, len(iout), nstream), ierr + "\n" + (impl_in[len(iout)] if len(iout) < len(impl_in) else ""))
        return finish(chk)
    # a case that used up its CPU budget inside a stream is re-run alone with a larger budget before it is called a hang
    dnr_confirmed, dnr_recovered, dnr_skipped = [], 0, 0
    for i in range(nstream):
        if iout[i].strip() == DNR:
            if CAPS.confirmations >= MAX_CONFIRMATIONS:      # neither a failing input nor a pass
                iout[i] = NOT_DRIVEN; dnr_skipped += 1
                continue
            CAPS.confirmations += 1
            r, o, _ = run_one(himpl, impl_in[i] + "\n", 600, {"C01_CPU_BUDGET": CONFIRM_CPU_BUDGET})
            if r == 0 and len(o) == 1 and o[0].strip() != DNR:
                iout[i] = o[0]; dnr_recovered += 1
                CAPS.dead_forms.discard(cases[i][0])
            elif r == 0 and len(o) == 1:
                dnr_confirmed.append(i)
            else:
                chk.cov["inconclusive"].append("re-run of a case that hit its CPU budget failed (rc=%s): %s" % (r, impl_in[i][:120]))
                iout[i] = NOT_DRIVEN
    # probes: one process per case, small CPU budget, confirmed with a larger one
    for i in probe_idx:
        if CAPS.form_dead(impl_in[i]):
            iout.append(NOT_DRIVEN)
            continue
        r, o, e = run_one(himpl, impl_in[i] + "\n", 300, {"C01_CPU_BUDGET": PROBE_CPU_BUDGET})
        if r == 0 and len(o) == 1 and o[0].strip() == DNR:
            CAPS.dead_forms.add(cases[i][0])
            r, o, e = run_one(himpl, impl_in[i] + "\n", 600, {"C01_CPU_BUDGET": PROBE_CONFIRM_BUDGET})
            if r == 0 and len(o) == 1 and o[0].strip() == DNR:
                dnr_confirmed.append(i)
        if r != 0 or len(o) != 1:
            chk.cov["inconclusive"].append("probe %s could not be run (rc=%s)" % (impl_in[i][:80], r))
            o = ["PROBE-NOT-RUN"]
        iout.append(o[0])
    chk.cov["cpu_watchdog"] = {"per_case_cpu_budget_s": float(STREAM_CPU_BUDGET), "confirm_budget_s": float(CONFIRM_CPU_BUDGET),
                               "probe_budget_s": float(PROBE_CPU_BUDGET), "probe_confirm_budget_s": float(PROBE_CONFIRM_BUDGET),
                               "probes": len(probe_idx), "cases_over_budget_then_returned": dnr_recovered, "cases_over_budget_not_re_run": dnr_skipped,
                               "caps": {"first_stage_overruns_per_run": MAX_OVERRUNS, "confirmations_per_run": MAX_CONFIRMATIONS,
                                        "crashes_per_form": MAX_CRASHES_PER_FORM, "crashes_per_run": MAX_CRASHES},
                               "first_stage_overruns": CAPS.overruns, "call_forms_not_driven_any_more": sorted(CAPS.dead_forms),
                               "crashes_by_form": dict(CAPS.crashes), "streams_cut_short": list(CAPS.stopped),
                               "cases_confirmed_not_returning": [impl_in[i] for i in dnr_confirmed][:20]}
    mout = None
    if drv:
        rc, mout, merr = run_chunks(drv, model_in, 2400)
        if rc == 124:
            chk.cov["inconclusive"].append("the extracted model driver did not finish within its wall-clock limit (machine load); "
                                           "implementation compared with the specification oracle only in this run")
            mout = None
        elif rc != 0 or len(mout) != len(cases):
            chk.broke("model driver failed (rc=%s, %d/%d lines)" % (rc, len(mout), len(cases)), merr)
            mout = None
    # 5. three-way comparison
    ncorr = nspec = not_driven = 0
    dist, corr_bad, unknown_model = {}, {}, set()
    for i, (v, a) in enumerate(cases):
        spec = T.VARIANTS[v]
        got = iout[i].split()
        ks = T.kinds(spec, a)
        exp = spec["oracle"](*a) if spec["oracle"] is not None else None
        if exp is not None:
            exp = [str(x) for x in (exp if isinstance(exp, (list, tuple)) else [exp])]
        if "verify" in spec and got != ["UNKNOWN-VARIANT"] and not spec["verify"](a, got):
            exp = ["<specification predicate: g = gcd(a,b), a u + b v = g, cofactors within GMP's documented bounds>"]
        dist[v] = dist.get(v, 0) + 1
        chk.count((v, tuple(a)), nontrivial=T.nontrivial(spec, a))
        if i % 1499 == 0:
            chk.sample({"variant": v, "args": [T.ser(k, x) for k, x in zip(ks, a)], "impl": iout[i].strip(), "spec": exp})
        if got == ["UNKNOWN-VARIANT"]:
            chk.broke("harness does not know variant " + v)
            continue
        if got in (["PROBE-NOT-RUN"], [NOT_DRIVEN]):
            not_driven += 1
            continue
        if got[:1] == ["CRASH"]:
            chk.fail_input(spec["site"], "crash", {"variant": v, "args": [T.ser(k, x) for k, x in zip(ks, a)]}, exp or ["<the call returns>"],
                           iout[i].strip(), "the harness process died on this case (exit status / signal %s)" % got[-1])
            continue
        if got == [DNR]:        # confirmed with the larger CPU budget: a concrete failing input whatever the oracle says
            kl = T.klass_of(spec, a)
            chk.fail_input(spec["site"], kl if "does not return" in kl else "does not return",
                           {"variant": v, "args": [T.ser(k, x) for k, x in zip(ks, a)]}, exp or ["<the call returns>"], DNR,
                           "the call does not return within %s s of CPU time (re-run alone)" % (PROBE_CONFIRM_BUDGET if i >= nstream else CONFIRM_CPU_BUDGET))
        if exp is not None:
            nspec += 1
        spec_fail = got == [DNR] or (exp is not None and got != exp)
        if spec_fail and got != [DNR]:
            chk.fail_input(spec["site"], T.klass_of(spec, a),
                           {"variant": v, "args": [T.ser(k, x) for k, x in zip(ks, a)]}, exp, iout[i].strip(),
                           "implementation differs from integer arithmetic over Z")
        if mout is not None and not spec.get("oracle_only") and spec_fail:
            if mout[i].split() == got:     # the model (written after the code as it is) agrees with the implementation on the failing input
                ncorr += 1
        if mout is not None and not spec.get("oracle_only") and not spec_fail:   # a failing input is not reported twice
            mg = mout[i].split()
            if mg == ["UNKNOWN-OP"]:
                unknown_model.add(spec.get("model", v.split("@")[0]))
                continue
            ncorr += 1
            if mg != got:
                corr_bad.setdefault(v, []).append("args=%s model=%s impl=%s" % (a, mout[i].strip(), iout[i].strip()))
            elif exp is not None and "verify" not in spec and mg != exp:
                corr_bad.setdefault(v, []).append("args=%s model=%s spec=%s (model differs from the specification oracle)" % (a, mout[i].strip(), exp))
    for m in sorted(unknown_model):
        chk.broke("model table has no entry " + m)
    for v, l in sorted(corr_bad.items()):
        name = v.split("@")[0]
        extra = " (and the source text of this body changed)" if name in changed else ""
        chk.broke("correspondence model/implementation differs on %s%s: %d case(s), e.g. %s" % (v, extra, len(l), l[0]))
    if len(chk.broken) > 25:
        chk.broken = chk.broken[:25] + [{"what": "... %d more" % (len(chk.broken) - 25), "detail": ""}]
    chk.cov["rule"] = ("every call form (variant) x structured operands: 0, +-1, word limits (INT32/INT64 MIN/MAX, UINT32/UINT64 MAX), 2^63, "
                       "2^64+-1, multi-limb values with limbs from {0,1,2^63,2^64-1,random}; word operands drawn from the edges of their C type "
                       "and random; non-trivial = some big-integer operand with |x| > 1; distinct = (variant, operands)")
    debug_stream(chk, replay)
    chk.cov["traces_validated_against_impl"] = ncorr
    chk.cov["oracle_comparisons"] = nspec
    chk.cov["cases_not_driven"] = not_driven      # after a hang / repeated crash of their call form or a cap: neither failing inputs nor passes
    nmodelled = sum(1 for v, a in cases if not T.VARIANTS[v].get("oracle_only"))
    chk.cov["floor"]["oracle comparisons"] = (nspec, int(0.9 * sum(1 for v, a in cases if T.VARIANTS[v]["oracle"] is not None)) if not chk.failing else 0)
    chk.cov["floor"]["correspondence comparisons (model = implementation)"] = (ncorr, int(0.9 * max(0, nmodelled - len(chk.failing))) if not chk.failing else 0)
    chk.cov["variants"] = len(T.VARIANTS)
    chk.cov["variants_oracle_only"] = sorted(v for v in T.VARIANTS if T.VARIANTS[v].get("oracle_only"))
    chk.cov["distribution_by_variant"] = dist
    chk.cov["grid_cases_by_variant"] = grid_n
    chk.cov["grid_rule"] = ("deterministic for every seed: per call form the full product (pairwise covering above %d cases) of the special values of "
                            "every operand position: big-integer positions 0, +-1, +-2^31, +-(2^32-1), +-2^63, +-(2^64-1), +-2^64 and +- every special "
                            "value of the word position (the other operand); word positions 0, +-1 and the limits of their C type (2^31-1, 2^31, 2^32-1, "
                            "2^63-1, 2^63, 2^64-1, INT32_MIN, INT64_MIN and neighbours); doubles 0, +-1, +-0.5, +-2^31, 2^32-1, 2^32, +-2^53, +-2^63, 2^64; "
                            "shift amounts 0,1,31..33,63..65; so every isZero()/sign dispatch branch of every overload meets every word limit" % T.GRID_FULL)
    fam = {}
    for v, n in dist.items():
        b = v.split("@")[0]
        fam.setdefault(b, {})[v] = n
    chk.cov["call_forms_by_body"] = fam
    chk.cov["call_forms"] = len(dist)
    return finish(chk)


if __name__ == "__main__":
    sys.path.insert(0, os.path.join(vf.ROOT, "lib"))
    sys.exit(main(sys.argv[1] if len(sys.argv) > 1 else "quick"))
