# C02 — Integer division and remainder obey their documented rounding conventions.  (DESIGN 5/C02)
# proof:  coq/C02 (one Gallina definition per overload body; theorems for all n in Z and every d != 0 of the C type)
# tie:    correspondence: extracted model  vs  every call form compiled from /repo's current tree
#         (+ the raw mpz primitives vs the trusted GmpSpec section of the model)
# search: python big-integer oracle implementing the four conventions (trunc / floor / ceil / euclid)
# phase 3: the extracted driver dispatches through the overload table coq/C02/Table.v (the one the theorems quantify over); the
#         check compares that table with its own list of forms / oracle kinds, reads the GMP primitive each overload calls and
#         the casts of the inline forwarders from VERIF_REPO's current source and compares them with the model's definitions,
#         has the compiled harness print the configuration constants and run the raw C conversions of the CInt layer, runs every
#         destination-bearing form from four different non-zero destinations, and sweeps a seed-independent word-limit grid.
import json, os, re, sys
import vf

AREA = "C02"
PID = "C02"

# ------------------------------------------------------------------ specification oracle (python ints)
def tquo(n, d):
    q = abs(n) // abs(d)
    return q if (n < 0) == (d < 0) else -q
def trem(n, d): return n - d * tquo(n, d)
def fquo(n, d):
    q = tquo(n, d)
    return q - 1 if (n - d * q != 0 and ((n < 0) != (d < 0))) else q
def frem(n, d): return n - d * fquo(n, d)
def cquo(n, d):
    q = tquo(n, d)
    return q + 1 if (n - d * q != 0 and ((n < 0) == (d < 0))) else q
def crem(n, d): return n - d * cquo(n, d)
def emod(n, d):
    r = trem(n, d)
    return r + abs(d) if r < 0 else r
def equo(n, d):
    q, r = divmod(n - emod(n, d), d)
    assert r == 0
    return q

RANGES = {"i64": (-2**63, 2**63 - 1), "u64": (0, 2**64 - 1), "i32": (-2**31, 2**31 - 1), "u32": (0, 2**32 - 1),
          "u16": (0, 2**16 - 1), "i16": (-2**15, 2**15 - 1), "i8": (-128, 127), "u8": (0, 255), "d53": (-2**53, 2**53),
          "f24": (-2**24, 2**24),
          "dbl": (-2**120, 2**120),                        # integer-valued doubles l (any magnitude since 2c6554a)
          "dblx": (-2**124, 2**124),                       # K = 16 l for doubles l with 4 fractional bits, |trunc l| >= 1
          "i64s": (-2**63 + 1, 2**63 - 1),                  # int64_t without INT64_MIN (std::abs / unary minus defined)
          "udblx": (0, 2**68 - 2**15),                     # K = 16 x for non-negative doubles x < 2^64 with 4 fractional bits
          "Z": None}

def fix53(v):
    """the nearest-toward-zero integer with at most 53 significant bits (what a double can carry exactly)"""
    a = abs(v)
    k = max(0, a.bit_length() - 53)
    a = (a >> k) << k
    return a if v >= 0 else -a

def fix_type(v, t):
    if t in ("dbl", "dblx", "udblx"):
        v = fix53(v)
        if t == "dblx" and abs(v) < 16:
            v = 16 + abs(v) if v >= 0 else -16 - abs(v)
    return v

def fits(v, t):
    lo, hi = RANGES[t]
    if t in ("dbl", "dblx", "udblx") and (fix53(v) != v or (t == "dblx" and abs(v) < 16)):
        return False
    return lo <= v <= hi

def wrap(v, t):
    """C narrowing conversion to the signed type t"""
    lo, hi = RANGES[t]
    m = hi - lo + 1
    return (v - lo) % m + lo

SPEC = {
    "tq": lambda n, d: [tquo(n, d)], "tr": lambda n, d: [trem(n, d)], "tqr": lambda n, d: [tquo(n, d), trem(n, d)],
    "fq": lambda n, d: [fquo(n, d)], "fr": lambda n, d: [frem(n, d)],
    "fqr": lambda n, d: [fquo(n, d), frem(n, d)], "cqr": lambda n, d: [cquo(n, d), crem(n, d)],
    "cq": lambda n, d: [cquo(n, d)], "cr": lambda n, d: [crem(n, d)],
    "emod": lambda n, d: [emod(n, d)], "divmod": lambda n, d: [equo(n, d), emod(n, d)], "equo": lambda n, d: [equo(n, d)],
    "exact": lambda n, d: [equo(n, d)],        # generated with d | n
    "abs_tr": lambda n, d: [abs(trem(n, d))], "abs_cr": lambda n, d: [abs(crem(n, d))],
    "tq_w": lambda n, d: [tquo(n, d), abs(trem(n, d))], "tr_w": lambda n, d: [trem(n, d), abs(trem(n, d))],
    "cr_w": lambda n, d: [crem(n, d), abs(crem(n, d))], "fr_w": lambda n, d: [frem(n, d), frem(n, d)],
    "tr_x16": lambda n, d: [trem(n, (abs(d) // 16) * (1 if d > 0 else -1))],      # operator%(double l), l = d/16: by trunc(l)
    "isdiv": lambda n, d: [1 if (n == 0 if d == 0 else n % d == 0) else 0],     # b = 0 divides only 0
    # raw C conversions (CInt layer of the model), second operand unused
    "c.u64": lambda n, d: [n % 2**64], "c.i64": lambda n, d: [wrap(n, "i64")], "c.i32": lambda n, d: [wrap(n, "i32")],
    "c.i16": lambda n, d: [wrap(n, "i16")], "c.abs": lambda n, d: [abs(n)], "c.neg": lambda n, d: [(-n) % 2**64],
    "c.dbl": lambda n, d: [int(float(n))], "c.trunc16": lambda n, d: [n // 16], "c.trunc53": lambda n, d: [fix53(n)],
}
# configuration the model is written for: what the compiled harness must print (LP64, 64-bit limbs, IEEE binary64)
CFG = {"cfg.sizeof_long": 8, "cfg.givaro_sizeof_long": 8, "cfg.limb_bits": 64, "cfg.ulong_max": 2**64 - 1, "cfg.i64_min": -2**63,
       "cfg.i64_max": 2**63 - 1, "cfg.u64_max": 2**64 - 1, "cfg.i32_min": -2**31, "cfg.u32_max": 2**32 - 1, "cfg.i16_min": -2**15,
       "cfg.u16_max": 2**16 - 1, "cfg.dbl_mant_dig": 53, "cfg.dbl_round_nearest": 1, "cfg.long_is_int64": 1}
CFG_DBG = dict(CFG)        # the same constants in the asserts-on configuration, which must also report NDEBUG undefined
CFG["cfg.ndebug"] = 1
for _k, _v in CFG.items():
    SPEC[_k] = (lambda v: (lambda n, d: [v]))(_v)

# form -> (spec kind, type of n, type of d, type of a word result or None)
F = {}
def form(name, kind, nt="Z", dt="Z", ret=None):
    F[name] = (kind, nt, dt, ret)

for p, k in [("gmp.tdiv_q", "tq"), ("gmp.tdiv_r", "tr"), ("gmp.tdiv_qr", "tqr"), ("gmp.fdiv_qr", "fqr"), ("gmp.cdiv_qr", "cqr"), ("gmp.fdiv_q", "fq"), ("gmp.fdiv_r", "fr"),
             ("gmp.cdiv_q", "cq"), ("gmp.cdiv_r", "cr"), ("gmp.mod", "emod"), ("gmp.divexact", "exact")]:
    form(p, k)
for p, k in [("gmp.tdiv_q_ui", "tq_w"), ("gmp.tdiv_r_ui", "tr_w"), ("gmp.tdiv_ui", "abs_tr"), ("gmp.cdiv_r_ui", "cr_w"),
             ("gmp.cdiv_ui", "abs_cr"), ("gmp.fdiv_r_ui", "fr_w"), ("gmp.fdiv_ui", "fr"), ("gmp.mod_ui", "emod"),
             ("gmp.divexact_ui", "exact")]:
    form(p, k, "Z", "u64")
# truncating quotient
form("divin.I", "tq"); form("divin.l", "tq", "Z", "i64"); form("divin.ul", "tq", "Z", "u64")
form("div.I", "tq"); form("div.l", "tq", "Z", "i64"); form("div.i", "tq", "Z", "i32"); form("div.ul", "tq", "Z", "u64")
form("op/=.I", "tq"); form("op/=.ul", "tq", "Z", "u64"); form("op/=.l", "tq", "Z", "i64"); form("op/=.u", "tq", "Z", "u32")
form("op/=.i", "tq", "Z", "i32"); form("op/=.T", "tq"); form("op/=.Ts", "tq", "Z", "i16")
form("op/.I", "tq"); form("op/.ul", "tq", "Z", "u64"); form("op/.l", "tq", "Z", "i64"); form("op/.u", "tq", "Z", "u32")
form("op/.i", "tq", "Z", "i32")
form("w/I.i", "tq", "i32", "Z"); form("w/I.l", "tq", "i64", "Z"); form("w/I.u", "tq", "u32", "Z"); form("w/I.ul", "tq", "u64", "Z")
form("trunc.r", "tq"); form("trunc.v", "tq"); form("dom.div", "tq"); form("dom.divin", "tq")
form("floor.r", "fq"); form("floor.v", "fq"); form("ceil.r", "cq"); form("ceil.v", "cq")
# exact division
form("divexact.qI", "exact"); form("divexact.qul", "exact", "Z", "u64"); form("divexact.ql", "exact", "Z", "i64")
form("divexact.I", "exact"); form("divexact.ul", "exact", "Z", "u64"); form("divexact.l", "exact", "Z", "i64")
form("dom.divexact", "exact")
# euclidean division
form("divmod.I", "divmod"); form("divmod.l", "divmod", "Z", "i64"); form("divmod.ul", "divmod", "Z", "u64")
form("dom.divmod", "divmod"); form("dom.quoRem", "divmod"); form("dom.quo", "equo"); form("dom.quoin", "equo"); form("dom.quo@qb", "equo")
# remainders by name
form("trem.I", "tr"); form("crem.I", "cr"); form("frem.I", "fr")
form("trem.ul", "tr", "Z", "u64"); form("crem.ul", "cr", "Z", "u64"); form("frem.ul", "fr", "Z", "u64")
form("trem.w", "abs_tr", "Z", "u64"); form("crem.w", "abs_cr", "Z", "u64"); form("frem.w", "fr", "Z", "u64")
# mod (non-negative)
form("modin.I", "emod"); form("modin.ul", "emod", "Z", "u64"); form("modin.l", "emod", "Z", "i64")
form("mod.I", "emod"); form("mod.l", "emod", "Z", "i64"); form("mod.ul", "emod", "Z", "u64"); form("mod.i", "emod", "Z", "i32")
form("mod.u", "emod", "Z", "u32"); form("dom.mod", "emod"); form("dom.modin", "emod"); form("dom.rem", "emod"); form("dom.remin", "emod")
# % (truncated remainder)
form("op%=.I", "tr"); form("op%=.ul", "tr", "Z", "u64"); form("op%=.l", "tr", "Z", "i64"); form("op%=.u", "tr", "Z", "u32")
form("op%=.i", "tr", "Z", "i32"); form("op%=.T", "tr"); form("op%=.Ts", "tr", "Z", "i16")
form("op%.I", "tr"); form("op%.ul", "tr", "Z", "u64", "i64"); form("op%.l", "tr", "Z", "i64")
form("op%.u", "tr", "Z", "u32"); form("op%.i", "tr", "Z", "i32"); form("op%.us", "tr", "Z", "u16")
form("op%.Ts", "tr", "Z", "i16"); form("op%.d", "tr", "Z", "dbl", "dbl"); form("op%.dx", "tr_x16", "Z", "dblx", "dbl")
form("op%.Tf", "tr", "Z", "f24")
# small integer types: promotions to int and template instantiations
form("op/.s", "tq", "Z", "i16"); form("op/.us", "tq", "Z", "u16"); form("op/.c", "tq", "Z", "i8")
form("op/=.Tus", "tq", "Z", "u16"); form("op/=.Tc", "tq", "Z", "i8"); form("op/=.Tuc", "tq", "Z", "u8"); form("op/=.Td", "tq", "Z", "d53")
form("op%=.Tus", "tr", "Z", "u16"); form("op%=.Tc", "tr", "Z", "i8"); form("op%=.Tuc", "tr", "Z", "u8"); form("op%=.Td", "tr", "Z", "d53")
form("mod.s", "emod", "Z", "i16"); form("mod.us", "emod", "Z", "u16"); form("mod.c", "emod", "Z", "i8")
form("div.s", "tq", "Z", "i16"); form("div.c", "tq", "Z", "i8")
form("w%I.i", "tr", "i32", "Z"); form("w%I.l", "tr", "i64", "Z"); form("w%I.u", "tr", "u32", "Z"); form("w%I.ul", "tr", "u64", "Z")
form("dom.isDivisor", "isdiv")
# phase 3: further template instances / promotions, long / unsigned long operands, the non-virtual base class of ZRing<Integer>,
# two-call sequences on one destination object
form("op%.Tc", "tr", "Z", "i8"); form("op%.Tuc", "abs_tr", "Z", "u8"); form("op/=.Tf", "tq", "Z", "f24"); form("op%=.Tf", "tr", "Z", "f24")
form("mod.uc", "emod", "Z", "u8"); form("w/I.s", "tq", "i16", "Z"); form("w%I.us", "tr", "u16", "Z")
form("op/.L", "tq", "Z", "i64"); form("op%.UL", "tr", "Z", "u64", "i64"); form("mod.L", "emod", "Z", "i64"); form("divexact.qUL", "exact", "Z", "u64")
form("zbase.div", "tq"); form("zbase.divin", "tq"); form("zbase.mod", "tr"); form("zbase.modin", "tr")
form("seq.mod", "emod"); form("seq.mod.ul", "emod", "Z", "u64"); form("seq.mod.l", "emod", "Z", "i64")
form("seq.div", "tq"); form("seq.div.ul", "tq", "Z", "u64"); form("seq.div.l", "tq", "Z", "i64")
form("seq.divexact", "exact"); form("seq.divexact.ul", "exact", "Z", "u64"); form("seq.divexact.l", "exact", "Z", "i64")
form("seq.trem.ul", "tr", "Z", "u64"); form("seq.divmod", "divmod")
# phase 4: every two-output form with each output object being each input object
for _a in ("qa", "qb", "ra", "rb", "qa.rb", "qb.ra"):
    form("divmod.I@" + _a, "divmod"); form("dom.quoRem@" + _a, "divmod")
for _a in ("qa", "qb", "ra", "rb"):
    form("dom.divmod@" + _a, "divmod")
form("divmod.l@qa", "divmod", "Z", "i64"); form("divmod.ul@qa", "divmod", "Z", "u64")
TABLE_FORMS = sorted(f for f in F if not f.startswith("gmp."))      # what coq/C02/Table.v must list, with the same kind and types
# trusted layers run against the compiled code: raw conversions and configuration constants (operand d unused, always 1)
form("cast.i64_u64", "c.u64", "i64", "one"); form("cast.u64_i64", "c.i64", "u64", "one"); form("cast.i64_i32", "c.i32", "i64", "one")
form("cast.i64_i16", "c.i16", "i64", "one"); form("cast.u64_i32", "c.i32", "u64", "one"); form("cast.abs64", "c.abs", "i64s", "one")
form("cast.neg64", "c.neg", "i64s", "one"); form("cast.i64_dbl", "c.dbl", "i64", "one"); form("cast.mpz_dbl", "c.trunc53", "Z", "one"); form("cast.dbl_u64", "c.trunc16", "udblx", "one")
for _k in CFG:
    form(_k, _k, "one", "one")
RANGES["one"] = (1, 1)
def conv_name(f):
    kind, nt, dt, ret = F[f]
    return kind if ret is None else (kind + ">dbl" if ret == "dbl" else kind + "|fits:" + ret)

# Site / input-class strings of the call forms that have (had) an entry in known_findings.json: the strings are
# the keys of those entries, so they stay as they were recorded.  Every other form gets "Integer::<form>" and
# the sign class of (n, d).
SITES = {
    "trem.w": ("Integer::trem(n,uint64_t)->uint64_t", lambda n, d: "d-does-not-divide-n" if n % d else "d-divides-n"),
    "crem.w": ("Integer::crem(n,uint64_t)->uint64_t", lambda n, d: "d-does-not-divide-n" if n % d else "d-divides-n"),
    "divmod.l": ("Integer::divmod(q,int64_t&,n,int64_t)", lambda n, d: "d<0" if d < 0 else "d>0"),
    "op%=.l": ("Integer::operator%=(int64_t)", lambda n, d: "d<0" if d < 0 else "d>0"),
    "op%=.i": ("Integer::operator%=(int32_t)", lambda n, d: "d<0" if d < 0 else "d>0"),
    "dom.quo": ("IntegerDom::quo", lambda n, d: "d<0" if d < 0 else "d>0"),
    "dom.quoin": ("IntegerDom::quoin", lambda n, d: "d<0" if d < 0 else "d>0"),
}

NARROW = {   # the one `%` overload whose return type cannot hold every remainder and that has no repair: form -> (site, return type)
    "op%.ul": ("Integer::operator%(uint64_t)->int64_t", "i64"), "op%.UL": ("Integer::operator%(uint64_t)->int64_t", "i64"),
}
K_NOFIT = "remainder does not fit the return type"

def narrowed(f, r):
    """what the code is known to return for a remainder r of a NARROW form (documentation of the finding, theorem
    C02_percent_operators_narrow_return_wrap), and the value class of r (None: r fits, nothing is masked)"""
    site, rt = NARROW[f]
    return wrap(r, rt), (K_NOFIT if not fits(r, rt) else None)

def site_of(f, n, d, observed=None):
    if f in NARROW and d != 0:
        r = SPEC[F[f][0]](n, d)[0]
        val, kl = narrowed(f, r)
        if kl is not None:
            # the recorded finding covers the narrowed value only: any OTHER wrong result in the same value class stays a violation
            return NARROW[f][0], (kl if observed in (None, [str(val)]) else kl + " (and the result is not the narrowed remainder either)")
    if d == 0:
        return "IntegerDom::" + f[4:], "d=0"
    if f in SITES:
        s, k = SITES[f]
        return s, k(n, d)
    if f.startswith("dom."):
        site = "IntegerDom::" + f[4:]
    elif f.startswith("gmp."):
        site = "GMP::mpz_" + f[4:]
    else:
        site = "Integer::" + f
    return site, "n%s0,d%s0" % ("<" if n < 0 else ">=", "<" if d < 0 else ">")


# ------------------------------------------------------------------ generators
def edges(t):
    if t == "Z":
        return [v for v in vf.WORD_EDGES] + [2**127, -2**127, 2**128 - 1, -(2**128 - 1), 2**64 * 3, 10**30, -10**30]
    lo, hi = RANGES[t]
    c = {lo, lo + 1, hi, hi - 1, 0, 1, 2, 3, -1, -2, -3, hi // 2, hi // 2 + 1, lo // 2, 2**31 - 1, 2**31, 2**32 - 1, 2**32, 2**63 - 1,
         2**63, -2**31, -2**31 - 1, -2**63, 2**15, 2**15 - 1, -2**15, 2**16 - 1, 10, 7}
    return sorted({fix_type(v, t) for v in c if lo <= v <= hi and fits(fix_type(v, t), t)})

def rand_val(rng, t):
    if t == "Z":
        return vf.structured_int(rng, maxlimbs=4)
    lo, hi = RANGES[t]
    k = rng.below(10)
    if k < 4:
        return rng.choice(edges(t))
    bits = hi.bit_length()
    v = rng.bits(rng.range(1, bits))
    if lo < 0 and rng.chance(1, 2):
        v = -v
    return fix_type(min(max(v, lo), hi), t)

def clampfit(v, t):
    return t == "Z" or fits(v, t)

def gen_pair(rng, kind, nt, dt, idx):
    """(n, d, class) with d != 0, n of type nt, d of type dt; classes aimed at the case splits of the code"""
    for _ in range(200):
        d = rand_val(rng, dt)
        if d == 0:
            continue
        c = idx % 12 if idx < 48 else rng.below(12)
        if kind == "exact":
            c = rng.choice([0, 1, 2, 3, 4])
        if c == 0:      # n multiple of d (both signs)
            k = rng.choice([0, 1, -1, 2, -2, rng.bits(rng.range(1, 130)) * rng.choice([1, -1])])
            n, cl = k * d, "n=k*d"
        elif c == 1:
            n, cl = rng.choice([d, -d, 0]), "n in {d,-d,0}"
        elif c == 2:    # |d| = 1
            d = rng.choice([1, -1]) if (dt == "Z" or RANGES[dt][0] < 0) else 1
            if dt == "dblx":
                d = rng.choice([16, -16, 17, -31])      # |trunc(d/16)| = 1
            n, cl = rand_val(rng, nt), "|d|=1"
        elif c == 3:    # multiple of d, multi-limb
            n, cl = d * vf.structured_int(rng, 3), "n=k*d multi-limb"
        elif c == 4:
            n, cl = d * rng.choice([2**64, -2**64, 2**63, -2**63, 2**32]), "n=2^k*d"
        elif c == 5:    # |d| > |n|
            n = rng.below(abs(d)) * rng.choice([1, -1])
            cl = "|d|>|n|"
        elif c == 6:    # multiple +- small
            n = d * vf.structured_int(rng, 2) + rng.choice([1, -1, 2, -2])
            cl = "n=k*d+-e"
        elif c == 7:    # remainder close to |d|
            n = d * vf.structured_int(rng, 2) + rng.choice([1, -1]) * (abs(d) - 1)
            cl = "n=k*d+-(|d|-1)"
        elif c == 8:
            n, cl = rng.choice(edges(nt)), "n at a word limit"
        elif c == 9:
            d = rng.choice([e for e in edges(dt) if e != 0])
            n, cl = rand_val(rng, nt), "d at a word limit"
        elif c == 10:   # half of d
            n = d * vf.structured_int(rng, 2) + rng.choice([1, -1]) * (abs(d) // 2)
            cl = "n=k*d+-|d|/2"
        else:
            n, cl = rand_val(rng, nt), "random"
        if kind == "exact" and n % d != 0:
            continue
        if d == 0 or not clampfit(d, dt):
            continue
        if not clampfit(n, nt):
            if nt != "Z":
                n = rand_val(rng, nt)
                cl = "random"
                if kind == "exact":
                    continue
            else:
                continue
        return n, d, cl
    return (0 if kind == "exact" else 5), (16 if dt == "dblx" else (1 if dt != "Z" and RANGES[dt][0] >= 0 else -1)), "fallback"


# directed cases every run starts with (witnesses of the Coq `_refuted` theorems and the limits of the casts)
DIRECTED = [
    ("trem.w", 7, 3), ("crem.w", 7, 3), ("trem.w", -7, 3), ("crem.w", -7, 3), ("frem.w", -7, 3),
    ("divmod.l", -7, -2), ("divmod.l", 7, -2), ("divmod.l", -7, 2), ("divmod.l", 7, 2), ("divmod.l", -1, -2**63), ("divmod.l", 2**64, -2**63),
    ("divmod.ul", -7, 2), ("divmod.ul", -1, 2**64 - 1), ("divmod.I", -7, -2), ("divmod.I", 7, -2),
    ("op%=.l", 7, -3), ("op%=.l", -7, -3), ("op%=.i", 7, -3), ("op%=.l", 7, -2**63), ("op%=.I", 7, -3), ("op%=.ul", -7, 3),
    ("dom.quo", 7, -2), ("dom.quoin", 7, -2), ("dom.quo", -7, -2), ("dom.quoRem", 7, -2), ("dom.rem", 7, -2),
    ("op%.ul", 2**64 - 2, 2**64 - 1), ("op%.ul", -(2**64 - 2), 2**64 - 1), ("op%.ul", -(2**63), 2**64 - 1), ("op%.ul", 2**63 - 1, 2**63),
    ("op%.u", 3000000000, 4000000000), ("op%.us", 40000, 50000), ("op%.l", 10**30, -2**63), ("op%.l", -10**30, -2**63),
    ("op%.i", 10**30, -2**31), ("op%.d", 10**30, -2**53), ("op%.d", -10**30, 2**53),
    ("div.l", 10**30, -2**63), ("divin.l", -10**30, -2**63), ("op/.l", 2**63, -2**63), ("op/=.l", -2**63, -2**63), ("div.i", -2**31, -2**31),
    ("mod.l", 10**30, -2**63), ("modin.l", -10**30, -2**63), ("mod.l", -1, -2**63), ("mod.i", -1, -2**31),
    ("divexact.l", 2**126, -2**63), ("divexact.ql", -2**126, -2**63),
    ("dom.isDivisor", 0, 0), ("dom.isDivisor", 5, 0), ("dom.isDivisor", -5, 0), ("dom.isDivisor", 2**64, 0),   # the one form defined for d = 0
]


# operator%(double): remainders above 2^53 that fall on / next to a rounding tie of the int64_t -> double conversion, and
# divisors above 2^63 whose remainder does not fit the intermediate int64_t
for _d in (2**63, -2**63, 2**64 - 2**11, 2**63 + 2**11, -(2**64 - 2**11), 2**64, -2**70, 2**100 + 2**60):
    for _n in (2**53 + 1, 2**53 + 3, 2**54 + 2, 2**54 + 6, 2**54 + 1, 2**62 + 2**9, 2**62 + 3 * 2**9, 2**62 + 2**9 + 1, 2**63 - 1,
               2**63 - 513, 2**63 + 1025, 2**64 - 2**11 - 1, 2**64 - 2**12 + 1, 2**64 + 2**53 + 1):
        DIRECTED.append(("op%.d", _n, _d)); DIRECTED.append(("op%.d", -_n, _d))
        DIRECTED.append(("op%.dx", _n, 16 * _d))
        if abs(_d) < 2**64:
            DIRECTED.append(("op%.ul", -_n, abs(_d)))

# ------------------------------------------------------------------ seed-independent limit grid (every run, every seed)
LIMS = [2**7 - 1, 2**7, 2**8 - 1, 2**8, 2**15 - 1, 2**15, 2**16 - 1, 2**16, 2**24, 2**31 - 1, 2**31, 2**31 + 1, 2**32 - 1, 2**32, 2**32 + 1,
        2**53, 2**63 - 1, 2**63, 2**63 + 1, 2**64 - 59, 2**64 - 1, 2**64, 2**64 + 1]
RLIMS = [2**31 - 1, 2**31, 2**32 - 1, 2**32, 2**63 - 1, 2**63, 2**63 + 1, 2**64 - 2]

def limit_grid(kind, nt, dt):
    """(n, d) with |d| = 1, 2, 3 and at every word limit that the divisor's type can hold, against dividends 0, +-1, +-d,
    k d +- 1, remainders |d|-1, |d|/2 and at the word limits (2^31-1 .. 2^64-2), single- and multi-limb quotients; both
    signs of both operands.  For the word-DIVIDEND forms the roles are swapped."""
    out = []
    if nt != "Z":                                   # word / Integer, word % Integer
        lo, hi = RANGES[nt]
        for L in [0, 1, 2, 3] + LIMS:
            for sn in (1, -1):
                n = sn * L
                if not (lo <= n <= hi):
                    continue
                a = abs(n)
                for o in (1, 2, 3, a - 1, a, a + 1, a // 2, 2 * a + 1, 2**64 + 1, 2**63):
                    for sd in (1, -1):
                        if o > 0:
                            out.append((n, sd * o))
        return out
    for L in [1, 2, 3] + LIMS:
        for sd in (1, -1):
            d = sd * L
            if dt == "dblx":
                d = fix_type(16 * d + sd * 5, dt)
            elif dt in ("dbl",):
                d = fix_type(d, dt)
            if d == 0 or not clampfit(d, dt):
                continue
            a = abs(d) // 16 if dt == "dblx" else abs(d)
            if a == 0:
                continue
            if kind == "exact":
                os_ = [0] + [a * k for k in (1, 2, 3, 2**32, 2**63, 2**64 - 1, 2**64 + 1)]
            else:
                os_ = [0, 1, a - 1, a, a + 1, 2 * a - 1, 2 * a, 2 * a + 1, 3 * a - 1, 3 * a + 1, 2**32 * a + 1, 2**64 * a - 1, 2**64 * a + 1,
                       (2**64 + 1) * a, 7 * a + (a - 1), 7 * a + a // 2]
                for r in RLIMS:
                    if r < a:
                        os_ += [r, 5 * a + r, 2**64 * a + r]
            for o in sorted(set(os_)):
                for sn in ((1, -1) if o else (1,)):
                    out.append((sn * o, d))
    return out


# ------------------------------------------------------------------ tie to the source text of VERIF_REPO (read on every run)
MODEL_OF = {   # Gallina definition of coq/C02/Model.v  ->  C++ definition (name, parameter types) in gmp++_int_div.C / gmp++_int_mod.C
    "divin_I": "divin(Integer,Integer)", "divin_l": "divin(Integer,int64_t)", "divin_ul": "divin(Integer,uint64_t)",
    "div_I": "div(Integer,Integer,Integer)", "div_l": "div(Integer,Integer,int64_t)", "div_i": "div(Integer,Integer,int32_t)",
    "div_ul": "div(Integer,Integer,uint64_t)",
    "divexact_q_I": "divexact(Integer,Integer,Integer)", "divexact_q_ul": "divexact(Integer,Integer,uint64_t)",
    "divexact_q_l": "divexact(Integer,Integer,int64_t)", "divexact_I": "divexact(Integer,Integer)",
    "divexact_ul": "divexact(Integer,uint64_t)", "divexact_l": "divexact(Integer,int64_t)",
    "op_diveq_I": "operator/=(Integer)", "op_diveq_ul": "operator/=(uint64_t)", "op_diveq_l": "operator/=(int64_t)",
    "op_div_I": "operator/(Integer)", "op_div_ul": "operator/(uint64_t)", "op_div_l": "operator/(int64_t)",
    "divmod_I": "divmod(Integer,Integer,Integer,Integer)", "divmod_l": "divmod(Integer,int64_t,Integer,int64_t)",
    "divmod_ul": "divmod(Integer,uint64_t,Integer,uint64_t)",
    "ceil_r": "ceil(Integer,Integer,Integer)", "floor_r": "floor(Integer,Integer,Integer)", "trunc_r": "trunc(Integer,Integer,Integer)",
    "ceil_v": "ceil(Integer,Integer)", "floor_v": "floor(Integer,Integer)", "trunc_v": "trunc(Integer,Integer)",
    "trem_I": "trem(Integer,Integer,Integer)", "crem_I": "crem(Integer,Integer,Integer)", "frem_I": "frem(Integer,Integer,Integer)",
    "trem_ul": "trem(Integer,Integer,uint64_t)", "crem_ul": "crem(Integer,Integer,uint64_t)", "frem_ul": "frem(Integer,Integer,uint64_t)",
    "trem_w": "trem(Integer,uint64_t)", "crem_w": "crem(Integer,uint64_t)", "frem_w": "frem(Integer,uint64_t)",
    "modin_I": "modin(Integer,Integer)", "modin_ul": "modin(Integer,uint64_t)", "modin_l": "modin(Integer,int64_t)",
    "mod_I": "mod(Integer,Integer,Integer)", "mod_l": "mod(Integer,Integer,int64_t)", "mod_ul": "mod(Integer,Integer,uint64_t)",
    "op_modeq_I": "operator%=(Integer)", "op_modeq_ul": "operator%=(uint64_t)", "op_modeq_l": "operator%=(int64_t)",
    "op_mod_I": "operator%(Integer)", "op_mod_ul": "operator%(uint64_t)", "op_mod_l": "operator%(int64_t)", "op_mod_dfrac": "operator%(double)",
}
FRIENDS = ["operator/(int32_t,Integer)", "operator/(int64_t,Integer)", "operator/(uint32_t,Integer)", "operator/(uint64_t,Integer)",
           "operator%(int32_t,Integer)", "operator%(int64_t,Integer)", "operator%(uint32_t,Integer)", "operator%(uint64_t,Integer)"]
CALLEE = {"op_mod_ul": "operator%", "op_mod_I": "operator%", "div_l": "div"}          # model definitions that forward to another overload
FORWARDERS = {   # inline forwarders of gmp++_int.h: Gallina definition -> (member, divisor type)
    "op_div_u": ("operator/", "uint32_t"), "op_div_i": ("operator/", "int32_t"), "op_diveq_u": ("operator/=", "uint32_t"),
    "op_diveq_i": ("operator/=", "int32_t"), "mod_i": ("mod", "int32_t"), "mod_u": ("mod", "uint32_t"),
    "op_mod_u": ("operator%", "uint32_t"), "op_mod_i": ("operator%", "int32_t"), "op_mod_us": ("operator%", "uint16_t"),
    "op_modeq_u": ("operator%=", "uint32_t"), "op_modeq_i": ("operator%=", "int32_t"),
}
CAST_C = {"to_u64": "uint64_t", "to_i64": "int64_t", "to_i32": "int32_t", "to_i16": "int16_t", "to_u32": "uint32_t"}
DOM_WRAPPERS = ["div", "divin", "mod", "modin", "divmod", "divexact", "quo", "rem", "quoin", "remin", "quoRem"]

def model_defs():
    txt = open(os.path.join(vf.coq_dir(AREA), "Model.v")).read()
    txt = re.sub(r"\(\*.*?\*\)", " ", txt, flags=re.S)
    return {m.group(1): m.group(3) for m in re.finditer(r"Definition\s+(\w+)\b(.*?):=(.*?)\.[ \t]*(?:\n|$)", txt + "\n", flags=re.S)}

def ptypes(params):
    out = []
    for prm in params.split(","):
        toks = [t for t in re.sub(r"[&*]", " ", prm).split() if t != "const"]
        if toks:
            out.append(toks[0] if len(toks) == 1 else " ".join(toks[:-1]))
    return ",".join(out)

def cxx_defs(path, flags):
    """function definitions of one .C file after the real preprocessor (so that #if __GIVARO_SIZEOF_LONG / __GIVARO_DEBUG
    select what is compiled): key 'name(types)' -> body text"""
    rc, out = vf.sh([vf.CXX] + vf.BASE_FLAGS + flags + ["-E", path], timeout=600)
    if rc != 0:
        return None, out[-2000:]
    keep, own = [], False
    for line in out.splitlines():
        m = re.match(r'# \d+ "([^"]*)"', line)
        if m:
            own = os.path.abspath(m.group(1)) == os.path.abspath(path)
            continue
        if own:
            keep.append(line)
    txt = "\n".join(keep)
    defs = {}
    for m in re.finditer(r"(?:Integer\s*&?|u?int\d+_t|double|float|bool|void|int|long|unsigned(?:\s+\w+)?)\s+(?:Integer::)?(operator\s*[/%]=?|\w+)\s*\(([^()]*)\)\s*(?:const)?\s*\{", txt):
        i, depth = m.end(), 1
        while i < len(txt) and depth:
            depth += {"{": 1, "}": -1}.get(txt[i], 0)
            i += 1
        defs[re.sub(r"\s+", "", m.group(1)) + "(" + ptypes(m.group(2)) + ")"] = txt[m.end():i - 1]
    return defs, ""

def source_tie(chk):
    """what the theorems assume about the SOURCE, re-read from VERIF_REPO on every run: which GMP primitive (and which other
    overload) each modelled body calls, in which order; the casts of the inline forwarders; the callees and the branch order
    of the IntegerDom wrappers; no division entry point of the anchor files without a model."""
    tie = {"primitive_sequences_compared": 0, "forwarder_casts_compared": 0, "dom_wrappers_compared": 0, "mismatches": []}
    md = model_defs()
    src = os.path.join(vf.REPO, "src", "kernel", "gmp++")
    defs = {}
    for fn in ("gmp++_int_div.C", "gmp++_int_mod.C"):
        d, err = cxx_defs(os.path.join(src, fn), vf.inc_flags())
        if d is None:
            if "[timeout" in err:
                chk.notes.append("source tie inconclusive: preprocessing %s timed out" % fn)
                tie["inconclusive"] = True
                chk.cov["source_tie"] = tie
                return
            chk.broke("source tie: %s does not preprocess" % fn, err)
            chk.cov["source_tie"] = tie
            return
        defs.update(d)
    def bad(msg):
        tie["mismatches"].append(msg)
    for g, key in sorted(MODEL_OF.items()):
        if key not in defs:
            bad("%s: no definition %s in the source (signature changed or removed)" % (g, key)); continue
        if g not in md:
            bad("model definition %s missing" % g); continue
        # after the preprocessor the GMP entry points carry their linker names (__gmpz_tdiv_q ...; mpz_mod_ui is a macro for mpz_fdiv_r_ui)
        got = [re.sub(r"\s+|\(", "", t).replace("__gmpz_", "mpz_") for t in re.findall(r"\b__gmpz_\w+|operator\s*[%/]=?\s*\(|\bdiv\s*\(", defs[key])]
        exp = [{"mpz_mod_ui": "mpz_fdiv_r_ui"}.get(t, CALLEE.get(t, t)) for t in re.findall(r"\bmpz_\w+|\bop_mod_ul\b|\bop_mod_I\b|\bdiv_l\b", md[g])]
        tie["primitive_sequences_compared"] += 1
        if got != exp:
            bad("%s calls %s in the source, the model body %s has %s" % (key, got, g, exp))
        zs = ("isZero" in defs[key], "isZero" in md[g])
        if zs[0] != zs[1]:
            bad("%s: zero-dividend shortcut %s in the source, %s in the model" % (key, zs[0], zs[1]))
    for key in FRIENDS:
        if key not in defs:
            bad("no definition %s in the source" % key)
        elif re.sub(r"\s+", "", defs[key]) not in ("returnInteger(l)/n;", "returnInteger(l)%n;"):
            bad("%s is no longer `return Integer(l) op n;`: %s" % (key, defs[key].strip()))
    known = set(MODEL_OF.values()) | set(FRIENDS)
    for key in sorted(defs):
        if key not in known:
            bad("division / remainder entry point %s of the source has no model" % key)
    # inline forwarders of gmp++_int.h
    hdr = open(os.path.join(src, "gmp++_int.h")).read()
    hdr = re.sub(r"//[^\n]*|/\*.*?\*/", " ", hdr, flags=re.S)
    inl = {}
    for m in re.finditer(r"\b(operator\s*[/%]=?|mod)\s*\(([^()]*)\)\s*(?:const)?\s*\{\s*return\s+([^;{}]*);\s*\}", hdr):
        inl[(re.sub(r"\s+", "", m.group(1)), ptypes(m.group(2)).split(",")[-1])] = m.group(3)
    for g, key in sorted(FORWARDERS.items()):
        if key not in inl:
            bad("inline forwarder %s(%s) not found in gmp++_int.h" % key); continue
        got = re.findall(r"\(\s*(u?int\d+_t)\s*\)", inl[key])
        exp = [CAST_C[t] for t in re.findall(r"\bto_[ui]\d+\b", md.get(g, ""))]
        tie["forwarder_casts_compared"] += 1
        if got != exp:
            bad("forwarder %s(%s): casts %s in the source, %s in the model body %s" % (key[0], key[1], got, exp, g))
    for key, body in sorted(inl.items()):
        if key not in FORWARDERS.values() and key[1] != "XXX":
            bad("inline forwarder %s(%s) of gmp++_int.h has no model" % key)
    # IntegerDom wrappers of givinteger.h
    giv = open(os.path.join(vf.REPO, "src", "kernel", "integer", "givinteger.h")).read()
    giv = re.sub(r"//[^\n]*|/\*.*?\*/", " ", giv, flags=re.S)
    for w in DOM_WRAPPERS:
        m = re.search(r"\b%s\s*\(([^()]*)\)\s*const\s*\{([^{}]*)\}" % w, giv)
        if not m:
            bad("IntegerDom::%s not found in givinteger.h" % w); continue
        got = [a or b for a, b in re.findall(r"Integer::(\w+)\s*\(|\b(quo|modin)\s*\(", m.group(2))]
        exp = [t[1] for t in re.findall(r"\b(dom_)?(divexact|divmod|divin|div|modin|mod|ceil|floor|quo)(?:_\w+)?\b", md.get("dom_" + w, ""))]
        tie["dom_wrappers_compared"] += 1
        if got != exp:
            bad("IntegerDom::%s calls %s in the source, the model body dom_%s has %s" % (w, got, w, exp))
    m = re.search(r"isDivisor\s*\([^()]*\)\s*const\s*\{(.*?)\n\s*\}", giv, flags=re.S)
    if not m or re.sub(r"\s+", "", m.group(1)) != "Elementr;if(::Givaro::isZero(b))return::Givaro::isZero(a);return::Givaro::isZero(mod(r,a,b));":
        bad("IntegerDom::isDivisor body changed: %s" % (m.group(1).strip() if m else None))
    else:
        tie["dom_wrappers_compared"] += 1
    for msg in tie["mismatches"][:12]:
        chk.broke("source tie: " + msg)
    chk.cov["source_tie"] = tie


def table_tie(chk, drv):
    """the overload table the theorems quantify over (extracted from coq/C02/Table.v) against the forms this check drives"""
    rc, out, err = vf.run_lines(drv, "TABLE\n", timeout=600)
    if rc == 124:
        chk.notes.append("overload-table comparison inconclusive: the model driver timed out")
        return
    rows = {}
    for ent in (out[0].split(";") if out else []):
        t = ent.split()
        if len(t) == 4:
            rows[t[0]] = tuple(t[1:])
    mine = {f: (conv_name(f), F[f][1], F[f][2]) for f in TABLE_FORMS}
    diff = [(f, rows.get(f), mine.get(f)) for f in sorted(set(rows) | set(mine)) if rows.get(f) != mine.get(f)]
    chk.cov["overload_table"] = {"rows_in_Table.v": len(rows), "forms_driven_by_the_check": len(mine), "differences": len(diff)}
    for f, a, b in diff[:10]:
        chk.broke("overload table: form %s is %s in coq/C02/Table.v and %s in the check" % (f, a, b))


def norm(line):
    return line.split()


HANG = {"first_stage_cpu_s": 10, "confirm_cpu_s": 30, "max_confirmations_per_run": 3, "max_overruns_per_run": 6, "max_crashes_per_form": 4,
        "confirmed": [], "overruns": 0, "forms_stopped": {}}        # shared by ALL streams of a run: the cost of a hanging change is bounded

def run_binary(chk, binary, lines, label, inconclusive):
    """run the harness on the lines; locate crashes (each is a result), CPU-budget overruns (re-run alone with a larger budget
    before being believed) and tooling time-outs / kills (inconclusive).  Returns one output string per line.
    Bounded cost: after the FIRST confirmed `does not return` of a call form (or 4 crashes of it) the form is not driven any
    more in this run, in any stream (remaining cases NOT-RUN, recorded); at most 3 confirmations (10 s + 30 s CPU each) and 6
    first-stage overruns per run, after which the stream stops and is recorded as inconclusive."""
    out = [None] * len(lines)
    form_of = [l.split(" ", 1)[0] for l in lines]
    pending = [i for i in range(len(lines)) if form_of[i] not in HANG["forms_stopped"]]
    crashes = {}
    def stop_form(f, why):
        HANG["forms_stopped"][f] = why
    while pending:
        rc, o, ierr = vf.run_lines(binary, "".join(lines[i] for i in pending), timeout=3000)
        hung = bool(o) and o[-1] == "CPU-BUDGET-EXCEEDED"
        if hung:
            o = o[:-1]
        for k, line in enumerate(o[:len(pending)]):
            out[pending[k]] = line
        if len(o) >= len(pending):
            break
        bad, rest = pending[len(o)], pending[len(o) + 1:]
        f = form_of[bad]
        if rc == 124 or "[timeout]" in (ierr or ""):
            inconclusive.append("%s: harness timed out (wall clock) with %d cases left: they were not compared" % (label, len(rest) + 1))
            break
        if rc in (-9, 137, -15, 143):          # killed from outside (OOM killer, operator): says nothing about givaro
            inconclusive.append("%s: harness was killed (rc=%s) with %d cases left: they were not compared" % (label, rc, len(rest) + 1))
            break
        if rc == 0:
            chk.broke("%s: harness stopped early without an error (rc=0, %d cases left)" % (label, len(rest) + 1), ierr)
            break
        if hung and rc == 97:
            HANG["overruns"] += 1
            if len(HANG["confirmed"]) >= HANG["max_confirmations_per_run"] or HANG["overruns"] > HANG["max_overruns_per_run"]:
                stop_form(f, "CPU budget exceeded again after the cap on confirmations was reached: not confirmed, form not driven any further")
                inconclusive.append("%s: form %s exceeded the CPU budget after the cap of %d confirmed hangs per run: its remaining cases were not run" % (label, f, HANG["max_confirmations_per_run"]))
                if HANG["overruns"] > HANG["max_overruns_per_run"]:
                    inconclusive.append("%s: more than %d CPU-budget overruns in this run: the stream was stopped with %d cases left" % (label, HANG["max_overruns_per_run"], len(rest)))
                    break
            else:
                # one case used more CPU time than the first-stage budget: run it alone with the larger budget before reporting it
                os.environ["C02_CPU_BUDGET"] = str(HANG["confirm_cpu_s"])
                try:
                    rc2, o2, _ = vf.run_lines(binary, lines[bad], timeout=900)
                finally:
                    os.environ.pop("C02_CPU_BUDGET", None)
                if rc2 == 0 and len(o2) == 1:
                    out[bad] = o2[0]
                elif rc2 == 97:
                    out[bad] = "DOES-NOT-RETURN (more than %d s of CPU time for this one call)" % HANG["confirm_cpu_s"]
                    HANG["confirmed"].append(lines[bad].strip() + " [" + label + "]")
                    stop_form(f, "does not return on `%s` (%s): the remaining cases of this form were not run" % (lines[bad].strip(), label))
                elif rc2 == 124:
                    inconclusive.append("%s: re-run of a slow case timed out (wall clock)" % label)
                else:
                    out[bad] = "CRASH(rc=%s)" % rc2
        else:
            out[bad] = "CRASH(rc=%s)" % rc
            crashes[f] = crashes.get(f, 0) + 1
            if crashes[f] >= HANG["max_crashes_per_form"]:
                stop_form(f, "crashed %d times (last: `%s`, rc=%s, %s): the remaining cases of this form were not run" % (crashes[f], lines[bad].strip(), rc, label))
        pending = [i for i in rest if form_of[i] not in HANG["forms_stopped"]]
    return [x if x is not None else "NOT-RUN" for x in out]


def run_stream(chk, st, himpl, drv, all_cases, label, inconclusive, dbg=False):
    CHUNK = 300000                     # bounded memory / pipe size in the thorough tier
    for c0 in range(0, len(all_cases), CHUNK):
        cases = all_cases[c0:c0 + CHUNK]
        impl_in = "".join("%s %d %d\n" % (f, n, d) for f, n, d, cl in cases)
        iout = run_binary(chk, himpl, impl_in.splitlines(True), label, inconclusive)
        mout = None
        if drv:
            rc, mout, merr = vf.run_lines(drv, impl_in, timeout=3000)
            if rc == 124 or "[timeout]" in (merr or "") or rc in (-9, 137, -15, 143):
                inconclusive.append("extracted model driver timed out / was killed (rc=%s) after %d of %d cases of a chunk: no correspondence comparison for this chunk" % (rc, len(mout), len(cases)))
                mout = None
            elif rc != 0 or len(mout) != len(cases):
                chk.broke("model driver failed (rc=%s, %d/%d lines)" % (rc, len(mout), len(cases)), merr)
                mout = None
        # comparison: implementation vs oracle decides violations; implementation vs extracted model is the tie
        for i, (f, n, d, cl) in enumerate(cases):
            kind, nt, dt, ret = F[f]
            if iout[i] == "NOT-RUN":
                continue
            exp = [0] if (dbg and f == "cfg.ndebug") else SPEC[kind](n, d)          # the property's convention, whatever the return type
            if ret == "dbl":               # a double cannot hold every r: r converted towards zero (r itself whenever it is a double)
                exp = [fix53(exp[0])]
            got = norm(iout[i])
            exps = [str(x) for x in exp]
            site, klass = site_of(f, n, d, got)
            if dbg:
                st["ndbg"] += 1
                if got != exps and not (f in NARROW and not iout[i].startswith("ASSERT-FAILED")):     # value deviations are the NDEBUG stream's business
                    chk.fail_input(site + " [asserts on]", klass, {"form": f, "n": str(n), "d": str(d), "build": "-UNDEBUG -DDEBUG"}, exps, iout[i],
                                   "an assert of the library fails in the debug configuration" if iout[i].startswith("ASSERT-FAILED")
                                   else "the debug configuration differs from the documented convention (%s)" % kind)
                continue
            st["noracle"] += 1
            st["dist_form"][f] = st["dist_form"].get(f, 0) + 1
            st["dist_class"][cl] = st["dist_class"].get(cl, 0) + 1
            sg = "n%s,d%s" % ("<0" if n < 0 else ("=0" if n == 0 else ">0"), "<0" if d < 0 else ">0")
            st["dist_sign"][sg] = st["dist_sign"].get(sg, 0) + 1
            chk.count((f, n, d), nontrivial=(n != 0 and abs(d) > 1 and n % d != 0) or (kind in ("exact",) and abs(d) != 1 and n != 0))
            if (c0 + i) % 1499 == 0 or (cl == "directed" and i % 7 == 0):
                chk.sample({"form": f, "n": str(n), "d": str(d), "class": cl, "impl": iout[i], "spec": exps}, limit=16)
            if f in NARROW and narrowed(f, exp[0])[1] is not None:
                st["nnarrow"] += 1
            deviates = got != exps
            if deviates:
                chk.fail_input(site, klass, {"form": f, "n": str(n), "d": str(d)}, exps, iout[i],
                               "implementation differs from the documented convention (%s)" % kind)
            if mout is not None:
                st["ncorr"] += 1
                mg = norm(mout[i])
                if mg != got:
                    if not deviates:           # a failing input is reported once, not again as a correspondence break
                        chk.broke("correspondence model/implementation differs on %s n=%d d=%d: model=%s impl=%s" % (f, n, d, mout[i], iout[i]))
                elif not deviates and mg != exps:
                    chk.broke("extracted model differs from the specification oracle on %s n=%d d=%d: model=%s spec=%s" % (f, n, d, mout[i], exps))


def main(tier, replay=None):
    chk = vf.Check(PID, tier, "proof")
    rng = vf.Rng(chk.seed)
    chk.cov["trusted_base"] = [
        "Coq 8.16.1 kernel (coqc full .vo build); no axioms (Print Assumptions: closed under the global context)",
        "GmpSpec section of coq/C02/Model.v: Z-level meaning of the mpz_* division primitives (GMP manual); run against the real primitives on every check (forms gmp.*)",
        "CInt layer of Model.v: LP64 x86-64, two's-complement wrap for std::abs(INT64_MIN) and -INT64_MIN (what g++ emits)",
        "the hand-written correspondence between each C++ overload body and its Gallina definition (validated by the correspondence run, not proved)",
        "Integer construction from a word, unary minus, negin, comparisons with a word, addin/subin by 1, += / -= taken with their Z meaning (subject of C01)",
        "extraction: ExtrOcamlBasic and ExtrOcamlNativeString (the form names of the overload table become OCaml strings); Z kept as the extracted inductive; OCaml 4.13.1; zarith only for text I/O (harness/zio.ml)",
        "harness/c02_divmod.C, checks/C02.py (generators, python oracle)", "g++ / GMP of the sandbox for the implementation side",
    ]
    chk.assumptions = ["model hand-written after the code, one definition per overload body; tie = correspondence on generated cases",
                       "d != 0 everywhere (division by zero is outside the documented contract)",
                       "EVERY `%` overload is judged by the header's convention (r = a % b: |r| < |b|, a r >= 0), whatever its return type. int64_t %(uint64_t) deviates for the value class 'remainder does not fit the return type' (divisor > 2^63, |r| >= 2^63): known finding, no repair without changing the return type; the key masks only the wrapped value the code is known to return, anything else about that overload is a violation. %(uint32_t), %(uint16_t) were repaired (e502f6c). double %(double) (2c6554a): expected = r converted to double towards zero (r itself whenever a double holds it)",
                       "template operator%(XXX) at unsigned char returns |r|: documented by the header ('Cast towards unsigned consider only the absolute value', gmp++_int.h Cast operators)",
                       "asserts-on stream: harness/c02_divmod.C compiled with -UNDEBUG -DDEBUG -DC02_ASSERTS re-compiles gmp++_int_div.C / gmp++_int_mod.C with their asserts; a failing assert is a failing input of that configuration"]
    # 1. proofs
    res = vf.coq_check_props(AREA, timeout=3000)
    inconclusive = []
    if not res["ok"] and "[timeout after" in res["log"]:
        # a time-out of coqc under machine load says nothing about the theorems: recorded, not a violation
        inconclusive.append("Coq build of coq/C02 timed out (machine load): proof obligations not re-checked in this run")
        chk.cov["obligations"] += len(res["theorems"])
    else:
        chk.proof_result(res, AREA)
    # 2. executables
    drv, l1 = vf.ocaml_build(AREA) if os.path.exists(os.path.join(vf.coq_dir(AREA), "ocaml", "model.ml")) else (None, "extraction did not run")
    if drv is None:
        if "[timeout after" in (l1 or ""):
            inconclusive.append("building the extracted model driver timed out (machine load): no correspondence comparison in this run")
        else:
            chk.broke("extracted model driver does not build", l1)
    himpl, l2 = vf.build_harness("c02_divmod.C", timeout=3000)
    if himpl is None:
        if "[timeout after" in l2:
            inconclusive.append("compiling the implementation harness timed out (machine load): no case was run")
            chk.notes += inconclusive
            chk.cov["inconclusive_streams"] = inconclusive
        else:
            chk.broke("implementation harness does not compile against /repo", l2)
        return chk.finish()
    # 2b. ties that need no case: the overload table of the theorems vs the forms driven here; the source text vs the model
    if drv and not replay:
        table_tie(chk, drv)
    if not replay:
        source_tie(chk)
    # 3. cases
    cases = []
    if replay:
        rp = json.load(open(replay))
        for fi in rp.get("failing_inputs", []):
            c = fi["case"]
            cases.append((c["form"], int(c["n"]), int(c["d"]), "replay"))
        if not cases:
            chk.notes.append("replay file holds no concrete input (broken obligation): running the generated stream instead")
    if not cases:
        for f, n, d in DIRECTED:
            cases.append((f, n, d, "directed"))
        per = 160 if tier == "quick" else 20000
        N, D = (7, 3) if tier == "quick" else (130, 20)
        for f in sorted(F):
            kind, nt, dt, ret = F[f]
            if f.startswith("cfg."):
                cases.append((f, 1, 1, "configuration constant"))
                continue
            if f.startswith("cast."):
                lo, hi = RANGES[nt] if nt != "Z" else (-2**200, 2**200)
                vs = set(edges(nt)) | {v for L in LIMS for v in (L, -L, L - 1, 1 - L) if lo <= v <= hi}
                vs |= {v for v in (2**53 + 1, 2**53 + 3, 2**54 + 2, 2**54 + 6, -(2**53 + 1), 2**62 + 2**9, 2**62 + 3 * 2**9, 2**63 - 513, 2**100 + 1, -(2**130 - 1), 2**64 + 2**11 - 1,
                                   2**63 - 511, 16 * (2**64 - 2**11) + 15, 31, 16, 15, 0) if lo <= v <= hi}      # rounding ties of (double)int64_t
                for v in sorted(vs):
                    v = fix_type(v, nt)
                    if clampfit(v, nt):
                        cases.append((f, v, 1, "conversion: limits (exhaustive)"))
                for i in range(150 if tier == "quick" else 10000):
                    cases.append((f, rand_val(rng, nt), 1, "conversion: random"))
                continue
            # the word limits (2^7 .. 2^64+1, +-1 around them) of divisor and remainder: the same list in every run
            if True:
                for n, d in limit_grid(kind, nt, dt):
                    if d != 0 and clampfit(n, nt) and clampfit(d, dt) and (kind != "exact" or n % d == 0):
                        cases.append((f, n, d, "limit grid (exhaustive)"))
            # the limits of the divisor's (dividend's) word type against dividends (divisors) around its multiples, swept completely
            if dt != "Z" or nt != "Z":
                t = dt if dt != "Z" else nt
                lo, hi = RANGES[t]
                ws = sorted({w for w in (lo, lo + 1, hi, hi - 1, 1, -1, 2**63, 2**31, 2**32 - 1, -2**31, 2**15) if w != 0 and lo <= w <= hi})
                for w in ws:
                    a = abs(w)
                    for o in (0, a - 1, a, a + 1, 2 * a - 1, 2 * a, 3 * a + a // 2, 10**30, 10**30 - (10**30 % a), 2**64 * a + 1):
                        for sg in (1, -1):
                            n, d = (sg * o, w) if dt != "Z" else (w, sg * o)
                            if d != 0 and clampfit(n, nt) and clampfit(d, dt) and (kind != "exact" or n % d == 0):
                                cases.append((f, n, d, "word-limit grid (exhaustive)"))
            # thorough: the 8- and 16-bit divisor types swept completely
            if tier != "quick" and dt in ("i8", "u8", "i16", "u16"):
                lo, hi = RANGES[dt]
                ns = range(-300, 301) if dt in ("i8", "u8") else (40000, -40000, 65535, -65536, 10**30 + 7, -(10**30 + 7))
                for d in range(lo, hi + 1):
                    if d != 0:
                        for n in ns:
                            cases.append((f, n, d, "complete 8/16-bit divisor type (exhaustive)"))
            # multi-limb divisors against dividends around 0, |d| and 2|d| (the "already reduced" / n = 0 / n = +-d shortcuts), swept completely
            if dt == "Z":
                for a in (2**64 + 1, 2**64, 2**127 - 1, 10**30, 2**63, 3):
                    for o in (0, 1, 2, a // 2, a - 1, a, a + 1, 2 * a - 1, 2 * a + 1, 7 * a, 2**64 * a - 1):
                        for sn in (1, -1):
                            for sd in (1, -1):
                                n, d = sn * o, sd * a
                                if clampfit(n, nt) and (kind != "exact" or n % d == 0):
                                    cases.append((f, n, d, "multi-limb divisor grid (exhaustive)"))
            # a small box swept completely for every form (independent of the seed): n in [-N, N], d in [-D, D] \ {0}
            if not f.startswith("gmp.") or tier != "quick":
                for n in range(-N, N + 1):
                    for d in range(-D, D + 1):
                        if d != 0 and clampfit(n, nt) and clampfit(d, dt) and (kind != "exact" or n % d == 0):
                            cases.append((f, n, d, "small box (exhaustive)"))
            cnt = per if not f.startswith("gmp.") else max(120, per // 4)
            if tier == "quick" and f.startswith("gmp."):
                cnt = 100
            for i in range(cnt):
                n, d, cl = gen_pair(rng, kind, nt, dt, i)
                cases.append((f, n, d, cl))
    for f, n, d, cl in cases:
        kind, nt, dt, ret = F[f]
        assert (d != 0 or kind == "isdiv") and clampfit(n, nt) and clampfit(d, dt), (f, n, d)
        assert not f.startswith("seq.divexact") or n % d == 0
    seen_case, all_cases = set(), []          # one line per (form, n, d): the grids overlap
    for c in cases:
        if c[:3] not in seen_case:
            seen_case.add(c[:3])
            all_cases.append(c)
    st = {"ncorr": 0, "noracle": 0, "nnarrow": 0, "ndbg": 0, "dist_form": {}, "dist_class": {}, "dist_sign": {}}
    run_stream(chk, st, himpl, drv, all_cases, "NDEBUG build", inconclusive)
    # 5. the same translation units compiled with givaro's --enable-debug flags (-UNDEBUG -DDEBUG): every assert of gmp++_int_div.C /
    #    gmp++_int_mod.C is evaluated on the seed-independent cases; a failing assert is a failing input of that configuration
    if not replay:
        hdbg, l3 = vf.build_harness("c02_divmod.C", extra_flags=("-UNDEBUG", "-DDEBUG", "-DC02_ASSERTS"), name="c02_divmod_dbg", timeout=3000)
        if hdbg is None:
            if "[timeout after" in l3:
                inconclusive.append("compiling the asserts-on harness timed out (machine load): the asserts-on stream was not run")
            else:
                chk.broke("asserts-on harness (-UNDEBUG -DDEBUG) does not compile against /repo", l3)
        else:
            dcases = [(f, n, d, cl) for f, n, d, cl in all_cases
                      if not f.startswith(("gmp.", "cast.")) and (cl == "directed" or "exhaustive" in cl or cl == "configuration constant")]
            dcases.append(("cfg.ndebug", 1, 1, "configuration constant"))
            run_stream(chk, st, hdbg, None, dcases, "asserts-on build", inconclusive, dbg=True)
    ncorr = st["ncorr"]
    dist_form, dist_class, dist_sign = st["dist_form"], st["dist_class"], st["dist_sign"]
    # 6. floors: what must actually have been compared for this run to count; tooling problems that push a stream below its floor
    #    are reported prominently and are NOT a pass of that stream
    nexp = len([c for c in all_cases if c[0] not in HANG["forms_stopped"]])       # a form stopped after a confirmed hang / repeated crash is a finding, not a tooling gap
    chk.cov["hang_handling"] = {k: HANG[k] for k in ("first_stage_cpu_s", "confirm_cpu_s", "max_confirmations_per_run", "max_overruns_per_run", "max_crashes_per_form")}
    chk.cov["hang_handling"].update({"confirmed_not_returning": HANG["confirmed"], "cpu_budget_overruns": HANG["overruns"], "forms_not_driven_further": HANG["forms_stopped"]})
    floors = {"oracle_comparisons": (st["noracle"], int(0.98 * nexp)), "correspondence_comparisons": (st["ncorr"], int(0.95 * nexp)),
              "asserts_on_comparisons": (st["ndbg"], 0 if replay else 1000), "theorems_rechecked": (chk.cov["discharged"], chk.cov["obligations"])}
    if replay:
        floors = {"oracle_comparisons": (st["noracle"], nexp)}
    missed = {k: {"done": v[0], "floor": v[1]} for k, v in floors.items() if v[0] < v[1]}
    chk.cov["floors"] = {k: {"done": v[0], "floor": v[1]} for k, v in floors.items()}
    chk.cov["inconclusive"] = bool(inconclusive) or bool(missed)
    if missed:
        chk.cov["floor_missed"] = missed
        chk.notes.append("FLOOR MISSED (tooling problem, see inconclusive_streams): %s - this run does NOT count as a pass of those streams" % json.dumps(missed))
        print("INCONCLUSIVE property=C02 floor missed: %s" % json.dumps(missed))
    if len(chk.broken) > 20:
        chk.broken = chk.broken[:20] + [{"what": "... %d more" % (len(chk.broken) - 20), "detail": ""}]
    chk.cov["rule"] = ("every call form x { the box n in [-N,N], d in [-D,D]\\{0} swept completely (quick N=7, D=3; thorough N=130, D=20; thorough also every divisor of the 8/16-bit types) } + (n, d) drawn per class: n = k d, n in {d,-d,0}, |d| = 1, multi-limb multiples, |d| > |n|, "
                       "k d +- e, k d +- (|d|-1), k d +- |d|/2, word limits of the operand types, random structured limbs; both signs; "
                       "non-trivial = n != 0, |d| != 1 and d does not divide n (for divexact: |d| != 1, n != 0); distinct = (form, n, d)")
    chk.cov["traces_validated_against_impl"] = ncorr
    chk.cov["call_forms"] = len(F)
    chk.cov["call_forms_of_givaro"] = len(TABLE_FORMS)
    chk.cov["call_form_list"] = {f: "%s n:%s d:%s" % (conv_name(f), F[f][1], F[f][2]) for f in TABLE_FORMS}
    chk.cov["destinations"] = "every destination-bearing form is executed from 4 initial destination values (21845, -7, 123456789012345678901234567890123, -(2^128+1); word destinations 0x5555, -7, INT64_MAX, INT64_MIN+1) and must return the same result"
    if inconclusive:
        chk.notes += inconclusive
        chk.cov["inconclusive_streams"] = inconclusive
    chk.cov["narrow_return_cases_where_the_remainder_does_not_fit"] = st["nnarrow"]
    chk.cov["distribution_by_form"] = dist_form
    chk.cov["distribution_by_class"] = dist_class
    chk.cov["distribution_by_sign"] = dist_sign
    return chk.finish()
