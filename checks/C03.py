# C03 — modular rings are exact for every modulus up to the advertised maximum.   (DESIGN 5/C03, frag/C03.design.md)
# proof:  coq/C03: Model.v (integral rings with every C conversion/wrap explicit, extended Euclid, mul_precomp),
#         ModelF.v (float layer with explicit rounding; floating, balanced, extended, RecInt, Integer rings);
#         theorems for all moduli up to maxCardinality (Properties.v).  The advertised bounds are printed by the
#         implementation on every run and written to coq/C03/Params.v, so the theorems are always about the
#         maxCardinality() the code defines now.
# tie:    correspondence: extracted models vs the rings of /repo's current headers (every call form)
# search: python big-integer specification oracle on the same cases (all ring types, incl. the unmodelled ones)
import json, math, os, re, sys
import vf

AREA = "C03"
ITY = {"i8": (8, 1), "u8": (8, 0), "i16": (16, 1), "u16": (16, 0), "i32": (32, 1), "u32": (32, 0),
       "i64": (64, 1), "u64": (64, 0), "i128": (128, 1), "u128": (128, 0)}
INT_RINGS = [s + "_" + c for s, cs in [("i8", ["i8", "u8", "i16", "u16"]), ("u8", ["i8", "u8", "i16", "u16"]),
                                       ("i16", ["i16", "u16", "i32", "u32"]), ("u16", ["i16", "u16", "i32", "u32"]),
                                       ("i32", ["i32", "u32", "i64", "u64"]), ("u32", ["i32", "u32", "i64", "u64"]),
                                       ("i64", ["i64", "u64", "i128", "u128"]), ("u64", ["i64", "u64", "i128", "u128"])]
             for c in cs]
FLT_RINGS = ["f_f", "f_d", "d_d"]
BAL_RINGS = ["bi32", "bi64", "bf", "bd"]
EXT_RINGS = ["ef", "ed"]
BIG_RINGS = ["zz", "ru6_6", "ru6_7", "ru7_7", "ru7_8", "ru8_8", "ru8_9", "ri7_7"]
LOG_RINGS = ["log16"]          # prime moduli only (table of powers of a generator)
ALL_RINGS = INT_RINGS + FLT_RINGS + BAL_RINGS + EXT_RINGS + BIG_RINGS + LOG_RINGS

OPS2 = ["add", "addin", "sub", "subin", "mul", "mulin"]
OPS3 = ["axpy", "axpyin", "axmy", "axmyin", "maxpy", "maxpyin"]
OPS1 = ["neg", "negin"]
UNIT1 = ["inv", "invin"]
UNIT2 = ["div", "divin"]


KNOWN_BALNEG_SITE = "ModularBalanced<T>::neg"
KNOWN_BALNEG_KLASS = "even modulus, result -(p/2)"
BAL_NEG_OPS = ("neg", "negin", "maxpy", "maxpyin")


def is_balanced(ring):
    return ring in BAL_RINGS


def canon(ring, p, x):
    """canonical representative of x mod p in the ring's element range"""
    r = x % p
    if is_balanced(ring) and r > p // 2:
        r -= p
    return r


def elem_range(ring, p):
    if is_balanced(ring):
        h = p // 2
        return h - p + 1, h
    return 0, p - 1


def oracle(ring, p, op, a):
    """specification: exact integer arithmetic mod p, canonical representative.  None = no expectation."""
    if op in ("add", "addin"):
        return canon(ring, p, a[0] + a[1])
    if op in ("sub", "subin"):
        return canon(ring, p, a[0] - a[1])
    if op in ("mul", "mulin", "mulpp", "mulpb", "mulpb2"):
        return canon(ring, p, a[0] * a[1])
    if op in ("neg", "negin"):
        return canon(ring, p, -a[0])
    if op in ("inv", "invin"):
        return canon(ring, p, pow(a[0] % p, -1, p)) if math.gcd(a[0], p) == 1 else None
    if op in ("div", "divin"):
        return canon(ring, p, a[0] * pow(a[1] % p, -1, p)) if math.gcd(a[1], p) == 1 else None
    if op in ("axpy", "axpyin"):
        return canon(ring, p, a[0] * a[1] + a[2])
    if op in ("axmy", "axmyin"):
        return canon(ring, p, a[0] * a[1] - a[2])
    if op in ("maxpy", "maxpyin"):
        return canon(ring, p, a[2] - a[0] * a[1])
    if op in ("reduce1", "reduce2"):
        return canon(ring, p, a[0])
    if op == "isUnit":
        return 1 if math.gcd(a[0], p) == 1 else 0
    raise KeyError(op)


def storage_range(ring):
    """range of the Element type for the non-canonical operand of reduce (None: unbounded / use multiples of p)"""
    if ring in INT_RINGS:
        b, s = ITY[ring.split("_")[0]]
        return (-(1 << (b - 1)), (1 << (b - 1)) - 1) if s else (0, (1 << b) - 1)
    return None


def prevprime(n):
    def isp(m):
        if m < 2:
            return False
        if m % 2 == 0:
            return m == 2
        # deterministic Miller-Rabin for m < 3.3e24
        d, s = m - 1, 0
        while d % 2 == 0:
            d //= 2; s += 1
        for a in (2, 3, 5, 7, 11, 13, 17, 19, 23, 29, 31, 37, 41):
            if a % m == 0:
                continue
            x = pow(a, d, m)
            if x in (1, m - 1):
                continue
            for _ in range(s - 1):
                x = x * x % m
                if x == m - 1:
                    break
            else:
                return False
        return True
    while n >= 2 and not isp(n):
        n -= 1
    return n


def moduli(rng, lo, hi, nrand, cap_bits=None):
    """moduli aimed at the boundaries: {min.., max, max-1, prevprime(max), 2^k, 2^k+-1, random}"""
    ms = [lo, lo + 1, lo + 2, hi, hi - 1, hi - 2]
    if hi < (1 << 200):
        ms.append(prevprime(hi))
    k = 1
    while (1 << k) - 1 <= hi:
        if rng.chance(1, 8) or (1 << k) * 4 > hi or k < 4:
            ms += [(1 << k) - 1, 1 << k, (1 << k) + 1]
        k += 1
    r = math.isqrt(hi)
    ms += [r, r + 1, r - 1]
    for _ in range(nrand):
        ms.append(rng.range(lo, hi))
        ms.append(rng.range(lo, min(hi, 1 << rng.range(2, max(2, hi.bit_length())))))
    out = []
    for m in ms:
        if lo <= m <= hi and m not in out:
            out.append(m)
    return out


def operands(rng, ring, p, n):
    lo, hi = elem_range(ring, p)
    edge = [0, 1, -1 if lo < 0 else hi, hi, lo, hi - 1, lo + 1, p // 2, p // 2 + 1, p // 2 - 1, (p - 1) // 2, math.isqrt(p), math.isqrt(p) + 1]
    edge = [e for e in edge if lo <= e <= hi]
    out = []
    for _ in range(n):
        k = rng.below(4)
        if k <= 1:
            out.append(rng.choice(edge))
        else:
            out.append(rng.range(lo, hi))
    return out


def near_multiple_pairs(rng, ring, p, n):
    """pairs (a, b) of canonical elements, a a large unit, with a*b = s (mod p) for a small |s| (incl. 0 < |s| <= 3)"""
    out = []
    if p < 5:
        return out
    for i in range(n):
        for _ in range(50):
            a = rng.range(p // 2, p - 1)
            if math.gcd(a, p) == 1:
                break
        else:
            continue
        s0 = rng.choice([1, 2, 3, rng.range(1, max(1, p // 8)), rng.range(1, max(1, p // 1000 + 1))])
        sg = 1 if rng.chance(1, 3) else -1          # mostly just BELOW a multiple (over-estimated quotient)
        b = (sg * s0 * pow(a, -1, p)) % p
        out.append((canon(ring, p, a), canon(ring, p, b), sg * s0))
    return out


def unit_operand(rng, ring, p):
    lo, hi = elem_range(ring, p)
    for _ in range(200):
        a = rng.choice([1, hi, lo if lo < 0 else hi - 1, p // 2, rng.range(lo, hi), rng.range(lo, hi)])
        if lo <= a <= hi and math.gcd(a, p) == 1:
            return a
    return 1


FM_PREC = {"f_f": (24, 24), "f_d": (24, 53), "d_d": (53, 53)}
BF_PREC = {"bf": 24, "bd": 53}
BI_BITS = {"bi32": 32, "bi64": 64}
EX_PREC = {"ef": 24, "ed": 53}
NO_MODEL_OPS = {"ru": ("inv", "invin", "div", "divin"),       # RecInt::inv_mod and mpz_invert belong to C06/C01
                "zz": ("inv", "invin", "div", "divin", "isUnit")}


def model_line(ring, p, op, a):
    """the line for the extracted-model driver, or None when the call form is not modelled"""
    args = " ".join(str(x) for x in a)
    if op in ("mulpb2", "gcdext") and ring not in INT_RINGS:
        return None
    if ring in INT_RINGS:
        s, c = ring.split("_")
        if op == "mulpb2":
            return None
        return "int %d %d %d %d %s %s" % (ITY[s][0], ITY[s][1], ITY[c][0], p, op, args)
    if ring in FM_PREC:
        return "fm %d %d %d %s %s" % (FM_PREC[ring][0], FM_PREC[ring][1], p, op, args)
    if ring in BF_PREC:
        return "bf %d %d %s %s" % (BF_PREC[ring], p, op, args)
    if ring in BI_BITS:
        return "bi %d %d %s %s" % (BI_BITS[ring], p, op, args)
    if ring in EX_PREC:
        return "ex %d %d %s %s" % (EX_PREC[ring], p, op, args)
    if ring.startswith("ru"):
        if op in NO_MODEL_OPS["ru"]:
            return None
        k, k2 = int(ring[2]), int(ring.split("_")[1])
        return "ru %d %d %d %s %s" % (1 << k, 1 if k2 > k else 0, p, op, args)
    if ring == "zz":
        if op in NO_MODEL_OPS["zz"]:
            return None
        return "zz %d %s %s" % (p, op, args)
    return None


def precomp_ok(ring, p, op):
    """the asserted precondition of precomp_p / precomp_b (assert is compiled out under NDEBUG)"""
    cb = ITY[ring.split("_")[1]][0]
    lim = cb // 2 - 2 if op in ("mulpp", "mulpb2") else cb // 2 - 1
    return p.bit_length() <= lim


OBTAIN_MODES = {"copy": "copy construction from a ring that is then destroyed",
                "asg": "assignment over a ring of ANOTHER modulus",
                "asgd": "assignment over a default-constructed ring"}


def reduce_operand(ring, p, x):
    """a non-canonical value congruent to x that the element type represents exactly (x itself if there is none)"""
    sr = storage_range(ring)
    if sr is None:
        if ring in ("f_f", "f_d", "bf", "ef"):
            sr = (-(1 << 24), 1 << 24)
        elif ring in ("d_d", "bd", "ed"):
            sr = (-(1 << 53), 1 << 53)
        elif ring == "bi32":
            sr = (-(1 << 31) + 1, (1 << 31) - 1)
        elif ring == "bi64":
            sr = (-(1 << 63) + 1, (1 << 63) - 1)
        elif ring.startswith("ru"):
            sr = (0, (1 << (1 << int(ring[2]))) - 1)
        elif ring == "ri7_7":
            sr = (0, (1 << 127) - 1)
        elif ring in LOG_RINGS:
            sr = (-(1 << 31) + 1, (1 << 31) - 1)
        else:
            sr = (0, 1 << 400)
    for v in (x + 3 * p, x + p, x - p):
        if sr[0] <= v <= sr[1]:
            return v
    return x


def gen_obtained(rng, ring, p, cases, n_rand):
    """the full operation set on boundary operands for a ring object obtained by copy / assignment (every cached field of the
    ring -- _pc, _halfp, _mhalfp, _dinvp, _invp, _negp, _lp, mOne, the Log16 tables -- must have been carried over)"""
    lo, hi = elem_range(ring, p)
    for mode in OBTAIN_MODES:
        rm = ring + "@" + mode
        trip = [[hi, hi, hi], [hi, hi, lo], [lo, hi, 1 if hi >= 1 else 0], [1 if hi >= 1 else 0, hi, hi]] + [operands(rng, ring, p, 3) for _ in range(n_rand)]
        for t in trip:
            for op in OPS3:
                cases.append((rm, p, op, list(t)))
            for op in OPS2:
                cases.append((rm, p, op, list(t[:2])))
            for op in OPS1:
                cases.append((rm, p, op, [t[0]]))
            cases.append((rm, p, "isUnit", [t[0]]))
            ro = reduce_operand(ring, p, t[0])
            cases.append((rm, p, "reduce1", [ro]))
            cases.append((rm, p, "reduce2", [ro]))
        for _ in range(2):
            u = unit_operand(rng, ring, p)
            for op in UNIT1:
                cases.append((rm, p, op, [u]))
            for op in UNIT2:
                cases.append((rm, p, op, [operands(rng, ring, p, 1)[0], u]))
        if ring in INT_RINGS:
            for op in PRECOMP_OPS:
                if precomp_ok(ring, p, op):
                    cases.append((rm, p, op, [hi, hi]))
                    cases.append((rm, p, op, [hi, max(0, hi - 1)]))


PRECOMP_OPS = ("mulpp", "mulpb", "mulpb2")


def precomp_grid(rng, ring, p, op, cases, full):
    """operands near p-1 (the Barrett quotient estimate is worst for large products with a small residue)"""
    near = [x for x in range(p - 1, p - 7, -1) if x >= 0]
    if full:
        pairs = [(x, y) for x in near for y in near]
    else:
        pairs = [(x, x) for x in near] + [(near[0], y) for y in near[1:]] + [(near[-1], near[1 % len(near)])]
    pairs += [(p // 2, p - 1), (p - 1, p // 2 + 1), (rng.range(0, p - 1), rng.range(0, p - 1)), (rng.range(p // 2, p - 1), p - 1)]
    for x, y in pairs:
        cases.append((ring, p, op, [x, y]))


def gen_precomp_directed(rng, ring, lo, hi, quick, cases):
    """mul_precomp_p / precomp_b+mul_precomp_b / precomp_b(invp)+mul_precomp_b at moduli 2^(k-1)+small and 2^k-small for every
    bit size k up to the documented limit of the (Element, Compute_t) pair (quick: the top bit sizes, where the margin of the
    quotient estimate is smallest, plus two lower ones), operands within 6 of p-1."""
    cb = ITY[ring.split("_")[1]][0]
    for op in PRECOMP_OPS:
        lim = cb // 2 - 2 if op in ("mulpp", "mulpb2") else cb // 2 - 1
        kmax = min(lim, hi.bit_length())
        if kmax < 3:
            continue
        ks = list(range(3, kmax + 1))
        if quick and len(ks) > 4:
            ks = ks[-3:] + [rng.choice(ks[:-3])]
        for k in ks:
            base = 1 << (k - 1)
            ds = ([1, 2, 3, 5] if quick else [1, 2, 3, 4, 5, 7, 9]) + [rng.range(1, max(1, base // 8)) for _ in range(4 if quick else 16)] \
                + [rng.range(1, max(1, base // 64)) for _ in range(2 if quick else 8)]
            ms = {base + d for d in ds} | {2 * base - d for d in (1, 2, 3, rng.range(1, max(1, base // 4)))}
            for m in sorted(ms):
                if lo <= m <= hi and m >= 3 and m.bit_length() <= lim:
                    precomp_grid(rng, ring, m, op, cases, full=(op == "mulpp"))


def gen_precomp_16bit(rng, ring, lo, hi, quick, cases, n):
    """the 16-bit element space is small: n moduli (thorough: ALL) inside the precondition with the near-(p-1) grid"""
    lim = ITY[ring.split("_")[1]][0] // 2 - 2
    top = min(hi, (1 << lim) - 1)
    if top < 8:
        return
    if n is None:
        ms = range(max(lo, 3), top + 1)
    else:
        ms = set()
        while len(ms) < n:
            k = rng.range(max(4, lim - 3), lim)
            b = 1 << (k - 1)
            m = b + rng.range(1, b // 3) if rng.chance(3, 4) else rng.range(b, 2 * b - 1)
            if max(lo, 3) <= m <= top:
                ms.add(m)
        ms = sorted(ms)
    for m in ms:
        precomp_grid(rng, ring, m, "mulpp", cases, full=True)


def gen_cases(rng, ring, p, per, cases):
    for op in OPS2:
        for _ in range(per):
            cases.append((ring, p, op, operands(rng, ring, p, 2)))
    # the extreme corner explicitly: (p-1)*(p-1) (+/-) (p-1), (p-1)*(p-1) - 0
    lo, hi = elem_range(ring, p)
    for op in OPS3:
        for t in ([hi, hi, hi], [hi, hi, 0], [hi, hi, lo], [lo, lo, hi], [lo, hi, lo], [hi, lo, hi], [lo, lo, lo]):
            cases.append((ring, p, op, list(t)))
        for _ in range(per):
            cases.append((ring, p, op, operands(rng, ring, p, 3)))
    for op in ("mul", "mulin"):
        for t in ([hi, hi], [lo, lo], [lo, hi]):
            cases.append((ring, p, op, list(t)))
    # products just below / just above / exactly on a multiple of p with a large quotient: the boundary of every
    # quotient estimate (balanced int, extended FMA, Barrett) and of the single correction step
    near = near_multiple_pairs(rng, ring, p, 3 if per <= 2 else 8)
    for (x, y, sgn_s) in near:
        for op in ("mul", "mulin"):
            cases.append((ring, p, op, [x, y]))
        cases.append((ring, p, "axpy", [x, y, canon(ring, p, -sgn_s)]))       # a*b + c exactly a multiple of p
        cases.append((ring, p, "axmyin", [x, y, canon(ring, p, sgn_s)]))
        cases.append((ring, p, "maxpy", [x, y, canon(ring, p, sgn_s)]))
        if ring in INT_RINGS:
            for op in ("mulpp", "mulpb", "mulpb2"):
                if precomp_ok(ring, p, op):
                    cases.append((ring, p, op, [x % p, y % p]))
    for op in OPS1:
        for x in [0, 1, hi, lo] + operands(rng, ring, p, 2):
            if lo <= x <= hi:
                cases.append((ring, p, op, [x]))
    for op in UNIT1:
        for _ in range(max(2, per // 2)):
            cases.append((ring, p, op, [unit_operand(rng, ring, p)]))
    for op in UNIT2:
        for _ in range(max(2, per // 2)):
            cases.append((ring, p, op, [operands(rng, ring, p, 1)[0], unit_operand(rng, ring, p)]))
    for x in [0, 1, hi, lo, p // 2] + operands(rng, ring, p, per):
        if lo <= x <= hi:
            cases.append((ring, p, "isUnit", [x]))
    sr = storage_range(ring)
    for op in ("reduce1", "reduce2"):
        xs = [0, 1, p - 1, p, p + 1, 2 * p - 1, 2 * p, -1, -p, -p + 1, -p - 1]
        if sr:
            xs += [sr[0], sr[1], sr[0] + 1, sr[1] - 1, rng.range(sr[0], sr[1]), rng.range(sr[0], sr[1])]
            xs = [x for x in xs if sr[0] <= x <= sr[1]]
        elif ring in FLT_RINGS + BAL_RINGS + EXT_RINGS:
            # Element is a float/double (integer-valued operands only) or int32/int64
            lim = {"f_f": 1 << 24, "f_d": 1 << 24, "bf": 1 << 24, "ef": 1 << 24, "bi32": (1 << 31) - 1, "bi64": (1 << 63) - 1}.get(ring, 1 << 53)
            xs += [lim, -lim, lim - 1, rng.range(-lim, lim), rng.range(-lim, lim), rng.range(-4 * p, 4 * p)]
            xs = [x for x in xs if -lim <= x <= lim]
        else:
            xs = [x for x in xs if x >= 0] + [p * p - 1, rng.range(0, p * p)]
            if ring.startswith("ru"):
                K = int(ring[2])
                xs = [x for x in xs if x < (1 << (1 << K))] + [(1 << (1 << K)) - 1]
            if ring == "ri7_7":
                xs = [x for x in xs if x < (1 << 127)] + [(1 << 127) - 1]
            if ring in LOG_RINGS:     # no reduce(): init(int32_t) is the reduction
                xs = [x for x in xs if x < (1 << 31)] + [-1, -p, -p - 1, (1 << 31) - 1, -(1 << 31) + 1, rng.range(-(1 << 31) + 1, (1 << 31) - 1)]
        for x in xs:
            cases.append((ring, p, op, [x]))
    if ring in INT_RINGS:
        # precomp_p / precomp_b carry a documented precondition (assert on bitsize(p)); the Barrett forms are only
        # required to equal mul inside it, so the checked domain is exactly that precondition.
        for op in ("mulpp", "mulpb", "mulpb2"):
            if not precomp_ok(ring, p, op):
                continue
            for t in ([hi, hi], [hi, 1], [1, hi], [hi, p // 2], [p // 2 + 1, hi]):
                cases.append((ring, p, op, list(t)))
            for _ in range(per):
                cases.append((ring, p, op, operands(rng, ring, p, 2)))


def write_params(info):
    """coq/C03/Params.v: the advertised bounds exactly as the compiled implementation reports them"""
    lines = ["(* GENERATED by checks/C03.py from Ring::minCardinality()/maxCardinality() of /repo's current headers",
             "   (printed by harness/c03_modular.C).  Do not edit: rewritten on every run. *)",
             "From Coq Require Import ZArith List.", "Import ListNotations.", "Local Open Scope Z_scope."]
    for ring in ALL_RINGS:
        if ring in info and info[ring][1] > 0:
            lines.append("Definition min_%s : Z := %d." % (ring, info[ring][0]))
            lines.append("Definition max_%s : Z := %d." % (ring, info[ring][1]))
    # (bits of Storage_t, signed?, bits of Compute_t, minCardinality, maxCardinality) of every integral Modular<S,C>
    rows = []
    for ring in INT_RINGS:
        s, c = ring.split("_")
        rows.append("(%d, %s, %d, min_%s, max_%s)" % (ITY[s][0], "true" if ITY[s][1] else "false", ITY[c][0], ring, ring))
    lines.append("Definition advertised_int : list (Z * bool * Z * Z * Z) :=\n  [" + ";\n   ".join(rows) + "].")
    # (element bits w = 2^K, Compute_t = ruint<K+1>?, min, max) of every Modular<ruint<K>,ruint<K'>>
    rows = []
    for ring in BIG_RINGS:
        if ring.startswith("ru") and ring in info:
            k, k2 = int(ring[2]), int(ring.split("_")[1])
            rows.append("(%d, %s, min_%s, max_%s)" % (1 << k, "true" if k2 > k else "false", ring, ring))
    lines.append("Definition advertised_ru : list (Z * bool * Z * Z) :=\n  [" + ";\n   ".join(rows) + "].")
    txt = "\n".join(lines) + "\n"
    return vf.write_if_changed(os.path.join(vf.coq_dir(AREA), "Params.v"), txt)


def load_known_with_fragment():
    """known_findings.json + this property's fragment (frag/C03.findings.json) until the coordinator merges it"""
    base = _orig_load_known()
    try:
        frag = json.load(open(os.path.join(vf.ROOT, "frag", "C03.findings.json")))
    except (OSError, ValueError):
        frag = []
    have = {(k.get("property"), k.get("site"), k.get("klass")) for k in base}
    return base + [k for k in frag if (k.get("property"), k.get("site"), k.get("klass")) not in have]


_orig_load_known = vf.load_known
vf.load_known = load_known_with_fragment


def ring_part(ring):
    """which translation unit of harness/c03_modular.C (-DC03_PART=n) registers the ring"""
    r = ring.split("@")[0]
    if r in INT_RINGS:
        return 1 if ITY[r.split("_")[0]][0] <= 16 else 2
    if r in FLT_RINGS + BAL_RINGS + EXT_RINGS:
        return 3
    return 4


def build_harness_parts():
    """the four translation units, compiled concurrently (each is cached by the hash of /repo's sources and its flags)"""
    import threading
    res = {}
    lib, l = vf.build_repo_lib()          # once, before the threads (they share its cache directory)
    if lib is None:
        return None, "library build failed:\n" + l

    def work(k):
        res[k] = vf.build_harness("c03_modular.C", extra_flags=["-DC03_PART=%d" % k], name="c03_modular_p%d" % k)
    ths = [threading.Thread(target=work, args=(k,)) for k in (1, 2, 3, 4)]
    for t in ths:
        t.start()
    for t in ths:
        t.join()
    logs = "\n".join(res[k][1] for k in res if res[k][0] is None)
    if any(res[k][0] is None for k in res):
        return None, logs
    return {k: res[k][0] for k in res}, ""


def run_impl(parts, cases_lines, rings, timeout=1500):
    """route every line to the binary that registers its ring, run the four binaries concurrently, restore the order"""
    import threading
    idx = {1: [], 2: [], 3: [], 4: []}
    for i, r in enumerate(rings):
        idx[ring_part(r)].append(i)
    out = [None] * len(cases_lines)
    status = {}

    def work(k):
        if not idx[k]:
            status[k] = (0, "")
            return
        rc, o, e = vf.run_lines(parts[k], "".join(cases_lines[i] for i in idx[k]), timeout=timeout)
        status[k] = (rc if len(o) == len(idx[k]) else (rc or 99), e)
        if len(o) == len(idx[k]):
            for i, l in zip(idx[k], o):
                out[i] = l
    ths = [threading.Thread(target=work, args=(k,)) for k in idx]
    for t in ths:
        t.start()
    for t in ths:
        t.join()
    rc = max(status[k][0] for k in status)
    return rc, ([] if rc else out), "".join(status[k][1] for k in status)


def run_parallel(binary, lines, timeout=1500, nproc=12):
    """run a line-protocol driver on `lines`, split into contiguous chunks over nproc processes (order kept)"""
    import subprocess
    if len(lines) < 2000:
        return vf.run_lines(binary, "".join(l + "\n" for l in lines), timeout=timeout)
    n = (len(lines) + nproc - 1) // nproc
    procs = []
    for k in range(0, len(lines), n):
        pr = subprocess.Popen([binary], stdin=subprocess.PIPE, stdout=subprocess.PIPE, stderr=subprocess.PIPE, universal_newlines=True)
        procs.append((pr, "".join(l + "\n" for l in lines[k:k + n])))
    import threading
    res = [None] * len(procs)

    def work(i):
        pr, txt = procs[i]
        try:
            o, e = pr.communicate(txt, timeout=timeout)
            res[i] = (pr.returncode, o.splitlines(), e)
        except subprocess.TimeoutExpired:
            pr.kill()
            res[i] = (124, [], "[timeout]")
    ths = [threading.Thread(target=work, args=(i,)) for i in range(len(procs))]
    for t in ths:
        t.start()
    for t in ths:
        t.join()
    rc = max(r[0] for r in res)
    out = [l for r in res for l in r[1]]
    return rc, out, "".join(r[2] for r in res)


def main(tier, replay=None):
    chk = vf.Check("C03", tier, "proof")
    rng = vf.Rng(chk.seed)
    chk.cov["trusted_base"] = [
        "Coq 8.16.1 kernel + vm_compute (no native_compute); all theorems closed under the global context",
        "extraction: ExtrOcamlBasic only; Z/positive/nat kept as extracted inductives; OCaml 4.13.1; zarith only for text I/O",
        "Model.v's C integer semantics (LP64, int = 32 bit, integer promotion, two's-complement conversions, signed overflow as wrap) "
        "and ModelF.v's float layer (round to nearest even to 24/53 bits on integers/dyadics, exponent range not modelled, "
        "no FP contraction); validated by the correspondence run",
        "the floating-point quotient estimates of ModularBalanced<int32|int64> / ModularExtended and every operation of the "
        "balanced, extended, Integer, Log16 and rint rings are correspondence/oracle-tested, not proved (see level_claimed)",
        "harness/c03_modular.C, checks/C03.py (case generator, python big-integer oracle)",
        "g++ / x86-64 (FMA path of ModularExtended) for the implementation side",
    ]
    himpl, l2 = build_harness_parts()
    if himpl is None:
        chk.broke("implementation harness does not compile against /repo", l2)
        return chk.finish()
    # 0. the advertised bounds, from the implementation
    rc, out, err = run_impl(himpl, ["%s 0 info\n" % r for r in ALL_RINGS], ALL_RINGS)
    if rc != 0 or len(out) != len(ALL_RINGS):
        chk.broke("implementation harness failed on info", err)
        return chk.finish()
    info = {}
    for r, l in zip(ALL_RINGS, out):
        t = l.split()
        info[r] = (int(t[0]), int(t[1]))
    chk.cov["advertised_bounds"] = {r: list(v) for r, v in info.items()}
    write_params(info)
    # 1. proofs
    import time as _t
    _t0 = _t.time()
    res = vf.coq_check_props(AREA)
    chk.proof_result(res, AREA)
    chk.cov.setdefault("phase_seconds", {})["coq"] = round(_t.time() - _t0, 1); _t0 = _t.time()
    # 2. model driver
    drv, l1 = vf.ocaml_build(AREA) if os.path.exists(os.path.join(vf.coq_dir(AREA), "ocaml", "model.ml")) else (None, "extraction did not run")
    if drv is None:
        chk.broke("extracted model driver does not build", l1)
    # 3. cases
    quick = tier == "quick"
    cases = []
    if replay:
        rp = json.load(open(replay))
        for f in rp.get("failing_inputs", []):
            c = f["case"]
            cases.append((c["ring"], int(c["p"]), c["op"], [int(x) for x in c["args"]]))
    else:
        for ring in ALL_RINGS:
            lo, hi = info[ring]
            if hi <= 0:      # Modular<Integer>: no maximum
                hi = 1 << 200
            small = ring in INT_RINGS and ITY[ring.split("_")[0]][0] <= 16
            if not quick and small and hi <= 65535:
                ms = list(range(lo, hi + 1)) if hi <= 256 else moduli(rng, lo, hi, 300)
            else:
                ms = moduli(rng, lo, hi, 1 if quick else 120)
            if quick and hi > (1 << 70) and len(ms) > 16:
                # big-number rings: the extracted model computes on unary-binary positives; keep the boundary moduli + a sample
                keep = ms[:6] + ms[-1:] + [m for m in ms if m in (hi - 1, hi - 2)]
                rest = [m for m in ms if m not in keep]
                rng.shuffle(rest)
                ms = keep + rest[:8]
            per = 2 if quick else 8
            if not quick and ring in ("i16_u32", "u16_u32"):
                # EVERY modulus of the 16-bit double-width rings with the overflow corners (finite space, swept completely)
                for p in range(lo, hi + 1):
                    h1 = p - 1
                    for op, t in (("mul", [h1, h1]), ("axpy", [h1, h1, h1]), ("axpyin", [h1, h1, h1]), ("axmy", [h1, h1, 0]),
                                  ("axmyin", [h1, h1, 0]), ("maxpy", [h1, h1, 0]), ("maxpyin", [h1, h1, h1]), ("add", [h1, h1]),
                                  ("addin", [h1, p // 2 + 1]), ("sub", [0, h1]), ("neg", [1]), ("inv", [h1])):
                        cases.append((ring, p, op, list(t)))
            if ring in LOG_RINGS:
                ms = sorted({prevprime(m) for m in ms if m >= 2} | {2, 3, 5, 7, prevprime(hi)})
            for p in ms:
                gen_cases(rng, ring, p, per, cases)
            # every way of obtaining the ring object, on a few moduli of each ring (quick: 4, thorough: 16)
            sel = [ms[-1], ms[0]] + [rng.choice(ms) for _ in range(2 if quick else 14)]
            for p in ([m for m in ms if m == hi][:1] + sel):
                gen_obtained(rng, ring, p, cases, 1 if quick else 3)
        for ring in INT_RINGS:
            gen_precomp_directed(rng, ring, info[ring][0], info[ring][1], quick, cases)
        for ring, n in (("u16_u32", 160), ("i16_i32", 60), ("u16_i32", 40), ("i16_u32", 40)):
            gen_precomp_16bit(rng, ring, info[ring][0], info[ring][1], quick, cases, n if quick else (None if ring in ("u16_u32", "i16_i32") else 600))
        # gcdext<Element> on its own (shared by the word rings)
        for ring in ("i8_i8", "u8_u8", "i16_i16", "u16_u16", "i32_i32", "u32_u32", "i64_i64", "u64_u64"):
            b, s = ITY[ring.split("_")[0]]
            mx = (1 << (b - 1)) - 1 if s else (1 << b) - 1
            for _ in range(20 if quick else 400):
                bb = rng.choice([mx, mx - 1, rng.range(2, mx), rng.range(2, min(mx, 1000))])
                aa = rng.choice([0, 1, bb - 1, bb // 2, rng.range(0, bb - 1)])
                cases.append((ring, 2, "gcdext", [aa, bb]))
    chk.cov["phase_seconds"]["generate"] = round(_t.time() - _t0, 1); _t0 = _t.time()
    impl_in = ["%s %d %s %s\n" % (r, p, op, " ".join(str(x) for x in a)) for r, p, op, a in cases]
    rc, iout, ierr = run_impl(himpl, impl_in, [r for r, p, op, a in cases], timeout=1500)
    if rc != 0 or len(iout) != len(cases):
        chk.broke("implementation harness failed (rc=%s, %d/%d lines)" % (rc, len(iout), len(cases)), ierr[-2000:])
        return chk.finish()
    mlines = [model_line(r.split("@")[0], p, op, a) for r, p, op, a in cases]
    midx = [i for i, m in enumerate(mlines) if m is not None]
    mout = {}
    if drv and midx:
        rc, mo, merr = run_parallel(drv, [mlines[i] for i in midx], timeout=1500)
        if rc != 0 or len(mo) != len(midx):
            chk.broke("model driver failed (rc=%s, %d/%d lines)" % (rc, len(mo), len(midx)), merr[-2000:])
        else:
            mout = dict(zip(midx, mo))
    chk.cov["phase_seconds"]["run_impl_and_model"] = round(_t.time() - _t0, 1); _t0 = _t.time()
    # 4. three-way comparison
    nbroke = 0
    dist = {}
    for i, (ring, p, op, a) in enumerate(cases):
        got = iout[i].strip()
        case = {"ring": ring, "p": str(p), "op": op, "args": [str(x) for x in a]}
        dist_key = "%s/%s" % (ring, op)
        dist[dist_key] = dist.get(dist_key, 0) + 1
        chk.count((ring, p, op, tuple(a)), nontrivial=any(abs(x) > 1 for x in a))
        if i % 4999 == 0:
            chk.sample({"case": case, "impl": got})
        full_ring, ring = ring, ring.split("@")[0]        # "<ring>@<how the ring object was obtained>"
        if op == "gcdext":
            g = math.gcd(a[0], a[1])
            t = got.split()
            sb, ss = ITY[ring.split("_")[0]]
            ok = len(t) == 3 and int(t[0]) == g and 0 <= int(t[1]) < a[1] and (int(t[1]) * a[0] - g) % a[1] == 0
            if ok and ss and abs(int(t[1]) * a[0]) < (1 << (sb - 1)):     # v = (d - u*a)/b is computed in Element
                ok = int(t[1]) * a[0] + int(t[2]) * a[1] == g
            exp = "d=%d, 0<=u<b, u*a=d (mod b), v=(d-u*a)/b when u*a fits" % g
            if not ok:
                chk.fail_input("gcdext<%s>" % ring.split("_")[0], "bezout", case, exp, got, "gcdext does not return gcd and Bezout coefficients")
        else:
            e = oracle(ring, p, op, a)
            exp = None if e is None else str(e)
            if exp is not None and got != exp:
                if ring in BAL_RINGS and p % 2 == 0 and op in BAL_NEG_OPS and e == p // 2 and got == str(-(p // 2)):
                    chk.fail_input(KNOWN_BALNEG_SITE, KNOWN_BALNEG_KLASS, case, exp, got,
                                   "ModularBalanced negation of p/2 for even p leaves the canonical range [-(p/2)+1, p/2]")
                else:
                    chk.fail_input("%s::%s" % (full_ring, op), "p=%d" % p, case, exp, got,
                                   "implementation differs from exact arithmetic mod p"
                                   + (" (ring object obtained by %s)" % OBTAIN_MODES[full_ring.split("@")[1]] if "@" in full_ring else ""))
        if i in mout:
            mg = mout[i].strip()
            if mg != got and nbroke < 20 and (exp is None or got == exp or op == "gcdext"):   # impl != oracle is already a failing input
                nbroke += 1
                chk.broke("correspondence model/implementation differs on %s p=%d %s %s: model=%s impl=%s" % (ring, p, op, a, mg, got))
            if exp is not None and op != "gcdext" and got == exp and mg != exp and nbroke < 20:
                nbroke += 1
                chk.broke("extracted model differs from the specification oracle on %s p=%d %s %s: model=%s spec=%s" % (ring, p, op, a, mg, exp))
    if os.environ.get("C03_DEBUG"):
        import collections
        cc = collections.Counter((f["site"].split("::")[0], f["site"].split("::")[-1]) for f in chk.failing)
        for k, v in sorted(cc.items()):
            vf.log("FAIL", k, v)
        seen = set()
        for f in chk.failing:
            if f["site"] not in seen:
                seen.add(f["site"]); vf.log("  e.g.", f["site"], f["case"], "exp", f["expected"], "got", f["observed"])
    chk.cov["phase_seconds"]["compare"] = round(_t.time() - _t0, 1)
    chk.cov["rule"] = ("every ring type (50) x moduli {min..min+2, max-2..max, prevprime(max), 2^k, 2^k+-1, sqrt(max)+-1, random} "
                       "(Log16: primes) x every call form x operands {0,1,lo,hi,p/2,p/2+-1,sqrt p,random} incl. the corner triples "
                       "(hi,hi,hi),(hi,hi,0),(lo,lo,hi) and directed pairs with a*b = +-s (mod p), s small, large quotient "
                       "(boundary of every quotient estimate / correction step); reduce on storage-type extremes; mul_precomp only "
                       "inside its documented bitsize precondition; non-trivial = some |operand| > 1; distinct = (ring,p,op,operands)")
    chk.cov["traces_validated_against_impl"] = len(mout)
    chk.cov["rings"] = len(ALL_RINGS)
    byring = {}
    bymode = {}
    for ring, p, op, a in cases:
        byring[ring.split("@")[0]] = byring.get(ring.split("@")[0], 0) + 1
        m = ring.split("@")[1] if "@" in ring else "constructor"
        bymode[m] = bymode.get(m, 0) + 1
    chk.cov["distribution_by_way_of_obtaining_the_ring"] = bymode
    chk.cov["distribution_by_ring"] = byring
    byop = {}
    for ring, p, op, a in cases:
        byop[op] = byop.get(op, 0) + 1
    chk.cov["distribution_by_op"] = byop
    return chk.finish()
