# C03 — modular rings are exact for every modulus up to the advertised maximum.   (DESIGN 5/C03, frag/C03.design.md)
# proof:  coq/C03: Model.v (integral rings with every C conversion/wrap explicit, extended Euclid, mul_precomp),
#         ModelF.v (float layer with explicit rounding; floating, balanced, extended, RecInt, Integer rings);
#         theorems for all moduli up to maxCardinality (Properties.v).  The advertised bounds are printed by the
#         implementation on every run and written to coq/C03/Params.v, so the theorems are always about the
#         maxCardinality() the code defines now.
# tie:    correspondence: extracted models vs the rings of /repo's current headers (every call form)
# search: python big-integer specification oracle on the same cases (all ring types, incl. the unmodelled ones)
import json, math, os, re, sys
import vf

AREA = "C03"
PROP_FILES = ("Properties.v", "Properties3.v", "Properties4.v")
ITY = {"i8": (8, 1), "u8": (8, 0), "i16": (16, 1), "u16": (16, 0), "i32": (32, 1), "u32": (32, 0),
       "i64": (64, 1), "u64": (64, 0), "i128": (128, 1), "u128": (128, 0)}
INT_RINGS = [s + "_" + c for s, cs in [("i8", ["i8", "u8", "i16", "u16"]), ("u8", ["i8", "u8", "i16", "u16"]),
                                       ("i16", ["i16", "u16", "i32", "u32"]), ("u16", ["i16", "u16", "i32", "u32"]),
                                       ("i32", ["i32", "u32", "i64", "u64"]), ("u32", ["i32", "u32", "i64", "u64"]),
                                       ("i64", ["i64", "u64", "i128", "u128"]), ("u64", ["i64", "u64", "i128", "u128"])]
             for c in cs]
FLT_RINGS = ["f_f", "f_d", "d_d"]
BAL_RINGS = ["bi32", "bi64", "bf", "bd"]
EXT_RINGS = ["ef", "ed"]
BIG_RINGS = ["zz", "ru6_6", "ru6_7", "ru7_7", "ru7_8", "ru8_8", "ru8_9", "ri7_7", "ri6_6", "ri6_7", "ri7_8", "ri8_8"]
LOG_RINGS = ["log16"]          # prime moduli only (table of powers of a generator)
ALL_RINGS = INT_RINGS + FLT_RINGS + BAL_RINGS + EXT_RINGS + BIG_RINGS + LOG_RINGS

OPS2 = ["add", "addin", "sub", "subin", "mul", "mulin"]
OPS3 = ["axpy", "axpyin", "axmy", "axmyin", "maxpy", "maxpyin"]
OPS1 = ["neg", "negin"]
UNIT1 = ["inv", "invin"]
UNIT2 = ["div", "divin"]


BAL_NEG_OPS = ("neg", "negin", "maxpy", "maxpyin")


def is_balanced(ring):
    return ring in BAL_RINGS


def canon(ring, p, x):
    """canonical representative of x mod p in the ring's element range"""
    r = x % p
    if is_balanced(ring) and r > p // 2:
        r -= p
    return r


def elem_range(ring, p):
    if is_balanced(ring):
        h = p // 2
        return h - p + 1, h
    return 0, p - 1


def oracle(ring, p, op, a):
    """specification: exact integer arithmetic mod p, canonical representative.  None = no expectation."""
    op = op.split(":")[0]
    if op == "consts":
        return consts_expect(ring, p)
    if op in ("add", "addin"):
        return canon(ring, p, a[0] + a[1])
    if op in ("sub", "subin"):
        return canon(ring, p, a[0] - a[1])
    if op in ("mul", "mulin", "mulpp", "mulpb", "mulpb2"):
        return canon(ring, p, a[0] * a[1])
    if op in ("neg", "negin"):
        return canon(ring, p, -a[0])
    if op in ("inv", "invin"):
        return canon(ring, p, pow(a[0] % p, -1, p)) if math.gcd(a[0], p) == 1 else None
    if op in ("div", "divin"):
        return canon(ring, p, a[0] * pow(a[1] % p, -1, p)) if math.gcd(a[1], p) == 1 else None
    if op in ("axpy", "axpyin"):
        return canon(ring, p, a[0] * a[1] + a[2])
    if op in ("axmy", "axmyin"):
        return canon(ring, p, a[0] * a[1] - a[2])
    if op in ("maxpy", "maxpyin"):
        return canon(ring, p, a[2] - a[0] * a[1])
    if op in ("reduce1", "reduce2"):
        return canon(ring, p, a[0])
    if op == "isUnit":
        return 1 if math.gcd(a[0], p) == 1 else 0
    raise KeyError(op)


def storage_range(ring):
    """range of the Element type for the non-canonical operand of reduce (None: unbounded / use multiples of p)"""
    if ring in INT_RINGS:
        b, s = ITY[ring.split("_")[0]]
        return (-(1 << (b - 1)), (1 << (b - 1)) - 1) if s else (0, (1 << b) - 1)
    return None


def prevprime(n):
    def isp(m):
        if m < 2:
            return False
        if m % 2 == 0:
            return m == 2
        # deterministic Miller-Rabin for m < 3.3e24
        d, s = m - 1, 0
        while d % 2 == 0:
            d //= 2; s += 1
        for a in (2, 3, 5, 7, 11, 13, 17, 19, 23, 29, 31, 37, 41):
            if a % m == 0:
                continue
            x = pow(a, d, m)
            if x in (1, m - 1):
                continue
            for _ in range(s - 1):
                x = x * x % m
                if x == m - 1:
                    break
            else:
                return False
        return True
    while n >= 2 and not isp(n):
        n -= 1
    return n


def moduli(rng, lo, hi, nrand, cap_bits=None):
    """moduli aimed at the boundaries: {min.., max, max-1, prevprime(max), 2^k, 2^k+-1, random}"""
    ms = [lo, lo + 1, lo + 2, hi, hi - 1, hi - 2]
    if hi < (1 << 200):
        ms.append(prevprime(hi))
    k = 1
    while (1 << k) - 1 <= hi:
        if rng.chance(1, 8) or (1 << k) * 4 > hi or k < 4:
            ms += [(1 << k) - 1, 1 << k, (1 << k) + 1]
        k += 1
    r = math.isqrt(hi)
    ms += [r, r + 1, r - 1]
    for _ in range(nrand):
        ms.append(rng.range(lo, hi))
        ms.append(rng.range(lo, min(hi, 1 << rng.range(2, max(2, hi.bit_length())))))
    out = []
    for m in ms:
        if lo <= m <= hi and m not in out:
            out.append(m)
    return out


def operands(rng, ring, p, n):
    lo, hi = elem_range(ring, p)
    edge = [0, 1, -1 if lo < 0 else hi, hi, lo, hi - 1, lo + 1, p // 2, p // 2 + 1, p // 2 - 1, (p - 1) // 2, math.isqrt(p), math.isqrt(p) + 1]
    edge = [e for e in edge if lo <= e <= hi]
    out = []
    for _ in range(n):
        k = rng.below(4)
        if k <= 1:
            out.append(rng.choice(edge))
        else:
            out.append(rng.range(lo, hi))
    return out


def near_multiple_pairs(rng, ring, p, n):
    """pairs (a, b) of canonical elements, a a large unit, with a*b = s (mod p) for a small |s| (incl. 0 < |s| <= 3)"""
    out = []
    if p < 5:
        return out
    for i in range(n):
        for _ in range(50):
            a = rng.range(p // 2, p - 1)
            if math.gcd(a, p) == 1:
                break
        else:
            continue
        s0 = rng.choice([1, 2, 3, rng.range(1, max(1, p // 8)), rng.range(1, max(1, p // 1000 + 1))])
        sg = 1 if rng.chance(1, 3) else -1          # mostly just BELOW a multiple (over-estimated quotient)
        b = (sg * s0 * pow(a, -1, p)) % p
        out.append((canon(ring, p, a), canon(ring, p, b), sg * s0))
    return out


def unit_operand(rng, ring, p):
    lo, hi = elem_range(ring, p)
    for _ in range(200):
        a = rng.choice([1, hi, lo if lo < 0 else hi - 1, p // 2, rng.range(lo, hi), rng.range(lo, hi)])
        if lo <= a <= hi and math.gcd(a, p) == 1:
            return a
    return 1


FM_PREC = {"f_f": (24, 24), "f_d": (24, 53), "d_d": (53, 53)}
BF_PREC = {"bf": 24, "bd": 53}
BI_BITS = {"bi32": 32, "bi64": 64}
EX_PREC = {"ef": 24, "ed": 53}
NO_MODEL_OPS = {"ru": ("inv", "invin", "div", "divin"),       # RecInt::inv_mod and mpz_invert belong to C06/C01
                "zz": ("inv", "invin", "div", "divin", "isUnit")}


def model_line(ring, p, op, a, exbr=None):
    """the line for the extracted-model driver, or None when the call form is not modelled.
    exbr[ring] = (branch of ModularExtended::mul, of ::reduce) the configuration compiled (0 FMA, 1 Dekker, 2 fallback);
    ModularBalanced::neg is the repaired body of /repo (edb1d16: r = -a; if (r < _mhalfp) r += _p): model ops negn / maxpyn."""
    op = op.split(":")[0]                 # the alias pattern does not exist in the model (no object identity)
    args = " ".join(str(x) for x in a)
    if op in ("mulpb2", "gcdext") and ring not in INT_RINGS:
        return None
    if ring in INT_RINGS:
        s, c = ring.split("_")
        if op == "mulpb2":
            return None
        return "int %d %d %d %d %s %s" % (ITY[s][0], ITY[s][1], ITY[c][0], p, op, args)
    if ring in FM_PREC:
        return "fm %d %d %d %s %s" % (FM_PREC[ring][0], FM_PREC[ring][1], p, op, args)
    if ring in BF_PREC:
        return "bf %d %d %s %s" % (BF_PREC[ring], p, op, args)
    if ring in BI_BITS:
        return "bi %d %d %s %s" % (BI_BITS[ring], p, op, args)
    if ring in EX_PREC:
        if exbr is None:          # branches of this configuration could not be matched to the models (recorded as inconclusive)
            return None
        mb, rb = exbr.get(ring, (0, 0))
        return "xb %d %d %d %d %s %s" % (mb, rb, EX_PREC[ring], p, op, args)
    if ring.startswith("ru"):
        if op in NO_MODEL_OPS["ru"]:
            return None
        k, k2 = int(ring[2]), int(ring.split("_")[1])
        return "ru %d %d %d %s %s" % (1 << k, 1 if k2 > k else 0, p, op, args)
    if ring == "zz":
        if op in NO_MODEL_OPS["zz"]:
            return None
        return "zz %d %s %s" % (p, op, args)
    return None


def precomp_ok(ring, p, op):
    """the asserted precondition of precomp_p / precomp_b (assert is compiled out under NDEBUG)"""
    cb = ITY[ring.split("_")[1]][0]
    lim = cb // 2 - 2 if op in ("mulpp", "mulpb2") else cb // 2 - 1
    return p.bit_length() <= lim


OBTAIN_MODES = {"copy": "copy construction from a ring that is then destroyed",
                "asg": "assignment over a ring of ANOTHER modulus",
                "asgd": "assignment over a default-constructed ring",
                "self": "self-assignment F = F",
                "chain": "two assignments in a row (H -> G -> F, G and F built for other moduli; H and G destroyed before use)",
                "cpasg": "assignment from a copy-constructed ring over a ring of another modulus"}
# the three of the first round run the full operation set on several moduli; the later three on the maximum and the minimum
OBTAIN_MAIN = ("copy", "asg", "asgd")


def reduce_operand(ring, p, x):
    """a non-canonical value congruent to x that the element type represents exactly (x itself if there is none)"""
    sr = storage_range(ring)
    if sr is None:
        if ring in ("f_f", "f_d", "bf", "ef"):
            sr = (-(1 << 24), 1 << 24)
        elif ring in ("d_d", "bd", "ed"):
            sr = (-(1 << 53), 1 << 53)
        elif ring == "bi32":
            sr = (-(1 << 31) + 1, (1 << 31) - 1)
        elif ring == "bi64":
            sr = (-(1 << 63) + 1, (1 << 63) - 1)
        elif ring.startswith("ru"):
            sr = (0, (1 << (1 << int(ring[2]))) - 1)
        elif ring.startswith("ri"):
            sr = (-(1 << ((1 << int(ring[2])) - 1)) + 1, (1 << ((1 << int(ring[2])) - 1)) - 1)
        elif ring in LOG_RINGS:
            sr = (-(1 << 31) + 1, (1 << 31) - 1)
        else:
            sr = (0, 1 << 400)
    for v in (x + 3 * p, x + p, x - p):
        if sr[0] <= v <= sr[1]:
            return v
    return x


def consts_expect(ring, p):
    """zero one mOne minElement() maxElement() characteristic()"""
    lo, hi = elem_range(ring, p)
    return "%d %d %d %d %d %d" % (0, canon(ring, p, 1), canon(ring, p, -1), lo, hi, p)


def gen_obtained(rng, ring, p, cases, n_rand, modes=None):
    """the full operation set on boundary operands for a ring object obtained by copy / assignment (every cached field of the
    ring -- _pc, _halfp, _mhalfp, _dinvp, _invp, _negp, _lp, mOne, the Log16 tables -- must have been carried over)"""
    lo, hi = elem_range(ring, p)
    for mode in (modes or OBTAIN_MODES):
        rm = ring + "@" + mode
        cases.append((rm, p, "consts", []))
        trip = [[hi, hi, hi], [hi, hi, lo], [lo, hi, 1 if hi >= 1 else 0], [1 if hi >= 1 else 0, hi, hi]] + [operands(rng, ring, p, 3) for _ in range(n_rand)]
        for t in trip:
            for op in OPS3:
                cases.append((rm, p, op, list(t)))
            for op in OPS2:
                cases.append((rm, p, op, list(t[:2])))
            for op in OPS1:
                cases.append((rm, p, op, [t[0]]))
            cases.append((rm, p, "isUnit", [t[0]]))
            ro = reduce_operand(ring, p, t[0])
            cases.append((rm, p, "reduce1", [ro]))
            cases.append((rm, p, "reduce2", [ro]))
        for _ in range(2):
            u = unit_operand(rng, ring, p)
            for op in UNIT1:
                cases.append((rm, p, op, [u]))
            for op in UNIT2:
                cases.append((rm, p, op, [operands(rng, ring, p, 1)[0], u]))
        if ring in INT_RINGS:
            for op in PRECOMP_OPS:
                if precomp_ok(ring, p, op):
                    cases.append((rm, p, op, [hi, hi]))
                    cases.append((rm, p, op, [hi, max(0, hi - 1)]))


# alias patterns (which arguments of the call are one object; see harness/c03_modular.C apply_op).  Aliased operands carry equal values.
ALIAS3 = ("ra", "rb", "ab", "rab")           # r, a, b      add sub mul div
ALIAS4 = ("ra", "rb", "rc", "ab")            # r, a, x, y   axpy axmy maxpy
ALIASIN2 = ("rb",)                            # r, a         addin subin mulin divin    (r op= r)
ALIASIN3 = ("ra", "rb")                       # r, a, x      axpyin axmyin maxpyin      (r = r*x + r, r = a*r + r)


def gen_alias(rng, ring, p, cases, n_rand):
    """every operation in every pattern of argument aliasing (the destination being one of the sources, two sources being one
    object): an implementation that writes its destination before it has read all its sources shows only here"""
    lo, hi = elem_range(ring, p)
    u = unit_operand(rng, ring, p)
    vals = [[hi, hi, hi], [hi, lo, 1 if hi >= 1 else 0], [u, hi, lo]] + [operands(rng, ring, p, 3) for _ in range(n_rand)]
    for t in vals:
        a, b, c = t
        for op in ("add", "sub", "mul"):
            for al in ALIAS3:
                cases.append((ring, p, op + ":" + al, [a, a] if al in ("ab", "rab") else [a, b]))
        for op in ("axpy", "axmy", "maxpy"):
            for al in ALIAS4:
                cases.append((ring, p, op + ":" + al, [a, a, c] if al == "ab" else [a, b, c]))
        for op in ("addin", "subin", "mulin"):
            cases.append((ring, p, op + ":rb", [a, a]))
        for op in ("axpyin", "axmyin", "maxpyin"):
            cases.append((ring, p, op + ":ra", [a, b, a]))      # r = r*x + r  (args: a x r)
            cases.append((ring, p, op + ":rb", [a, b, b]))      # r = a*r + r
        cases.append((ring, p, "neg:ra", [a]))
        cases.append((ring, p, "reduce2:ra", [reduce_operand(ring, p, a)]))
    for al in ALIAS3:
        cases.append((ring, p, "div:" + al, [u, u] if al in ("ab", "rab") else [operands(rng, ring, p, 1)[0], u]))
    cases.append((ring, p, "divin:rb", [u, u]))
    cases.append((ring, p, "inv:ra", [u]))


PRECOMP_OPS = ("mulpp", "mulpb", "mulpb2")


def precomp_grid(rng, ring, p, op, cases, full):
    """operands near p-1 (the Barrett quotient estimate is worst for large products with a small residue)"""
    near = [x for x in range(p - 1, p - 7, -1) if x >= 0]
    if full:
        pairs = [(x, y) for x in near for y in near]
    else:
        pairs = [(x, x) for x in near] + [(near[0], y) for y in near[1:]] + [(near[-1], near[1 % len(near)])]
    pairs += [(p // 2, p - 1), (p - 1, p // 2 + 1), (rng.range(0, p - 1), rng.range(0, p - 1)), (rng.range(p // 2, p - 1), p - 1)]
    for x, y in pairs:
        cases.append((ring, p, op, [x, y]))


def gen_precomp_directed(rng, ring, lo, hi, quick, cases):
    """mul_precomp_p / precomp_b+mul_precomp_b / precomp_b(invp)+mul_precomp_b at moduli 2^(k-1)+small and 2^k-small for every
    bit size k up to the documented limit of the (Element, Compute_t) pair (quick: the top bit sizes, where the margin of the
    quotient estimate is smallest, plus two lower ones), operands within 6 of p-1."""
    cb = ITY[ring.split("_")[1]][0]
    for op in PRECOMP_OPS:
        lim = cb // 2 - 2 if op in ("mulpp", "mulpb2") else cb // 2 - 1
        kmax = min(lim, hi.bit_length())
        if kmax < 3:
            continue
        ks = list(range(3, kmax + 1))
        if quick and len(ks) > 4:
            ks = ks[-3:] + [rng.choice(ks[:-3])]
        for k in ks:
            base = 1 << (k - 1)
            ds = ([1, 2, 3, 5] if quick else [1, 2, 3, 4, 5, 7, 9]) + [rng.range(1, max(1, base // 8)) for _ in range(4 if quick else 16)] \
                + [rng.range(1, max(1, base // 64)) for _ in range(2 if quick else 8)]
            ms = {base + d for d in ds} | {2 * base - d for d in (1, 2, 3, rng.range(1, max(1, base // 4)))}
            for m in sorted(ms):
                if lo <= m <= hi and m >= 3 and m.bit_length() <= lim:
                    precomp_grid(rng, ring, m, op, cases, full=(op == "mulpp"))


def gen_precomp_16bit(rng, ring, lo, hi, quick, cases, n):
    """the 16-bit element space is small: n moduli (thorough: ALL) inside the precondition with the near-(p-1) grid"""
    lim = ITY[ring.split("_")[1]][0] // 2 - 2
    top = min(hi, (1 << lim) - 1)
    if top < 8:
        return
    if n is None:
        ms = range(max(lo, 3), top + 1)
    else:
        ms = set()
        while len(ms) < n:
            k = rng.range(max(4, lim - 3), lim)
            b = 1 << (k - 1)
            m = b + rng.range(1, b // 3) if rng.chance(3, 4) else rng.range(b, 2 * b - 1)
            if max(lo, 3) <= m <= top:
                ms.add(m)
        ms = sorted(ms)
    for m in ms:
        precomp_grid(rng, ring, m, "mulpp", cases, full=True)


def gen_extended_directed(rng, ring, lo, hi, cases, n):
    """ModularExtended<float|double>: the quotient estimate floor(fl(fl(a*b)*fl(1/p))) is off by one only for large moduli
    (a*b/p ~ 2^40 and more for double) when a*b lies within a few units of a multiple of p; both correction steps of mul
    (r >= p, r < 0) are reached on EVERY run: n pairs with a*b = -s resp. +s (mod p), s in {1,2,3,small}, a and b large, at the
    maximum, at 2^k - c for the top bit sizes and at random moduli of the top two bit sizes; the same for reduce(x), x = k*p -+ s
    with the largest quotients the element type represents."""
    kb = hi.bit_length()
    ms = [hi, hi - 1, prevprime(hi)] + [(1 << k) - c for k in range(kb - 3, kb + 1) for c in (1, 3, 27, 59)] \
        + [rng.range(1 << (kb - 2), hi) for _ in range(6)]
    ms = [m for m in dict.fromkeys(ms) if lo <= m <= hi and m >= 5]
    for j in range(n):
        p = ms[j % len(ms)]
        for _ in range(60):
            a = rng.range(p - p // 4, p - 1)
            if math.gcd(a, p) == 1:
                break
        else:
            continue
        s0 = rng.choice([1, 1, 2, 3, rng.range(1, 1 + p // (1 << 20))])
        sg = -1 if j % 3 else 1
        b0 = rng.range(p // 2, p - 1)                       # b near b0 with a*b = sg*s0 + (multiple of p): shift b0 by the residue
        b = (sg * s0 * pow(a, -1, p)) % p
        if b < p // 8:                                      # keep both operands large: retry with another small residue
            b = (sg * (s0 + 1) * pow(a, -1, p)) % p
        for op in ("mul", "mulin"):
            cases.append((ring, p, op, [a, b]))
        cases.append((ring, p, "axpy", [a, b, rng.range(0, p - 1)]))
        cases.append((ring, p, "axpyin", [a, b, 0]))
        cases.append((ring, p, "maxpyin", [a, b, 0]))
        cases.append((ring, p, "axmy", [a, b, 0]))
        del b0
    # reduce: the largest quotients
    lim = 1 << (24 if ring == "ef" else 53)
    for p in [2, 3, 5, 7, 255, 257, 65537, 1000003, hi, hi // 3] + [rng.range(lo, min(hi, 1 << rng.range(2, kb))) for _ in range(6)]:
        if not (lo <= p <= hi):
            continue
        for k in (lim // p, lim // p - 1, lim // (2 * p), rng.range(1, max(1, lim // p))):
            for d in (0, 1, -1, 2, -2):
                x = k * p + d
                for y in (x, -x):
                    if -lim <= y <= lim and rn_int(y, 24 if ring == "ef" else 53) == y:
                        cases.append((ring, p, "reduce1", [y]))
                        cases.append((ring, p, "reduce2", [y]))


def rn_int(z, prec):
    """z if the integer z is representable with prec significant bits, else the nearest representable (ties to even)"""
    n = abs(z).bit_length()
    if n <= prec:
        return z
    sh = n - prec
    q, r = divmod(abs(z), 1 << sh)
    h = 1 << (sh - 1)
    if r > h or (r == h and q & 1):
        q += 1
    return (q << sh) * (1 if z >= 0 else -1)


# ---------------------------------------------------------------- results that land EXACTLY on the modulus before the correction
# (seeded C03-m8: `a >= _p` -> `a > _p` in ModularExtended<double>::reduce shows only for an exact non-zero multiple k*m of a modulus
#  whose cached reciprocal fl(1/m) is rounded downwards).  The rounding direction of fl(1/m) and the value the correction step
#  receives are recomputed here by exact rational arithmetic, so the moduli are CHOSEN, not hoped for.
from fractions import Fraction


def fl_round(x, prec):
    """the rational x rounded to prec significant bits, nearest, ties to even (exponent range unbounded)"""
    if x == 0:
        return Fraction(0)
    sg = 1 if x > 0 else -1
    x = abs(x)
    e = x.numerator.bit_length() - x.denominator.bit_length()      # 2^(e-1) <= x < 2^(e+1)
    sh = prec - e
    while True:
        y = x * (Fraction(2) ** sh)
        if y >= (1 << prec):
            sh -= 1
        elif y < (1 << (prec - 1)):
            sh += 1
        else:
            break
    q, r = divmod(y.numerator, y.denominator)
    if 2 * r > y.denominator or (2 * r == y.denominator and q & 1):
        q += 1
    return sg * Fraction(q) / (Fraction(2) ** sh)


def recip_direction(p, prec):
    """'down' / 'up' / 'exact': how the cached reciprocal fl(1/p) compares with 1/p"""
    inv = fl_round(Fraction(1, p), prec)
    return "exact" if inv * p == 1 else ("down" if inv * p < 1 else "up")


def lands_on_modulus(p, prec, ks):
    """the k in ks for which q = floor(fl(k*p * fl(1/p))) is k-1, i.e. reduce(k*p) hands exactly p to its correction step"""
    inv = fl_round(Fraction(1, p), prec)
    out = []
    for k in ks:
        x = k * p
        if x >= (1 << prec) or fl_round(Fraction(x), prec) != x:
            continue
        if math.floor(fl_round(x * inv, prec)) == k - 1:
            out.append(k)
    return out


LAND_KS = (1, 2, 3, 7, 15, 1000, 65537, 1000003)
RECIP_PREC = {"ef": 24, "ed": 53, "bi32": 53, "bi64": 53}     # rings that cache a floating reciprocal (_invp / _dinvp)


def _isprime(n):
    return n >= 2 and prevprime(n) == n


def landing_moduli(ring, lo, hi, quick=False):
    """per ring: moduli at small / medium / maximal magnitude, prime and composite, even and odd; for the rings with a cached
    floating reciprocal, at every magnitude one modulus whose fl(1/m) is rounded DOWN and (k*m lands exactly on m) and one whose
    fl(1/m) is rounded UP, prime and composite.  Deterministic (no random choice).  Returns (list, record for the evidence)."""
    kb = hi.bit_length()
    starts = sorted({s for s in [64, 256, 4096, 1 << 16, 1 << 20, 1 << 26, 1 << 32, 1 << 40, 1 << 45, 1 << 49, 1 << (kb - 1), hi]
                     if lo + 8 <= s <= hi})
    out = [m for m in (lo, lo + 1, lo + 2, lo + 3, 4, 6, 7, 9, 12, 13, 49, 98, 75, hi, hi - 1, hi - 2, prevprime(hi)) if lo <= m <= hi]
    rec = {}
    prec = RECIP_PREC.get(ring)
    if quick and prec is None:
        # no cached reciprocal: the landing classes depend on the code path, not on the magnitude -- small, one medium, maximal
        out = [m for m in (lo, lo + 1, 4, 7, 12, 49, hi, hi - 1, prevprime(hi)) if lo <= m <= hi]
        starts = [s for s in starts if s == 1 << 16 or s == 1 << (kb - 1)][:2]
    for s in starts:
        found = {}
        if prec is None:
            # no reciprocal: one prime, one even and one odd composite below the start
            for m in range(s, max(lo, s - 400), -1):
                key = "prime" if _isprime(m) else ("even" if m % 2 == 0 else "odd composite")
                found.setdefault(key, m)
                if len(found) == 3:
                    break
        else:
            # just below a power of two 1/m is all but representable (error of second order): start a little further down
            s0 = s - s // 37 if s >= (1 << 20) else s
            for m in range(s0, max(lo, s0 - 3000), -1):
                d = recip_direction(m, prec)
                if d == "exact":
                    continue
                pr = "prime" if _isprime(m) else "composite"
                if d == "down":
                    if not lands_on_modulus(m, prec, LAND_KS):
                        continue
                    key = "down+lands " + pr
                else:
                    key = "up " + pr
                found.setdefault(key, m)
                if len(found) == 4:
                    break
        for k, m in found.items():
            out.append(m)
            rec.setdefault(k, []).append(m)
    if prec is not None:
        # the small moduli: every one in [lo, 300] whose multiple lands on the modulus (49, 98, 103, 107, 161, ... for double)
        small = [m for m in range(max(lo, 2), min(hi, 300) + 1) if lands_on_modulus(m, prec, (1, 2, 3))]
        rec["down+lands small (all up to 300)"] = small
        out += small
    return list(dict.fromkeys(out)), rec


def divisor_pairs(p):
    """(d, p/d) for the smallest and the middle non-trivial divisor of p (empty for primes)"""
    out = []
    d = 2
    while d * d <= p and len(out) < 2 and d < 100000:
        if p % d == 0:
            out.append((d, p // d))
            d = max(d + 1, math.isqrt(p) // 2)
        else:
            d += 1
    return out


def gen_landing(rng, ring, p, cases, quick=False):
    """every operation at the operands whose exact result is 0 (mod p) or sits on the border of the canonical range -- the values
    the implementation's last correction / normalisation step sees are then exactly p, 0, -p resp. +-p/2, p/2+1 -- and reduce (both
    forms) of the exact multiples k*p, k*p+-1 (balanced: k*p + p/2, + p/2+1, + lo) with small and the largest quotients."""
    lo, hi = elem_range(ring, p)
    bal = is_balanced(ring)
    h = p // 2
    targets = [0, 1, -1] + ([h, h + 1, lo, lo - 1] if bal else [p - 1])
    base = [hi, lo, 1, h if lo <= h <= hi else hi, (p - 1) // 3 if lo <= (p - 1) // 3 <= hi else 1]
    pairs = [(a, b) for a in base for b in (hi, base[3])][:3 if quick else 6] + [(canon(ring, p, d), canon(ring, p, e)) for d, e in divisor_pairs(p)]
    dp = divisor_pairs(p)
    if dp:
        d, e = dp[0]
        for u, v in ((2, 3), (d - 1, e - 1)):
            if 0 < u < e and 0 < v < d:          # (d*u) * (e*v) = u*v * p with both factors canonical
                pairs.append((canon(ring, p, d * u), canon(ring, p, e * v)))
    for a, b in pairs:
        for op in ("mul", "mulin"):
            cases.append((ring, p, op, [a, b]))
        for t in targets:
            cases.append((ring, p, "axpy", [a, b, canon(ring, p, t - a * b)]))
            cases.append((ring, p, "axpyin", [a, b, canon(ring, p, t - a * b)]))
            cases.append((ring, p, "axmy", [a, b, canon(ring, p, a * b - t)]))
            cases.append((ring, p, "axmyin", [a, b, canon(ring, p, a * b - t)]))
            cases.append((ring, p, "maxpy", [a, b, canon(ring, p, t + a * b)]))
            cases.append((ring, p, "maxpyin", [a, b, canon(ring, p, t + a * b)]))
    for a in dict.fromkeys([hi, lo, 1, 0] + ([] if quick else [h if lo <= h <= hi else hi, lo + 1 if lo + 1 <= hi else lo])):
        for t in targets:
            b = canon(ring, p, t - a)
            cases.append((ring, p, "add", [a, b]))
            cases.append((ring, p, "addin", [a, b]))
            b = canon(ring, p, a - t)
            cases.append((ring, p, "sub", [a, b]))
            cases.append((ring, p, "subin", [a, b]))
        cases.append((ring, p, "neg", [a]))
        cases.append((ring, p, "negin", [a]))
    # reduce
    sr = storage_range(ring)
    if sr is None:
        if ring in ("f_f", "f_d", "bf", "ef"):
            sr = (-(1 << 24), 1 << 24)
        elif ring in ("d_d", "bd", "ed"):
            sr = (-(1 << 53), 1 << 53)
        elif ring == "bi32":
            sr = (-(1 << 31) + 1, (1 << 31) - 1)
        elif ring == "bi64":
            sr = (-(1 << 63) + 1, (1 << 63) - 1)
        elif ring.startswith("ru"):
            sr = (0, (1 << (1 << int(ring[2]))) - 1)
        elif ring.startswith("ri"):
            sr = (-(1 << ((1 << int(ring[2])) - 1)) + 1, (1 << ((1 << int(ring[2])) - 1)) - 1)
        elif ring in LOG_RINGS:
            sr = (-(1 << 31) + 1, (1 << 31) - 1)
        else:
            sr = (-(1 << 300), 1 << 300)
    prec = 24 if ring in ("f_f", "f_d", "bf", "ef") else (53 if ring in ("d_d", "bd", "ed") else None)
    kmax = max(abs(sr[0]), abs(sr[1])) // p
    for k in dict.fromkeys(list(LAND_KS[:5] if quick else LAND_KS) + [kmax, kmax - 1] + ([] if quick else [max(1, kmax // 2)])):
        if k < 1:
            continue
        for d in [0, 1, -1] + ([h, h + 1, lo] if bal else []):
            for x in (k * p + d, -(k * p + d)):
                if sr[0] <= x <= sr[1] and (prec is None or rn_int(x, prec) == x):
                    cases.append((ring, p, "reduce1", [x]))
                    cases.append((ring, p, "reduce2", [x]))


def gen_cases(rng, ring, p, per, cases):
    for op in OPS2:
        for _ in range(per):
            cases.append((ring, p, op, operands(rng, ring, p, 2)))
    # the extreme corner explicitly: (p-1)*(p-1) (+/-) (p-1), (p-1)*(p-1) - 0
    lo, hi = elem_range(ring, p)
    for op in OPS3:
        for t in ([hi, hi, hi], [hi, hi, 0], [hi, hi, lo], [lo, lo, hi], [lo, hi, lo], [hi, lo, hi], [lo, lo, lo]):
            cases.append((ring, p, op, list(t)))
        for _ in range(per):
            cases.append((ring, p, op, operands(rng, ring, p, 3)))
    for op in ("mul", "mulin"):
        for t in ([hi, hi], [lo, lo], [lo, hi]):
            cases.append((ring, p, op, list(t)))
    # products just below / just above / exactly on a multiple of p with a large quotient: the boundary of every
    # quotient estimate (balanced int, extended FMA, Barrett) and of the single correction step
    near = near_multiple_pairs(rng, ring, p, 3 if per <= 2 else 8)
    for (x, y, sgn_s) in near:
        for op in ("mul", "mulin"):
            cases.append((ring, p, op, [x, y]))
        cases.append((ring, p, "axpy", [x, y, canon(ring, p, -sgn_s)]))       # a*b + c exactly a multiple of p
        cases.append((ring, p, "axmyin", [x, y, canon(ring, p, sgn_s)]))
        cases.append((ring, p, "maxpy", [x, y, canon(ring, p, sgn_s)]))
        if ring in INT_RINGS:
            for op in ("mulpp", "mulpb", "mulpb2"):
                if precomp_ok(ring, p, op):
                    cases.append((ring, p, op, [x % p, y % p]))
    for op in OPS1:
        for x in [0, 1, hi, lo] + operands(rng, ring, p, 2):
            if lo <= x <= hi:
                cases.append((ring, p, op, [x]))
    for op in UNIT1:
        for _ in range(max(2, per // 2)):
            cases.append((ring, p, op, [unit_operand(rng, ring, p)]))
    for op in UNIT2:
        for _ in range(max(2, per // 2)):
            cases.append((ring, p, op, [operands(rng, ring, p, 1)[0], unit_operand(rng, ring, p)]))
    for x in [0, 1, hi, lo, p // 2] + operands(rng, ring, p, per):
        if lo <= x <= hi:
            cases.append((ring, p, "isUnit", [x]))
    sr = storage_range(ring)
    for op in ("reduce1", "reduce2"):
        xs = [0, 1, p - 1, p, p + 1, 2 * p - 1, 2 * p, -1, -p, -p + 1, -p - 1]
        if sr:
            xs += [sr[0], sr[1], sr[0] + 1, sr[1] - 1, rng.range(sr[0], sr[1]), rng.range(sr[0], sr[1])]
            xs = [x for x in xs if sr[0] <= x <= sr[1]]
        elif ring in FLT_RINGS + BAL_RINGS + EXT_RINGS:
            # Element is a float/double (integer-valued operands only) or int32/int64
            lim = {"f_f": 1 << 24, "f_d": 1 << 24, "bf": 1 << 24, "ef": 1 << 24, "bi32": (1 << 31) - 1, "bi64": (1 << 63) - 1}.get(ring, 1 << 53)
            xs += [lim, -lim, lim - 1, rng.range(-lim, lim), rng.range(-lim, lim), rng.range(-4 * p, 4 * p)]
            xs = [x for x in xs if -lim <= x <= lim]
        else:
            xs = [x for x in xs if x >= 0] + [p * p - 1, rng.range(0, p * p)]
            if ring.startswith("ru"):
                K = int(ring[2])
                xs = [x for x in xs if x < (1 << (1 << K))] + [(1 << (1 << K)) - 1]
            if ring.startswith("ri"):       # signed RecInt: negative values are elements of the storage type
                top = (1 << ((1 << int(ring[2])) - 1)) - 1
                xs = [x for x in xs if x <= top] + [top, -top, -1, -p, -p - 1, -p + 1, -2 * p, -(p * p - 1) if p * p - 1 <= top else -3 * p,
                                                    -rng.range(0, min(top, p * p))]
                xs = [x for x in xs if -top <= x <= top]
            if ring == "zz":                # Integer: any sign
                xs += [-1, -p, -p - 1, -p + 1, -2 * p, -(p * p - 1), -rng.range(0, p * p), -(1 << 300) + 1]
            if ring in LOG_RINGS:     # no reduce(): init(int32_t) is the reduction
                xs = [x for x in xs if x < (1 << 31)] + [-1, -p, -p - 1, (1 << 31) - 1, -(1 << 31) + 1, rng.range(-(1 << 31) + 1, (1 << 31) - 1)]
        for x in xs:
            cases.append((ring, p, op, [x]))
    if ring in INT_RINGS:
        # precomp_p / precomp_b carry a documented precondition (assert on bitsize(p)); the Barrett forms are only
        # required to equal mul inside it, so the checked domain is exactly that precondition.
        for op in ("mulpp", "mulpb", "mulpb2"):
            if not precomp_ok(ring, p, op):
                continue
            for t in ([hi, hi], [hi, 1], [1, hi], [hi, p // 2], [p // 2 + 1, hi]):
                cases.append((ring, p, op, list(t)))
            for _ in range(per):
                cases.append((ring, p, op, operands(rng, ring, p, 2)))


SPLIT_UNREADABLE = []


def write_params(info):
    """coq/C03/Params.v: the advertised bounds exactly as the compiled implementation reports them"""
    lines = ["(* GENERATED by checks/C03.py from Ring::minCardinality()/maxCardinality() of /repo's current headers",
             "   (printed by harness/c03_modular.C).  Do not edit: rewritten on every run. *)",
             "From Coq Require Import ZArith List.", "Import ListNotations.", "Local Open Scope Z_scope."]
    for ring in ALL_RINGS:
        if ring in info and info[ring][1] > 0:
            lines.append("Definition min_%s : Z := %d." % (ring, info[ring][0]))
            lines.append("Definition max_%s : Z := %d." % (ring, info[ring][1]))
    # (bits of Storage_t, signed?, bits of Compute_t, minCardinality, maxCardinality) of every integral Modular<S,C>
    rows = []
    for ring in INT_RINGS:
        s, c = ring.split("_")
        rows.append("(%d, %s, %d, min_%s, max_%s)" % (ITY[s][0], "true" if ITY[s][1] else "false", ITY[c][0], ring, ring))
    lines.append("Definition advertised_int : list (Z * bool * Z * Z * Z) :=\n  [" + ";\n   ".join(rows) + "].")
    # (element bits w = 2^K, Compute_t = ruint<K+1>?, min, max) of every Modular<ruint<K>,ruint<K'>>
    rows = []
    for ring in BIG_RINGS:
        if ring.startswith("ru") and ring in info:
            k, k2 = int(ring[2]), int(ring.split("_")[1])
            rows.append("(%d, %s, min_%s, max_%s)" % (1 << k, "true" if k2 > k else "false", ring, ring))
    lines.append("Definition advertised_ru : list (Z * bool * Z * Z) :=\n  [" + ";\n   ".join(rows) + "].")
    # the Veltkamp splitting constants of ModularExtended::split (modular-extended.h), read from the current source:
    # c = (Element)((1 << S)+1) for double / float.  0 = not found (ProofsTop2.split_constants_ok then fails).
    shifts = {"double": 0, "float": 0}
    try:
        src = open(os.path.join(vf.REPO, ANCHOR_DIR, "modular-extended.h"), errors="replace").read()
        src = re.sub(r"/\*.*?\*/", " ", src, flags=re.S)
        src = re.sub(r"//[^\n]*", "", src)
        m = re.search(r"\bsplit\s*\(", src)
        body = src[m.start():m.start() + 1500] if m else src
        # tolerant of layout: "is_same<Element, T>" ... up to the next "<<" ... the shift count
        for ty, sh in re.findall(r"is_same\s*<\s*Element\s*,\s*(double|float)\s*>.*?<<\s*(\d+)", body, flags=re.S):
            shifts[ty] = shifts[ty] or int(sh)
    except OSError:
        pass
    if not (shifts["double"] and shifts["float"]):
        # could not be read (source reformatted beyond recognition): keep the values of the existing Params.v and say so
        SPLIT_UNREADABLE.append("Veltkamp constants not found in modular-extended.h")
        try:
            old = open(os.path.join(vf.coq_dir(AREA), "Params.v")).read()
            for ty in shifts:
                mm = re.search(r"split_shift_%s : Z := (\d+)" % ty, old)
                if mm and not shifts[ty]:
                    shifts[ty] = int(mm.group(1))
        except OSError:
            pass
    lines.append("Definition split_shift_double : Z := %d." % shifts["double"])
    lines.append("Definition split_shift_float : Z := %d." % shifts["float"])
    txt = "\n".join(lines) + "\n"
    return vf.write_if_changed(os.path.join(vf.coq_dir(AREA), "Params.v"), txt)


def load_known_with_fragment():
    """known_findings.json + this property's fragment (frag/C03.findings.json) until the coordinator merges it"""
    base = _orig_load_known()
    try:
        frag = json.load(open(os.path.join(vf.ROOT, "frag", "C03.findings.json")))
    except (OSError, ValueError):
        frag = []
    have = {(k.get("property"), k.get("site"), k.get("klass")) for k in base}
    return base + [k for k in frag if (k.get("property"), k.get("site"), k.get("klass")) not in have]


_orig_load_known = vf.load_known
vf.load_known = load_known_with_fragment


# ---------------------------------------------------------------- compile configurations and preprocessor-selected branches
# (name, extra flags appended to vf.BASE_FLAGS, translation units built in quick, in thorough, rings driven (None = all of the
#  unit), what it is)
CONFIGS = [
    ("native", [], (1, 2, 3, 4), (1, 2, 3, 4), None,
     "the flags the repository's own tests use (-O2 -march=native): FMA when the CPU has it"),
    ("nofma", ["-mno-fma", "-mno-fma4", "-mno-avx512f"], (3,), (1, 2, 3, 4), None,
     "-march=native with the fused multiply-add instruction sets switched off (FMA3, FMA4, AVX-512F): the error-free product by "
     "Veltkamp/Dekker splitting, vectorised code generation otherwise as in the tests"),
    ("generic", ["-march=x86-64", "-mtune=generic"], (3, 4), (1, 2, 3, 4), None,
     "no -march (plain g++ -O2, SSE2 arithmetic, no FMA): the documented stand-alone compile line"),
    ("x87", ["-march=x86-64", "-mfpmath=387"], (3,), (3,), ("ef", "ed"),
     "x87 arithmetic (__SSE_MATH__ undefined): the #else fallback branches of ModularExtended (only these rings are driven: "
     "nothing else in the anchor files depends on it and 80-bit intermediates are outside the models)"),
    ("nocontract", ["-ffp-contract=off"], (3,), (3,), None,
     "the tests' flags with floating-point contraction switched off: a*x+y is evaluated with TWO roundings (the unfused form of the "
     "models); in `native`/`debug` g++ (GNU mode: -ffp-contract=fast) fuses it into one vfmadd -- both evaluations are driven"),
    ("debug", ["-D__GIVARO_DEBUG"], (3, 4), (1, 2, 3, 4), None,
     "__GIVARO_DEBUG: the diagnostic branches (division-by-zero throws) compiled in"),
]
ANCHOR_DIR = "src/kernel/ring"
ANCHOR_FILES = ["modular-implem.h", "modular-integral.inl", "modular-floating.inl", "modular-balanced-int32.inl",
                "modular-balanced-int64.inl", "modular-balanced-float.inl", "modular-balanced-double.inl", "modular-extended.h",
                "modular-extended.inl", "modular-integer.inl", "modular-ruint.inl", "modular-inttype.inl", "modular-log16.inl",
                "modular-general.inl", "modular-mulprecomp.inl",
                # the class definitions next to them (constructors, operator=, maxCardinality, cached members)
                "modular-integral.h", "modular-floating.h", "modular-balanced-int32.h", "modular-balanced-int64.h",
                "modular-balanced-float.h", "modular-balanced-double.h", "modular-integer.h", "modular-ruint.h", "modular-inttype.h",
                "modular-log16.h", "modular-general.h", "modular-defines.h", "modular-balanced.h", "modular.h"]


def _strip_comment(t):
    t = re.sub(r"/\*.*?\*/", " ", t)
    t = re.sub(r"//.*$", "", t)
    return t.strip()


def pp_chains():
    """every preprocessor conditional (#if/#ifdef/#ifndef ... #elif ... #else ... #endif) of the anchor files of /repo's CURRENT
    sources, except include guards: [{file, line, dirs: [(kind, condition, line)], bodies: [text], func}]"""
    chains = []
    for rel in ANCHOR_FILES:
        path = os.path.join(vf.REPO, ANCHOR_DIR, rel)
        try:
            lines = open(path, errors="replace").read().splitlines()
        except OSError:
            continue
        stack = []
        for i, l in enumerate(lines):
            m = re.match(r"\s*#\s*(ifdef|ifndef|if|elif|else|endif)\b(.*)$", l)
            if not m:
                continue
            kind, rest = m.group(1), _strip_comment(m.group(2))
            if kind in ("if", "ifdef", "ifndef"):
                nxt = next((x for x in lines[i + 1:i + 4] if x.strip()), "")
                guard = kind == "ifndef" and re.match(r"\s*#\s*define\s+" + re.escape(rest) + r"\b", nxt) is not None
                stack.append({"file": rel, "line": i + 1, "dirs": [(kind, rest, i)], "guard": guard})
            elif stack and kind in ("elif", "else"):
                stack[-1]["dirs"].append((kind, rest, i))
            elif stack:
                c = stack.pop()
                if c["guard"]:
                    continue
                ends = [d[2] for d in c["dirs"][1:]] + [i]
                c["bodies"] = ["\n".join(lines[d[2] + 1:e]) for d, e in zip(c["dirs"], ends)]
                # the function the conditional sits in (nearest preceding definition header of a ring member)
                c["func"] = ""
                for j in range(c["dirs"][0][2], max(-1, c["dirs"][0][2] - 40), -1):
                    mm = re.search(r"(Modular\w*<[^>]*>)\s*::\s*(\w+)\s*(\(|$)", lines[j])
                    if mm:
                        c["func"] = re.sub(r"\s+", "", mm.group(1)) + "::" + mm.group(2)
                        break
                c["dirs"] = [(k, r, ln + 1) for k, r, ln in c["dirs"]]
                chains.append(c)
    chains.sort(key=lambda c: (c["file"], c["line"]))
    return chains


def _diagnostic_only(body):
    """a branch that holds no arithmetic: empty, or only assert(...) / throw of a diagnostic"""
    t = re.sub(r"/\*.*?\*/", " ", body, flags=re.S)
    t = "\n".join(re.sub(r"//.*$", "", x) for x in t.splitlines())
    t = re.sub(r"assert\s*\((?:[^()]|\([^()]*\))*\)\s*;", "", t)
    return t.strip() == ""


def write_ppgen(chains):
    """c03_ppgen.h: the conditionals copied verbatim around one print statement each, so that the harness translation unit
    (same flags, after the givaro headers) reports the branch the compiler selects; plus the state of every macro they name.
    Returns the include directory (inside the build cache, named after the content)."""
    out = ["// GENERATED by checks/C03.py from the preprocessor conditionals of /repo's anchor files; do not edit",
           "static void c03_ppinfo(std::ostream& o) {"]
    macros = []
    for k, c in enumerate(chains):
        out.append("// %s:%d %s" % (c["file"], c["line"], c["func"]))
        for j, (kind, cond, ln) in enumerate(c["dirs"]):
            out.append("#%s %s" % (kind, cond))
            out.append('    o << "c%d=%d ";' % (k, j))
            for w in re.findall(r"[A-Za-z_]\w*", cond):
                if w != "defined" and w not in macros:
                    macros.append(w)
        if c["dirs"][-1][0] != "else":
            out.append("#else")
            out.append('    o << "c%d=%d ";' % (k, len(c["dirs"])))
        out.append("#endif")
    for w in macros + ["__FMA__", "__SSE2__", "__SSE4_1__", "__AVX2__", "__SIZEOF_INT128__", "__x86_64__", "__GIVARO_SIZEOF_LONG",
                       "__FP_FAST_FMA", "__FP_FAST_FMAF", "__FLT_EVAL_METHOD__"]:
        if w in ("defined",):
            continue
        out.append("#ifdef %s" % w)
        out.append('    o << "%s=1 ";' % w)
        out.append("#else")
        out.append('    o << "%s=0 ";' % w)
        out.append("#endif")
    out.append("}")
    txt = "\n".join(out) + "\n"
    import hashlib
    d = vf.mkdir(os.path.join(vf.CACHE, "c03pp-" + hashlib.sha256(txt.encode()).hexdigest()[:16]))
    vf.write_if_changed(os.path.join(d, "c03_ppgen.h"), txt)
    return d


def contraction_probe(flags):
    """does g++ with these flags fuse a*b+c into one instruction?  (g++ -S of a three-line function; cached by flags)"""
    import hashlib
    d = vf.mkdir(os.path.join(vf.CACHE, "c03fma-" + hashlib.sha256(" ".join(flags).encode()).hexdigest()[:16]))
    res = os.path.join(d, "result.txt")
    if os.path.exists(res):
        return open(res).read().strip()
    src = os.path.join(d, "probe.C")
    open(src, "w").write("double c03_axpy(double a, double x, double y) { return a * x + y; }\n"
                         "double c03_q(long a, long x, long y, double i) { return (double(a) * double(x) + double(y)) * i; }\n")
    rc, out = vf.sh([vf.CXX] + list(flags) + ["-S", "-o", "-", src], timeout=300)
    if rc != 0:
        return "unknown (probe failed)"
    r = "fused" if re.search(r"\bv?fn?m(add|sub)\d*[sp][sd]\b", out) else "two roundings"
    open(res, "w").write(r + "\n")
    return r


def fma_instructions(binary):
    """number of fused multiply-add instructions in a harness binary (objdump), None if objdump is not available"""
    rc, out = vf.sh("objdump -d --no-show-raw-insn %s | grep -cE '\\bv?fn?m(add|sub)[0-9]*[sp][sd]\\b'" % binary, timeout=300)
    try:
        return int(out.strip().splitlines()[-1])
    except (ValueError, IndexError):
        return None


def ring_part(ring):
    """which translation unit of harness/c03_modular.C (-DC03_PART=n) registers the ring"""
    r = ring.split("@")[0]
    if r in INT_RINGS:
        return 1 if ITY[r.split("_")[0]][0] <= 16 else 2
    if r in FLT_RINGS + BAL_RINGS + EXT_RINGS:
        return 3
    return 4


def build_harness_parts(quick=True, ppdir=None):
    """every translation unit (-DC03_PART=1..4) in every configuration that drives it, compiled concurrently (each binary is
    cached by the hash of /repo's sources, the harness and its flags).  Returns ({config: {part: binary}}, log, failed) --
    the native configuration is required; another configuration that does not compile is reported by the caller."""
    import threading
    res = {}
    lib, l = vf.build_repo_lib()          # once, before the threads (they share its cache directory)
    if lib is None:
        return None, "library build failed:\n" + l, []
    jobs = [(name, k) for name, flags, pq, pt, only, what in CONFIGS for k in (pq if quick else pt)]
    flags_of = {name: flags for name, flags, pq, pt, only, what in CONFIGS}
    sem = threading.Semaphore(8)

    def work(name, k):
        with sem:
            fl = ["-DC03_PART=%d" % k] + list(flags_of[name])
            if ppdir:
                fl += ["-DC03_HAVE_PPGEN", "-I" + ppdir]
            res[(name, k)] = vf.build_harness("c03_modular.C", extra_flags=fl, timeout=1500,
                                              name="c03_modular_p%d%s" % (k, "" if name == "native" else "_" + name))
    ths = [threading.Thread(target=work, args=j) for j in jobs]
    for t in ths:
        t.start()
    for t in ths:
        t.join()
    bad = [j for j in jobs if res[j][0] is None]
    logs = "\n".join("[%s part %d]\n%s" % (j[0], j[1], res[j][1][-1500:]) for j in bad)
    if any(j[0] == "native" for j in bad):
        # a g++ that did not finish within its time limit is a tooling problem (machine load), not a property of /repo
        if all("[timeout after" in res[j][1] for j in bad if j[0] == "native"):
            return "timeout", logs, bad
        return None, logs, bad
    out = {}
    for (name, k) in jobs:
        if not any(b[0] == name for b in bad):
            out.setdefault(name, {})[k] = res[(name, k)][0]
    return out, logs, bad


HANGS = []          # (case line, final answer) of every case on which the per-case CPU watchdog fired / that crashed
# bounded cost of a call that does not return or crashes (shared by all streams / configurations / worker threads of one run):
STAGE1_CPU_S = 5             # first-stage CPU budget per case inside the harness (operations normally take microseconds)
CONFIRM_CPU_S = 20           # the case re-run alone
MAX_CONFIRMED = 3            # confirmed `does not return` per run, then every stream stops
MAX_OVERRUNS = 6             # first-stage overruns per run, then every stream stops
MAX_CRASHES_PER_FORM = 4
import threading as _threading
HANG_LOCK = _threading.Lock()
HANG_STATE = {"confirmed": 0, "overruns": 0, "dead_forms": {}, "crashes": {}, "stopped": None}
NOT_DRIVEN = "NOT-DRIVEN"


def call_form(line):
    """the call form of a case line: ring type (without the way the object was obtained) and operation (without alias pattern)"""
    t = line.split()
    return (t[0].split("@")[0], t[2].split(":")[0]) if len(t) >= 3 else ("?", "?")


def run_impl(parts, cases_lines, rings, timeout=1500):
    """route every line to the binary that registers its ring, run the four binaries concurrently, restore the order.
    A case on which the harness watchdog fires (DOES-NOT-RETURN after STAGE1_CPU_S of CPU) is re-run alone with CONFIRM_CPU_S;
    once confirmed, its call form is not driven any more in this run (answer NOT-DRIVEN); after MAX_CONFIRMED confirmations or
    MAX_OVERRUNS overruns every stream stops.  A crash (CRASHED, from the harness's signal handler) is a failing input; after
    MAX_CRASHES_PER_FORM crashes a form is not driven any more."""
    import threading, subprocess
    idx = {1: [], 2: [], 3: [], 4: []}
    for i, r in enumerate(rings):
        idx[ring_part(r)].append(i)
    out = [None] * len(cases_lines)
    status = {}
    env1 = dict(os.environ, C03_CASE_CPU_S=str(STAGE1_CPU_S))

    def prune(todo):
        """drop (answer NOT-DRIVEN) the cases of dead forms, all of them once the run is stopped"""
        keep = []
        with HANG_LOCK:
            stopped, dead = HANG_STATE["stopped"], dict(HANG_STATE["dead_forms"])
        for i in todo:
            f = call_form(cases_lines[i])
            if stopped:
                out[i] = NOT_DRIVEN + " (streams stopped: %s)" % stopped
            elif f in dead:
                out[i] = NOT_DRIVEN + " (%s)" % dead[f]
            else:
                keep.append(i)
        return keep

    def work(k):
        if not idx[k]:
            status[k] = (0, "")
            return
        todo = prune(list(idx[k]))
        errs = ""
        rc = 0
        while todo:
            try:
                pr = subprocess.run([parts[k]], input="".join(cases_lines[i] for i in todo), stdout=subprocess.PIPE, stderr=subprocess.PIPE,
                                    universal_newlines=True, timeout=timeout, env=env1, errors="replace")
                rc, o, e = pr.returncode, pr.stdout.splitlines(), pr.stderr
            except subprocess.TimeoutExpired:
                rc, o, e = 124, [], "[timeout]"
            errs += e[-2000:]
            last = o[-1].strip() if o else ""
            if rc in (3, 4) and last in ("DOES-NOT-RETURN", "CRASHED") and len(o) <= len(todo):
                for i, l in zip(todo, o[:-1]):
                    out[i] = l
                j = todo[len(o) - 1]
                form = call_form(cases_lines[j])
                if last == "CRASHED":
                    out[j] = "CRASHED (fatal signal inside the call)"
                    with HANG_LOCK:
                        n = HANG_STATE["crashes"][form] = HANG_STATE["crashes"].get(form, 0) + 1
                        if n >= MAX_CRASHES_PER_FORM:
                            HANG_STATE["dead_forms"].setdefault(form, "form crashed %d times" % n)
                    HANGS.append((cases_lines[j].strip(), out[j]))
                else:
                    with HANG_LOCK:
                        HANG_STATE["overruns"] += 1
                        # one confirmation at a time (the lock is held while the case is re-run alone: a hang must not cost
                        # N workers x budget), none for a form that is already dead, none beyond the cap
                        if form in HANG_STATE["dead_forms"]:
                            out[j] = NOT_DRIVEN + " (%s)" % HANG_STATE["dead_forms"][form]
                        elif HANG_STATE["stopped"] or HANG_STATE["confirmed"] >= MAX_CONFIRMED:
                            out[j] = NOT_DRIVEN + " (overran %d s of CPU; confirmation cap reached)" % STAGE1_CPU_S
                        else:
                            try:
                                p1 = subprocess.run([parts[k]], input=cases_lines[j], stdout=subprocess.PIPE, stderr=subprocess.PIPE,
                                                    universal_newlines=True, timeout=20 * CONFIRM_CPU_S,
                                                    env=dict(os.environ, C03_CASE_CPU_S=str(CONFIRM_CPU_S)))
                                o1 = p1.stdout.splitlines()
                            except subprocess.TimeoutExpired:
                                o1 = []
                            if o1 and o1[0].strip() not in ("DOES-NOT-RETURN", "CRASHED"):
                                out[j] = o1[0]            # slow, but it returns: an ordinary answer
                            else:
                                out[j] = "DOES-NOT-RETURN (no answer within %d s of CPU time, re-run alone)" % CONFIRM_CPU_S
                                HANG_STATE["confirmed"] += 1
                                HANG_STATE["dead_forms"][form] = "%s::%s does not return (confirmed on: %s)" % (form[0], form[1], cases_lines[j].strip())
                                HANGS.append((cases_lines[j].strip(), out[j]))
                        if not HANG_STATE["stopped"] and (HANG_STATE["confirmed"] >= MAX_CONFIRMED or HANG_STATE["overruns"] >= MAX_OVERRUNS):
                            HANG_STATE["stopped"] = "%d confirmed does-not-return, %d first-stage overruns" % (HANG_STATE["confirmed"], HANG_STATE["overruns"])
                todo = prune(todo[len(o):])
                rc = 0
                continue
            if len(o) == len(todo):
                for i, l in zip(todo, o):
                    out[i] = l
                todo = []
            else:
                rc = rc or 99
            break
        status[k] = (rc, errs)
    ths = [threading.Thread(target=work, args=(k,)) for k in idx]
    for t in ths:
        t.start()
    for t in ths:
        t.join()
    rc = max(status[k][0] for k in status)
    return rc, ([] if rc else out), "".join(status[k][1] for k in status)


def run_parallel(binary, lines, timeout=1500, nproc=12):
    """run a line-protocol driver on `lines` over nproc processes; line i goes to process i mod nproc (the slow cases -- the
    big-number rings, whose model computes on unary-binary positives -- are contiguous in the case list: striding spreads them)"""
    import subprocess
    if len(lines) < 2000:
        return vf.run_lines(binary, "".join(l + "\n" for l in lines), timeout=timeout)
    procs = []
    for k in range(nproc):
        pr = subprocess.Popen([binary], stdin=subprocess.PIPE, stdout=subprocess.PIPE, stderr=subprocess.PIPE, universal_newlines=True)
        procs.append((pr, "".join(l + "\n" for l in lines[k::nproc])))
    import threading
    res = [None] * len(procs)

    def work(i):
        pr, txt = procs[i]
        try:
            o, e = pr.communicate(txt, timeout=timeout)
            res[i] = (pr.returncode, o.splitlines(), e)
        except subprocess.TimeoutExpired:
            pr.kill()
            res[i] = (124, [], "[timeout]")
    ths = [threading.Thread(target=work, args=(i,)) for i in range(len(procs))]
    for t in ths:
        t.start()
    for t in ths:
        t.join()
    rc = max(r[0] for r in res)
    out = [None] * len(lines)
    for k, r in enumerate(res):
        n = len(lines[k::nproc])
        if len(r[1]) != n:
            return (rc or 99), [], "".join(x[2] for x in res)
        out[k::nproc] = r[1]
    return rc, out, "".join(r[2] for r in res)


def run_one(binary, text, timeout=1500):
    return vf.run_lines(binary, text, timeout=timeout)


def main(tier, replay=None):
    chk = vf.Check("C03", tier, "proof")
    rng = vf.Rng(chk.seed)
    quick = tier == "quick"
    chk.cov["trusted_base"] = [
        "Coq 8.16.1 kernel + vm_compute (no native_compute); all theorems closed under the global context",
        "extraction: ExtrOcamlBasic only; Z/positive/nat kept as extracted inductives; OCaml 4.13.1; zarith only for text I/O",
        "Model.v's C integer semantics (LP64, int = 32 bit, integer promotion, two's-complement conversions, signed overflow as wrap) "
        "and ModelF.v/ModelDK.v/ModelIn.v's float layer (round to nearest even to 24/53 bits on integers/dyadics, exponent range not "
        "modelled, no x87 excess precision); validated by the correspondence run in every compile configuration.  FP contraction: the "
        "extracted models evaluate a*x+y with two roundings; the native/debug binaries fuse it (recorded per configuration under "
        "'configurations'); both evaluations are proved to return the same canonical element (ProofsFused.v) and both are driven",
        "Log16, rint<7> and the RecInt/GMP based inverses of the big rings are oracle-tested, not modelled (see level_claimed)",
        "harness/c03_modular.C, checks/C03.py (case generator, python big-integer oracle, preprocessor-conditional scanner)",
        "g++ / x86-64 for the implementation side: the configurations listed under 'configurations' are the ones this compiler "
        "and CPU can produce and run",
    ]
    # 0. every preprocessor conditional of the anchor files, from the current sources
    import time as _t
    _t0 = _t.time()
    chains = pp_chains()
    ppdir = write_ppgen(chains)
    built, l2, bad = build_harness_parts(quick, ppdir)
    if built == "timeout":
        chk.cov["inconclusive"] = ["g++ did not finish compiling the native harness within its time limit (machine load): nothing was compared"]
        chk.cov["floor_missed"] = ["no implementation stream, no correspondence, theorems not re-checked: THIS RUN SAYS NOTHING ABOUT /repo"]
        return chk.finish()
    if built is None:
        chk.broke("implementation harness does not compile against /repo", l2)
        return chk.finish()
    himpl = built["native"]
    chk.cov.setdefault("phase_seconds", {})["build_harness_all_configurations"] = round(_t.time() - _t0, 1); _t0 = _t.time()
    inconclusive = []
    floor_missed = []
    for name, k in bad:
        inconclusive.append("configuration %s (part %d) did not compile" % (name, k))
    if bad:
        # a configuration other than the repository's own that this compiler cannot build is recorded, it is not a verdict
        chk.cov["configurations_not_built"] = {"%s/part%d" % b: l2[-1500:] for b in bad}
    # which branch of every conditional each configuration compiled (printed by the compiled harness itself)
    cfg_ev = {}
    selected = {}            # config -> {chain index: branch index}
    for name, flags, pq, pt, only, what in CONFIGS:
        if name not in built:
            continue
        k0 = sorted(built[name])[0]
        rc, out, err = run_one(built[name][k0], "ppinfo 0 x\n", timeout=600)
        sel, macros = {}, {}
        if rc == 0 and out:
            for tok in out[0].split():
                a, _, b = tok.partition("=")
                if re.match(r"c\d+$", a):
                    sel[int(a[1:])] = int(b)
                else:
                    macros[a] = int(b)
        else:
            inconclusive.append("configuration %s: ppinfo failed (rc=%s)" % (name, rc))
        selected[name] = sel
        cfg_ev[name] = {"flags": " ".join(vf.BASE_FLAGS + list(flags)), "what": what, "translation_units": sorted(built[name]),
                        "rings_driven": list(only) if only else "all rings of these units",
                        "a*x+y in one expression": contraction_probe(vf.BASE_FLAGS + list(flags)),
                        "fused_multiply_add_instructions_in_float_unit": fma_instructions(built[name][3]) if 3 in built[name] else None,
                        "macros": macros,
                        "branch_compiled": {"%s:%d %s" % (chains[k]["file"], chains[k]["line"], chains[k]["func"]):
                                            ("#%s %s" % tuple(chains[k]["dirs"][j][:2]) if j < len(chains[k]["dirs"]) else "(no branch: condition false)")
                                            for k, j in sorted(sel.items()) if k < len(chains)}}
    chk.cov["configurations"] = cfg_ev
    # every arithmetic branch of every conditional must be compiled AND driven by some configuration
    uncovered = []
    for k, c in enumerate(chains):
        for j, body in enumerate(c["bodies"]):
            if _diagnostic_only(body):
                continue
            if not any(selected[n].get(k) == j for n in selected):
                uncovered.append("%s:%d %s  #%s %s" % (c["file"], c["dirs"][j][2], c["func"], c["dirs"][j][0], c["dirs"][j][1]))
    chk.cov["preprocessor_conditionals_in_anchor_files"] = len(chains)
    chk.cov["branches_not_compiled_in_any_configuration"] = uncovered     # recorded: cannot be produced on this compiler/CPU
    # the branch of ModularExtended<float|double>::mul / ::reduce per configuration -> which model is the counterpart
    exbr = {}
    for name in selected:
        d = {}
        for ring, ty in (("ef", "float"), ("ed", "double")):
            br = []
            for fn in ("mul", "reduce"):
                ks = [k for k, c in enumerate(chains) if c["file"] == "modular-extended.inl" and c["func"] == "ModularExtended<%s>::%s" % (ty, fn)
                      and not all(_diagnostic_only(b) for b in c["bodies"])]
                br.append(selected[name].get(ks[0]) if len(ks) == 1 else None)
            d[ring] = tuple(br)
        exbr[name] = d
    if any(None in v for d in exbr.values() for v in d.values()):
        # the function name above a conditional could not be recognised (reformatted source?): fall back to the order of the
        # arithmetic conditionals in modular-extended.inl (float mul, double mul, float reduce, double reduce); if that does not fit
        # either, the extended rings are compared with the oracle only in this run (recorded; not a verdict about /repo)
        ks = [k for k, c in enumerate(chains) if c["file"] == "modular-extended.inl" and not all(_diagnostic_only(b) for b in c["bodies"])]
        if len(ks) == 4 and all(len(chains[k]["dirs"]) == 3 for k in ks):
            for name in selected:
                g = [selected[name].get(k) for k in ks]
                exbr[name] = {"ef": (g[0], g[2]), "ed": (g[1], g[3])}
            inconclusive.append("function names above the conditionals of modular-extended.inl not recognised: branches matched by source order")
        if any(None in v for d in exbr.values() for v in d.values()):
            inconclusive.append("the preprocessor branches of ModularExtended::mul / ::reduce could not be matched to the models: "
                                "extended rings compared with the oracle only")
            floor_missed.append("correspondence of ModularExtended<float|double>: not evaluated")
            exbr = {name: None for name in selected}
    # 0b. the advertised bounds, from the implementation
    rc, out, err = run_impl(himpl, ["%s 0 info\n" % r for r in ALL_RINGS], ALL_RINGS)
    if rc != 0 or len(out) != len(ALL_RINGS):
        chk.broke("implementation harness failed on info", err)
        return chk.finish()
    info = {}
    try:
        for r, l in zip(ALL_RINGS, out):
            t = l.split()
            info[r] = (int(t[0]), int(t[1]))
    except (ValueError, IndexError):
        chk.fail_input("%s::maxCardinality" % r, "does-not-return", {"ring": r, "p": "0", "op": "info", "args": []}, "min max", l,
                       "minCardinality()/maxCardinality() of the ring did not answer")
        return chk.finish()
    chk.cov["advertised_bounds"] = {r: list(v) for r, v in info.items()}
    write_params(info)          # written only if the content changed (vf.write_if_changed)
    if SPLIT_UNREADABLE:
        inconclusive.extend(SPLIT_UNREADABLE)
        floor_missed.append("C03_extended_split_constants_as_in_source re-checked against the previous constants, not the source")
    # 1. proofs
    _t0 = _t.time()
    # build once, then re-check the three property files concurrently (their internal `make` is then a no-op)
    okb, logb = vf.coq_make(AREA, timeout=2400)
    results = {}

    def recheck(pf):
        results[pf] = vf.coq_check_props(AREA, propfile=pf, timeout=2400)
    import threading as _th
    ths = [_th.Thread(target=recheck, args=(pf,)) for pf in PROP_FILES]
    for t in ths:
        t.start()
    for t in ths:
        t.join()
    for pf in PROP_FILES:
        res = results[pf]
        coq_timeout = (not res.get("ok")) and ("[timeout after" in (res.get("log") or "") or "[timeout after" in logb) and not res.get("forbidden")
        if coq_timeout:
            # coqc/make did not finish within its time limit: tooling, not a broken proof
            inconclusive.append("the Coq build / re-check of coq/C03 (%s) did not finish within its time limit (machine load): "
                                "its theorems were NOT re-checked in this run" % pf)
            floor_missed.append("theorems re-checked in %s: 0 of %d" % (pf, len(res.get("theorems") or [])))
        else:
            chk.proof_result(res, AREA, pf)
    chk.cov.setdefault("phase_seconds", {})["coq"] = round(_t.time() - _t0, 1); _t0 = _t.time()
    # 2. model driver
    drv, l1 = vf.ocaml_build(AREA) if os.path.exists(os.path.join(vf.coq_dir(AREA), "ocaml", "model.ml")) else (None, "extraction did not run")
    if drv is None:
        chk.broke("extracted model driver does not build", l1)
    # 3. cases
    cases = []
    landing_rec = {}
    replay_cfg = None
    if replay:
        rp = json.load(open(replay))
        for f in rp.get("failing_inputs", []):
            c = f["case"]
            cases.append((c["ring"], int(c["p"]), c["op"], [int(x) for x in c["args"]]))
    else:
        for ring in ALL_RINGS:
            lo, hi = info[ring]
            if hi <= 0:      # Modular<Integer>: no maximum
                hi = 1 << 200
            small = ring in INT_RINGS and ITY[ring.split("_")[0]][0] <= 16
            if not quick and small and hi <= 65535:
                ms = list(range(lo, hi + 1)) if hi <= 256 else moduli(rng, lo, hi, 300)
            else:
                ms = moduli(rng, lo, hi, 1 if quick else 120)
            if quick and hi > (1 << 70) and len(ms) > 16:
                # big-number rings: the extracted model computes on unary-binary positives; keep the boundary moduli + a sample
                keep = ms[:6] + ms[-1:] + [m for m in ms if m in (hi - 1, hi - 2)]
                rest = [m for m in ms if m not in keep]
                rng.shuffle(rest)
                ms = keep + rest[:8]
            per = 2 if quick else 8
            if not quick and ring in ("i16_u32", "u16_u32"):
                # EVERY modulus of the 16-bit double-width rings with the overflow corners (finite space, swept completely)
                for p in range(lo, hi + 1):
                    h1 = p - 1
                    for op, t in (("mul", [h1, h1]), ("axpy", [h1, h1, h1]), ("axpyin", [h1, h1, h1]), ("axmy", [h1, h1, 0]),
                                  ("axmyin", [h1, h1, 0]), ("maxpy", [h1, h1, 0]), ("maxpyin", [h1, h1, h1]), ("add", [h1, h1]),
                                  ("addin", [h1, p // 2 + 1]), ("sub", [0, h1]), ("neg", [1]), ("inv", [h1])):
                        cases.append((ring, p, op, list(t)))
            if ring in LOG_RINGS:
                ms = sorted({prevprime(m) for m in ms if m >= 2} | {2, 3, 5, 7, prevprime(hi)})
            for p in ms:
                gen_cases(rng, ring, p, per, cases)
            top = [m for m in ms if m == hi][:1] or [ms[-1]]
            if ring in EXT_RINGS:
                gen_extended_directed(rng, ring, lo, hi, cases, 24 if quick else 200)
            # results exactly on the modulus / on the border of the canonical range, over moduli chosen by exact recomputation
            lm, lrec = landing_moduli(ring, lo, hi, quick)
            if ring in LOG_RINGS:
                lm = sorted({prevprime(m) for m in lm if m >= 2})
            if quick and hi > (1 << 70):
                lm = lm[:10] + lm[-6:]
            landing_rec[ring] = {"moduli": len(lm), "classes": {k: [str(x) for x in v[:12]] for k, v in lrec.items()}}
            for p in lm:
                gen_landing(rng, ring, p, cases, quick)
            # every way of obtaining the ring object, on a few moduli of each ring (quick: 4, thorough: 16)
            sel = [ms[-1], ms[0]] + [rng.choice(ms) for _ in range(2 if quick else 14)]
            for p in (top + sel):
                gen_obtained(rng, ring, p, cases, 1 if quick else 3, OBTAIN_MAIN)
            for p in (top + [ms[0]] + ([] if quick else [rng.choice(ms) for _ in range(4)])):
                gen_obtained(rng, ring, p, cases, 1, [m for m in OBTAIN_MODES if m not in OBTAIN_MAIN])
            # every alias pattern of every operation: maximum, minimum, two (thorough: ten) further moduli
            for p in (top + [ms[0]] + [rng.choice(ms) for _ in range(2 if quick else 10)]):
                gen_alias(rng, ring, p, cases, 1 if quick else 4)
                cases.append((ring, p, "consts", []))
        for ring in INT_RINGS:
            gen_precomp_directed(rng, ring, info[ring][0], info[ring][1], quick, cases)
        for ring, n in (("u16_u32", 160), ("i16_i32", 60), ("u16_i32", 40), ("i16_u32", 40)):
            gen_precomp_16bit(rng, ring, info[ring][0], info[ring][1], quick, cases, n if quick else (None if ring in ("u16_u32", "i16_i32") else 600))
        # gcdext<Element> on its own (shared by the word rings)
        for ring in ("i8_i8", "u8_u8", "i16_i16", "u16_u16", "i32_i32", "u32_u32", "i64_i64", "u64_u64"):
            b, s = ITY[ring.split("_")[0]]
            mx = (1 << (b - 1)) - 1 if s else (1 << b) - 1
            for _ in range(20 if quick else 400):
                bb = rng.choice([mx, mx - 1, rng.range(2, mx), rng.range(2, min(mx, 1000))])
                aa = rng.choice([0, 1, bb - 1, bb // 2, rng.range(0, bb - 1)])
                cases.append((ring, 2, "gcdext", [aa, bb]))
    chk.cov["phase_seconds"]["generate"] = round(_t.time() - _t0, 1); _t0 = _t.time()
    impl_in = ["%s %d %s %s\n" % (r, p, op, " ".join(str(x) for x in a)) for r, p, op, a in cases]
    case_rings = [r for r, p, op, a in cases]
    # 3a. the implementation, in every configuration (all of them concurrently)
    import threading
    iouts = {}

    def run_cfg(name, only):
        idx = [i for i, r in enumerate(case_rings) if ring_part(r) in built[name] and (only is None or r.split("@")[0] in only)]
        parts = dict(himpl)
        parts.update(built[name])
        rc, o, e = run_impl(parts, [impl_in[i] for i in idx], [case_rings[i] for i in idx], timeout=1500)
        iouts[name] = (idx, rc, o, e)
    ths = [threading.Thread(target=run_cfg, args=(name, only)) for name, flags, pq, pt, only, what in CONFIGS if name in built]
    for t in ths:
        t.start()
    for t in ths:
        t.join()
    idx, rc, iout, ierr = iouts["native"]
    if rc != 0 or len(iout) != len(cases):
        if rc == 124:
            chk.cov["inconclusive"] = inconclusive + ["implementation harness timed out (machine load); no verdict from the streams"]
            chk.cov["floor_missed"] = floor_missed + ["no implementation stream was evaluated: THIS RUN SAYS NOTHING ABOUT THE OPERATIONS OF /repo"]
            return chk.finish()
        chk.broke("implementation harness failed (rc=%s, %d/%d lines)" % (rc, len(iout), len(cases)), ierr[-2000:])
        return chk.finish()
    # 3b. the extracted model: one line per (case, distinct counterpart).  The counterpart of a case differs between
    # configurations only for the ModularExtended rings (branch of mul/reduce).
    mkey = {}                # model line -> output
    mline = {}               # (config, i) -> model line
    for name in iouts:
        for i in iouts[name][0]:
            ring, p, op, a = cases[i]
            ml = model_line(ring.split("@")[0], p, op, a, exbr.get(name))
            if ml is not None:
                mline[(name, i)] = ml
                mkey[ml] = None
    if drv and mkey:
        keys = list(mkey)
        rc, mo, merr = run_parallel(drv, keys, timeout=1500)
        if rc == 124:
            inconclusive.append("model driver timed out (machine load): correspondence not evaluated")
            mkey = {}
        elif rc != 0 or len(mo) != len(keys):
            chk.broke("model driver failed (rc=%s, %d/%d lines)" % (rc, len(mo), len(keys)), merr[-2000:])
            mkey = {}
        else:
            mkey = dict(zip(keys, mo))
    else:
        mkey = {}
    chk.cov["phase_seconds"]["run_impl_and_model"] = round(_t.time() - _t0, 1); _t0 = _t.time()
    # 4. three-way comparison, per configuration
    nbroke = [0]
    dist = {}
    ncmp = {}
    not_driven = {}

    def compare(name, i, got):
        ring, p, op, a = cases[i]
        if got.startswith(NOT_DRIVEN):
            not_driven[name] = not_driven.get(name, 0) + 1
            return
        if got.startswith("DOES-NOT-RETURN") or got.startswith("CRASHED"):
            case = {"ring": ring, "p": str(p), "op": op, "args": [str(x) for x in a]}
            if name != "native":
                case["config"] = name
            chk.fail_input("%s::%s" % (ring, op), "does-not-return" if got.startswith("DOES") else "crash", case,
                           "a result", got, "the call does not return within its CPU-time budget" if got.startswith("DOES") else "the call dies on a fatal signal")
            return
        case = {"ring": ring, "p": str(p), "op": op, "args": [str(x) for x in a]}
        if name != "native":
            case["config"] = name
        full_ring, ring = ring, ring.split("@")[0]        # "<ring>@<how the ring object was obtained>"
        bop = op.split(":")[0]
        cfgnote = "" if name == "native" else " [configuration %s: %s]" % (name, " ".join(dict((c[0], c[1]) for c in CONFIGS)[name]))
        exp = None
        if bop == "gcdext":
            g = math.gcd(a[0], a[1])
            t = got.split()
            sb, ss = ITY[ring.split("_")[0]]
            ok = len(t) == 3 and int(t[0]) == g and 0 <= int(t[1]) < a[1] and (int(t[1]) * a[0] - g) % a[1] == 0
            if ok and ss and abs(int(t[1]) * a[0]) < (1 << (sb - 1)):     # v = (d - u*a)/b is computed in Element
                ok = int(t[1]) * a[0] + int(t[2]) * a[1] == g
            exp = "d=%d, 0<=u<b, u*a=d (mod b), v=(d-u*a)/b when u*a fits" % g
            if not ok:
                chk.fail_input("gcdext<%s>" % ring.split("_")[0], "bezout", case, exp, got, "gcdext does not return gcd and Bezout coefficients" + cfgnote)
        else:
            e = oracle(ring, p, op, a)
            exp = None if e is None else str(e)
            if exp is not None and got != exp:
                if True:
                    chk.fail_input("%s::%s" % (full_ring, op), "p=%d" % p, case, exp, got,
                                   "implementation differs from exact arithmetic mod p"
                                   + (" (ring object obtained by %s)" % OBTAIN_MODES[full_ring.split("@")[1]] if "@" in full_ring else "")
                                   + (" (alias pattern %s)" % op.split(":")[1] if ":" in op else "") + cfgnote)
        ml = mline.get((name, i))
        if ml is not None and ml in mkey:
            ncmp[name] = ncmp.get(name, 0) + 1
            mg = mkey[ml].strip()
            if mg != got and nbroke[0] < 20 and (exp is None or got == exp or bop == "gcdext"):   # impl != oracle is already a failing input
                nbroke[0] += 1
                chk.broke("correspondence model/implementation differs on %s p=%d %s %s%s: model=%s impl=%s (model line: %s)" % (ring, p, op, a, cfgnote, mg, got, ml))
            if exp is not None and bop != "gcdext" and got == exp and mg != exp and nbroke[0] < 20:
                nbroke[0] += 1
                chk.broke("extracted model differs from the specification oracle on %s p=%d %s %s: model=%s spec=%s (model line: %s)" % (ring, p, op, a, mg, exp, ml))

    for i, (ring, p, op, a) in enumerate(cases):
        got = iout[i].strip()
        dist_key = "%s/%s" % (ring.split("@")[0], op)
        dist[dist_key] = dist.get(dist_key, 0) + 1
        chk.count((ring, p, op, tuple(a)), nontrivial=any(abs(x) > 1 for x in a))
        if i % 4999 == 0:
            chk.sample({"case": {"ring": ring, "p": str(p), "op": op, "args": [str(x) for x in a]}, "impl": got})
        compare("native", i, got)
    per_cfg = {"native": len(cases)}
    for name in iouts:
        if name == "native":
            continue
        idx, rc, o, e = iouts[name]
        if rc == 124:
            inconclusive.append("configuration %s: harness timed out (machine load); stream not evaluated" % name)
            continue
        if rc != 0 or len(o) != len(idx):
            chk.broke("implementation harness of configuration %s failed (rc=%s, %d/%d lines)" % (name, rc, len(o), len(idx)), e[-2000:])
            continue
        per_cfg[name] = len(idx)
        for i, l in zip(idx, o):
            compare(name, i, l.strip())
    for n_, v_ in not_driven.items():
        per_cfg[n_] = per_cfg.get(n_, 0) - v_          # a case that was not driven is not a comparison
    if not_driven or HANG_STATE["stopped"]:
        chk.cov["hang_handling"] = {"cases_not_driven": not_driven, "forms_not_driven_any_more": {"%s::%s" % f: w for f, w in HANG_STATE["dead_forms"].items()},
                                    "streams_stopped": HANG_STATE["stopped"], "first_stage_overruns": HANG_STATE["overruns"],
                                    "confirmed": HANG_STATE["confirmed"], "budgets_cpu_s": [STAGE1_CPU_S, CONFIRM_CPU_S]}
        floor_missed.append("cases not driven because a call form does not return / crashes: %s" % not_driven)
    chk.cov["cases_per_configuration"] = per_cfg
    chk.cov["moduli_for_results_landing_on_the_modulus"] = landing_rec
    chk.cov["model_comparisons_per_configuration"] = ncmp
    # floors: what must have been compared for this run to count as a run (tooling problems below are recorded prominently,
    # they are neither a pass nor a violation)
    floors = {"oracle_comparisons_native": 300000 if quick else 1000000, "model_comparisons_native": 250000 if quick else 800000,
              "oracle_comparisons_per_other_configuration": 10000, "configurations_driven": len(CONFIGS)} if not replay else {}
    got_fl = {"oracle_comparisons_native": per_cfg.get("native", 0), "model_comparisons_native": ncmp.get("native", 0),
              "oracle_comparisons_per_other_configuration": min([v for k, v in per_cfg.items() if k != "native"] or [0]),
              "configurations_driven": len(per_cfg)}
    for k, v in floors.items():
        if got_fl[k] < v:
            floor_missed.append("%s: %d < floor %d" % (k, got_fl[k], v))
    chk.cov["floors"] = {"required": floors, "reached": got_fl}
    if HANGS:
        chk.cov["cases_that_did_not_return_within_the_cpu_budget"] = [{"case": c, "after_rerun_with_5x_budget": a} for c, a in HANGS[:20]]
    if floor_missed:
        chk.cov["floor_missed"] = floor_missed
    if inconclusive:
        chk.cov["inconclusive"] = inconclusive
    if os.environ.get("C03_DEBUG"):
        import collections
        cc = collections.Counter((f["site"].split("::")[0], f["site"].split("::")[-1]) for f in chk.failing)
        for k, v in sorted(cc.items()):
            vf.log("FAIL", k, v)
        seen = set()
        for f in chk.failing:
            if f["site"] not in seen:
                seen.add(f["site"]); vf.log("  e.g.", f["site"], f["case"], "exp", f["expected"], "got", f["observed"])
    chk.cov["phase_seconds"]["compare"] = round(_t.time() - _t0, 1)
    chk.cov["rule"] = ("every ring type (54) x moduli {min..min+2, max-2..max, prevprime(max), 2^k, 2^k+-1, sqrt(max)+-1, random} "
                       "(Log16: primes) x every call form x operands {0,1,lo,hi,p/2,p/2+-1,sqrt p,random} incl. the corner triples "
                       "(hi,hi,hi),(hi,hi,0),(lo,lo,hi) and directed pairs with a*b = +-s (mod p), s small, large quotient "
                       "(boundary of every quotient estimate / correction step; ModularExtended: 24+ such pairs at the maximum, at "
                       "2^k-c and at random large moduli on every run); every way of obtaining the ring object (6) and every alias "
                       "pattern of every operation; constants; reduce on storage-type extremes; mul_precomp only inside its documented "
                       "bitsize precondition; every stream repeated in every compile configuration (see 'configurations'); "
                       "non-trivial = some |operand| > 1; distinct = (ring,p,op,operands)")
    chk.cov["traces_validated_against_impl"] = sum(ncmp.values())
    chk.cov["rings"] = len(ALL_RINGS)
    byring = {}
    bymode = {}
    byalias = {}
    for ring, p, op, a in cases:
        byring[ring.split("@")[0]] = byring.get(ring.split("@")[0], 0) + 1
        m = ring.split("@")[1] if "@" in ring else "constructor"
        bymode[m] = bymode.get(m, 0) + 1
        al = op.split(":")[1] if ":" in op else "distinct objects"
        byalias[al] = byalias.get(al, 0) + 1
    chk.cov["distribution_by_way_of_obtaining_the_ring"] = bymode
    chk.cov["distribution_by_alias_pattern"] = byalias
    chk.cov["distribution_by_ring"] = byring
    byop = {}
    for ring, p, op, a in cases:
        byop[op] = byop.get(op, 0) + 1
    chk.cov["distribution_by_op"] = byop
    chk.cov["call_forms"] = {"forms": len(dist), "min_cases_per_form": min(dist.values()) if dist else 0,
                             "per_ring_and_form": dist if not quick or len(dist) < 4000 else "omitted"}
    return chk.finish()
