# C04 — init/convert implement the canonical map Z -> Z/m for every source type.   (DESIGN 5/C04)
# proof:  coq/C04 (Gallina model of every init overload body, written after the code with explicit C semantics;
#         theorems for all source values and all admissible moduli)
# tie:    correspondence: extracted model vs init/convert of /repo's current headers (harness/c04_init.C)
# search: python big-integer specification oracle (x mod m, balanced representative, Montgomery image) on the same cases
import os, re, sys
from concurrent.futures import ThreadPoolExecutor
import vf

AREA = "C04"

# ------------------------------------------------------------------ ring families
# name -> dict(kind, elt (storage C type), note)
#   kind: "mod"  canonical representative in [0,p)          raw = x mod p
#         "bal"  balanced representative                     raw in [halfp-p+1, halfp]
#         "mont" Montgomery image                            raw = x*2^16 mod p
#         "tab"  table fields (Log16, GFqDom)                raw is a discrete log: only convert is compared with the oracle
RINGS = {
    "mi8": ("mod", "i8"), "mu8": ("mod", "u8"), "mi16": ("mod", "i16"), "mu16": ("mod", "u16"),
    "mi32": ("mod", "i32"), "mu32": ("mod", "u32"), "mi64": ("mod", "i64"), "mu64": ("mod", "u64"),
    "mi8w": ("mod", "i8"), "mu8w": ("mod", "u8"), "mi16w": ("mod", "i16"), "mu16w": ("mod", "u16"),
    "mi32w": ("mod", "i32"), "mu32w": ("mod", "u32"), "mi64w": ("mod", "i64"), "mu64w": ("mod", "u64"),
    "mf": ("mod", "f"), "md": ("mod", "d"), "mfd": ("mod", "f"),
    "bd": ("bal", "d"), "bf": ("bal", "f"), "bi32": ("bal", "i32"), "bi64": ("bal", "i64"),
    "ef": ("mod", "f"), "ed": ("mod", "d"),
    "log16": ("tab", "i16"), "mont32": ("mont", "u32"),
    "mI": ("mod", "I"), "mru7": ("mod", "ru7"), "mru67": ("mod", "ru6"),
    "gfq32": ("tab", "i32"), "gfq64": ("tab", "i64"),
}
RING_CXX = {
    "mi8": "Modular<int8_t>", "mu8": "Modular<uint8_t>", "mi16": "Modular<int16_t>", "mu16": "Modular<uint16_t>",
    "mi32": "Modular<int32_t>", "mu32": "Modular<uint32_t>", "mi64": "Modular<int64_t>", "mu64": "Modular<uint64_t>",
    "mi8w": "Modular<int8_t,int16_t>", "mu8w": "Modular<uint8_t,uint16_t>", "mi16w": "Modular<int16_t,int32_t>",
    "mu16w": "Modular<uint16_t,uint32_t>", "mi32w": "Modular<int32_t,int64_t>", "mu32w": "Modular<uint32_t,uint64_t>",
    "mi64w": "Modular<int64_t,__int128>", "mu64w": "Modular<uint64_t,unsigned __int128>",
    "mf": "Modular<float>", "md": "Modular<double>", "mfd": "Modular<float,double>",
    "bd": "ModularBalanced<double>", "bf": "ModularBalanced<float>", "bi32": "ModularBalanced<int32_t>",
    "bi64": "ModularBalanced<int64_t>", "ef": "ModularExtended<float>", "ed": "ModularExtended<double>",
    "log16": "Modular<Log16>", "mont32": "Montgomery<int32_t>", "mI": "Modular<Integer>",
    "mru7": "Modular<ruint<7>>", "mru67": "Modular<ruint<6>,ruint<7>>", "gfq32": "GFqDom<int32_t>", "gfq64": "GFqDom<int64_t>",
}
SRC_RANGE = {
    "i8": (-2**7, 2**7 - 1), "u8": (0, 2**8 - 1), "i16": (-2**15, 2**15 - 1), "u16": (0, 2**16 - 1),
    "i32": (-2**31, 2**31 - 1), "u32": (0, 2**32 - 1), "i64": (-2**63, 2**63 - 1), "u64": (0, 2**64 - 1),
    "ru6": (0, 2**64 - 1), "ru7": (0, 2**128 - 1), "ri6": (-2**63, 2**63 - 1), "ri7": (-2**127, 2**127 - 1),
}
SRC_CXX = {"i8": "int8_t", "u8": "uint8_t", "i16": "int16_t", "u16": "uint16_t", "i32": "int32_t", "u32": "uint32_t",
           "i64": "int64_t", "u64": "uint64_t", "f": "float", "d": "double", "I": "Integer",
           "ru6": "ruint<6>", "ru7": "ruint<7>", "ri6": "rint<6>", "ri7": "rint<7>"}
MAIN_SRCS = ["i32", "u32", "i64", "u64", "f", "d", "I"]
EXTRA_SRCS = ["i8", "u8", "i16", "u16", "ru6", "ru7", "ri6", "ri7"]


# ------------------------------------------------------------------ small number theory (moduli)
def is_prime(n):
    if n < 2:
        return False
    for q in (2, 3, 5, 7, 11, 13, 17, 19, 23, 29, 31, 37):
        if n % q == 0:
            return n == q
    d, s = n - 1, 0
    while d % 2 == 0:
        d //= 2; s += 1
    for a in (2, 3, 5, 7, 11, 13, 17, 19, 23, 29, 31, 37):
        x = pow(a, d, n)
        if x in (1, n - 1):
            continue
        for _ in range(s - 1):
            x = x * x % n
            if x == n - 1:
                break
        else:
            return False
    return True


def prevprime(n):
    n -= 1
    while n >= 2 and not is_prime(n):
        n -= 1
    return n


def nextprime(n):
    n += 1
    while not is_prime(n):
        n += 1
    return n


def float_representable(x, prec):
    """is the integer x exactly representable with a prec-bit significand (exponent range is not an issue here)"""
    if x == 0:
        return True
    a = abs(x)
    return (a >> max(0, a.bit_length() - prec)) << max(0, a.bit_length() - prec) == a


def round_to_float(x, prec):
    """some representable integer near x (truncate the low bits)"""
    a = abs(x)
    sh = max(0, a.bit_length() - prec)
    a = (a >> sh) << sh
    return a if x >= 0 else -a


# ------------------------------------------------------------------ moduli and source values
def moduli(ring, lo, hi, rng, tier):
    """admissible moduli aimed at the boundaries: 2,3, small, max, max-1, primes near max, powers of two +-1"""
    kind, elt = RINGS[ring]
    want = {2, 3, 4, 5, 7, 13, 101, 256, 257, hi, hi - 1, hi - 2, hi // 2, hi // 2 + 1, prevprime(hi + 1), prevprime(prevprime(hi + 1))}
    for b in (7, 8, 15, 16, 24, 31, 32, 53, 63):
        want |= {2**b - 1, 2**b, 2**b + 1, prevprime(2**b), nextprime(2**b)}
    for _ in range(2 if tier == "quick" else 12):
        want.add(rng.range(lo, hi)); want.add(rng.range(lo, min(hi, 70000)))
    ms = sorted(m for m in want if lo <= m <= hi)
    if ring in ("log16",):                     # table over Z/p: p prime
        ms = sorted({m for m in ms if is_prime(m)} | {prevprime(hi + 1)})
    if ring == "mont32":                       # B = 2^16 must be invertible mod p
        ms = [m for m in ms if m % 2 == 1]
    if len(ms) > (14 if tier == "quick" else 40):
        keep = set(ms[:5]) | set(ms[-6:])
        rest = [m for m in ms if m not in keep]
        rng.shuffle(rest)
        ms = sorted(keep | set(rest[:(3 if tier == "quick" else 29)]))
    return ms


GFQ_FIELDS = {"gfq32": [(2, 1), (3, 1), (5, 1), (101, 1), (65521, 1), (2, 2), (2, 8), (3, 3), (5, 2), (7, 3), (2, 16), (251, 2), (13, 4)],
              "gfq64": [(2, 1), (3, 1), (101, 1), (65537, 1), (1048573, 1), (2, 3), (3, 5), (5, 3), (2, 20), (1021, 2)]}


def values(src, m, rng, n_random):
    """source values aimed at every case split: 0, +-1, m-1, m, m+1, -m, multiples of m, type limits, 2^53+-1, huge"""
    base = {0, 1, -1, 2, -2, m - 1, m, m + 1, -m, -m + 1, -m - 1, 2 * m, 2 * m + 1, -2 * m, 3 * m - 1, m // 2, m // 2 + 1, -(m // 2), -(m // 2) - 1,
            m * m, m * m - 1, -m * m}
    for b in (7, 8, 15, 16, 23, 24, 31, 32, 52, 53, 62, 63, 64, 65, 100, 127, 128, 200):
        for d in (-1, 0, 1):
            base.add(2**b + d); base.add(-(2**b) + d)
    for b in (31, 32, 53, 63, 64, 127, 128):
        q = (2**b) // m
        base |= {q * m, q * m - 1, q * m + 1, -q * m, -q * m + 1, (q - 1) * m + 1}
    for _ in range(n_random):
        bits = rng.choice([8, 16, 31, 32, 33, 53, 62, 63, 64, 65, 100, 128, 190])
        v = rng.bits(bits)
        base.add(v); base.add(-v)
        base.add(rng.range(-3 * m, 3 * m))
        base.add(rng.below(4 * m) * m + rng.choice([0, 1, m - 1]))
    if src in SRC_RANGE:
        lo, hi = SRC_RANGE[src]
        base |= {lo, lo + 1, hi, hi - 1, lo // 2, hi // 2, hi // 2 + 1}
        return sorted(v for v in base if lo <= v <= hi)
    if src in ("f", "d"):
        prec = 24 if src == "f" else 53
        lim = 2**127 if src == "f" else 2**1000
        out = set()
        for v in base:
            if abs(v) >= lim:
                continue
            out.add(v if float_representable(v, prec) else round_to_float(v, prec))
        return sorted(out)
    # Integer: add wide values
    for _ in range(max(2, n_random // 2)):
        v = vf.structured_int(rng, maxlimbs=5)
        base.add(v)
    base |= {2**256 + 1, -(2**256) - 1, 10**40, -(10**40)}
    return sorted(base)


# ------------------------------------------------------------------ specification oracle
def canon(ring, m, x):
    """the element the property demands: the canonical representative of x mod m in the ring's own range"""
    kind = RINGS[ring][0]
    r = x % m
    if kind == "bal":
        halfp = m // 2            # as the constructors define it: floor(p/2); range [halfp-p+1, halfp]
        return r - m if r > halfp else r
    if kind == "mont":
        return (r << 16) % m
    return r


def lift(ring, m, x):
    """the integer convert must return for the element init(x)"""
    kind = RINGS[ring][0]
    r = x % m
    if kind == "bal":
        return r - m if r > m // 2 else r
    return r


CONV_FORMS = ["I", "i64", "u64", "d", "i32", "u32"]
CONV_RANGE = {"I": None, "i64": SRC_RANGE["i64"], "u64": SRC_RANGE["u64"], "d": (-2**53, 2**53), "i32": SRC_RANGE["i32"], "u32": SRC_RANGE["u32"]}


def klass_of(src, m, x):
    """input class used as the key of known findings (never the concrete value)"""
    if src in SRC_RANGE:
        lo, hi = SRC_RANGE[src]
        if x == lo and lo < 0:
            return "type-min"
    if x < 0:
        return "negative"
    if src in ("u32", "u64", "u16", "u8") and x > SRC_RANGE[src][1] // 2:
        return "above-signed-max"
    if src == "I" and abs(x) >= 2**63:
        return "wide"
    if src in ("f", "d") and abs(x) >= 2**63:
        return "huge-float"
    if src in ("f", "d") and abs(x) >= 2**31:
        return "large-float"
    if src in ("ru6", "ru7", "ri6", "ri7"):
        return "recint"
    if x >= m:
        return "ge-m"
    return "small"


# ------------------------------------------------------------------ running the implementation
def run_impl(binary, lines, timeout=600):
    """feed lines; survive a crash of the harness: the crashing line is reported as CRASH and the rest is resumed"""
    out = []
    rest = list(lines)
    guard = 0
    while rest and guard < 40:
        guard += 1
        rc, o, err = vf.run_lines(binary, "".join(l + "\n" for l in rest), timeout=timeout)
        o = [l for l in o if not l.startswith("#")]
        if rc == 0 and len(o) == len(rest):
            out += o
            rest = []
            break
        n = min(len(o), len(rest) - 1)
        out += o[:n]
        out.append("CRASH rc=%s" % rc)
        rest = rest[n + 1:]
    out += ["CRASH guard"] * len(rest)
    return out


def main(tier, replay=None):
    chk = vf.Check("C04", tier, "proof")
    rng = vf.Rng(chk.seed)
    explore = os.environ.get("C04_EXPLORE")
    himpl, l2 = vf.build_harness("c04_init.C", link_lib=True, deps=["c04_allow.inc"])
    if himpl is None:
        chk.broke("implementation harness does not compile against /repo", l2)
        return chk.finish()
    # cardinalities are read from the implementation, not hard-coded
    rings = sorted(RINGS)
    card_out = run_impl(himpl, ["card %s - 0 0 0" % r for r in rings])
    cards = {}
    for r, l in zip(rings, card_out):
        t = l.split()
        try:
            cards[r] = (int(t[0]), int(t[1]))
        except (ValueError, IndexError):
            chk.broke("cannot read min/maxCardinality of %s: %r" % (r, l))
    chk.cov["cardinalities_from_implementation"] = {r: list(cards[r]) for r in cards}
    # ---- cases
    nrand = 6 if tier == "quick" else 60
    cases = []     # (op, ring, src, m, k, x)
    for ring in rings:
        if ring not in cards:
            continue
        lo, hi = cards[ring]
        if ring in GFQ_FIELDS:
            fields = GFQ_FIELDS[ring]
        else:
            if hi < lo:          # "no maximum" (Modular<Integer>: -1)
                hi = 2**200
            if ring == "mru7":
                pass
            fields = [(m, 1) for m in moduli(ring, lo, hi, rng, tier)]
        for (p, k) in fields:
            m = p**k
            cases.append(("const", ring, "-", p, k, 0))
            for src in MAIN_SRCS + EXTRA_SRCS:
                vals = values(src, m, rng, nrand)
                if src in EXTRA_SRCS and tier == "quick":
                    vals = vals[::3] + vals[-2:]
                for x in vals:
                    cases.append(("init", ring, src, p, k, x))
                if src in ("i64", "I", "d"):
                    for x in vals[::4]:
                        cases.append(("rt", ring, src, p, k, x))
    by_ring = {}
    for c in cases:
        by_ring.setdefault(c[1], []).append(c)

    def run_ring(ring):
        cs = by_ring[ring]
        return ring, run_impl(himpl, ["%s %s %s %d %d %d" % c for c in cs])
    with ThreadPoolExecutor(max_workers=vf.NCPU) as ex:
        results = dict(ex.map(run_ring, sorted(by_ring)))
    # ---- comparison with the specification oracle
    dist = {}
    for ring in sorted(by_ring):
        kind, elt = RINGS[ring]
        for c, line in zip(by_ring[ring], results[ring]):
            op, _, src, p, k, x = c
            m = p**k
            t = line.split()
            site = "%s::init(%s)" % (RING_CXX[ring], SRC_CXX.get(src, src)) if op != "const" else "%s::constants" % RING_CXX[ring]
            if line == "NOFORM":
                continue
            dist[(ring, src, op)] = dist.get((ring, src, op), 0) + 1
            chk.count((op, ring, src, p, k, x), nontrivial=(abs(x) >= m or x < 0))
            case = {"op": op, "ring": ring, "src": src, "p": p, "k": k, "x": str(x)}
            kl = klass_of(src, m, x) if op != "const" else "constants"
            if line.startswith("CRASH") or line.startswith("BAD"):
                chk.fail_input(site, kl, case, "a result", line, "harness crashed / refused on this input")
                continue
            if op == "init":
                want_raw = canon(ring, m, x)
                want_lift = lift(ring, m, x)
                if kind != "tab" and t[0] != str(want_raw):
                    chk.fail_input(site, kl, case, str(want_raw), t[0], "init does not produce the canonical element of x mod m")
                    continue
                for form, got in zip(CONV_FORMS, t[1:]):
                    if got == "-":
                        continue
                    rg = CONV_RANGE[form]
                    if rg is not None and not (rg[0] <= want_lift <= rg[1]):
                        continue        # the lift does not fit the target type: outside the claim
                    if got != str(want_lift):
                        chk.fail_input("%s::convert(%s)" % (RING_CXX[ring], form), kl, case, str(want_lift), got,
                                       "convert(init(x)) is not the canonical lift of x mod m")
                        break
            elif op == "rt":
                for got in t[1:]:
                    if got != t[0]:
                        chk.fail_input(site + "/roundtrip", kl, case, t[0], got, "init(convert(e)) != e")
                        break
            elif op == "const":
                want = [canon(ring, m, 0), canon(ring, m, 1), canon(ring, m, -1)]
                if kind != "tab":
                    for nm, w, g in zip(("zero", "one", "mOne"), want, t[:3]):
                        if str(w) != g:
                            chk.fail_input(site, "constants", case, str(w), g, "%s is not the image of %s" % (nm, {"zero": 0, "one": 1, "mOne": -1}[nm]))
                wl = [lift(ring, m, 0), lift(ring, m, 1), lift(ring, m, -1)]
                for nm, w, g in zip(("zero", "one", "mOne"), wl, t[3:6]):
                    if g != "-" and str(w) != g:
                        chk.fail_input(site, "constants", case, str(w), g, "convert(%s) is not the lift" % nm)
                if t[6] != t[2]:
                    chk.fail_input(site, "constants", case, t[2], t[6], "init(-1) != mOne")
                if t[7] != t[0]:
                    chk.fail_input(site, "constants", case, t[0], t[7], "init() != zero")
    if explore:
        agg = {}
        for f in chk.failing:
            key = (f["site"], f["klass"])
            agg.setdefault(key, []).append(f)
        for key in sorted(agg):
            f = agg[key][0]
            print("%-60s %-18s n=%-5d e.g. p=%s k=%s x=%s want=%s got=%s" % (key[0], key[1], len(agg[key]), f["case"]["p"], f["case"]["k"], f["case"]["x"], f["expected"], f["observed"]))
        print("cases", len(cases), "failing", len(chk.failing))
        return 0
    chk.cov["rule"] = "every ring family x every source type x boundary moduli x boundary values; non-trivial = x<0 or |x|>=m"
    return chk.finish()
