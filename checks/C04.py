# C04 — init/convert implement the canonical map Z -> Z/m for every source type.   (DESIGN 5/C04)
# proof:  coq/C04 (Gallina model of every init overload family, written after the code with explicit C conversions;
#         theorems for all source values and all admissible moduli)
# tie:    correspondence: extracted model vs init/convert of /repo's current headers (harness/c04_init.C)
# search: python big-integer specification oracle (x mod m, balanced representative, Montgomery image) on the same cases
import os, re, sys, json
from concurrent.futures import ThreadPoolExecutor
import vf

AREA = "C04"
N_THEOREMS = 45          # theorems in coq/C04/Properties.v (a smaller number discharged = floor missed)

# ------------------------------------------------------------------ ring families
# name -> (kind, element type)
#   kind: "mod"  canonical representative in [0,p)          raw = x mod p
#         "bal"  balanced representative                     raw in [halfp-p+1, halfp]
#         "mont" Montgomery image                            raw = x*2^16 mod p
#         "tab"  table fields (Log16, GFqDom)                raw is a discrete log: only convert is compared with the oracle
RINGS = {
    "mi8": ("mod", "i8"), "mu8": ("mod", "u8"), "mi16": ("mod", "i16"), "mu16": ("mod", "u16"),
    "mi32": ("mod", "i32"), "mu32": ("mod", "u32"), "mi64": ("mod", "i64"), "mu64": ("mod", "u64"),
    "mi8w": ("mod", "i8"), "mu8w": ("mod", "u8"), "mi16w": ("mod", "i16"), "mu16w": ("mod", "u16"),
    "mi32w": ("mod", "i32"), "mu32w": ("mod", "u32"), "mi64w": ("mod", "i64"), "mu64w": ("mod", "u64"),
    "mf": ("mod", "f"), "md": ("mod", "d"), "mfd": ("mod", "f"),
    "bd": ("bal", "d"), "bf": ("bal", "f"), "bi32": ("bal", "i32"), "bi64": ("bal", "i64"),
    "ef": ("mod", "f"), "ed": ("mod", "d"),
    "log16": ("tab", "i16"), "mont32": ("mont", "u32"),
    "mI": ("mod", "I"), "mru7": ("mod", "ru7"), "mru67": ("mod", "ru6"),
    "gfq32": ("tab", "i32"), "gfq64": ("tab", "i64"),
    # Montgomery<ruint<K>>: the stored element is the Montgomery image a*2^(2^K) mod p, an opaque representation here: like the table rings
    # only convert / the round trips / the predicates are compared with the oracle (no model: NOMODEL)
    "mgru6": ("tab", "ru6"), "mgru7": ("tab", "ru7"),
}
RING_CXX = {
    "mi8": "Modular<int8_t>", "mu8": "Modular<uint8_t>", "mi16": "Modular<int16_t>", "mu16": "Modular<uint16_t>",
    "mi32": "Modular<int32_t>", "mu32": "Modular<uint32_t>", "mi64": "Modular<int64_t>", "mu64": "Modular<uint64_t>",
    "mi8w": "Modular<int8_t,int16_t>", "mu8w": "Modular<uint8_t,uint16_t>", "mi16w": "Modular<int16_t,int32_t>",
    "mu16w": "Modular<uint16_t,uint32_t>", "mi32w": "Modular<int32_t,int64_t>", "mu32w": "Modular<uint32_t,uint64_t>",
    "mi64w": "Modular<int64_t,__int128>", "mu64w": "Modular<uint64_t,unsigned __int128>",
    "mf": "Modular<float>", "md": "Modular<double>", "mfd": "Modular<float,double>",
    "bd": "ModularBalanced<double>", "bf": "ModularBalanced<float>", "bi32": "ModularBalanced<int32_t>",
    "bi64": "ModularBalanced<int64_t>", "ef": "ModularExtended<float>", "ed": "ModularExtended<double>",
    "log16": "Modular<Log16>", "mont32": "Montgomery<int32_t>", "mI": "Modular<Integer>",
    "mru7": "Modular<ruint<7>>", "mru67": "Modular<ruint<6>,ruint<7>>", "gfq32": "GFqDom<int32_t>", "gfq64": "GFqDom<int64_t>",
    "mgru6": "Montgomery<ruint<6>>", "mgru7": "Montgomery<ruint<7>>",
}
SRC_RANGE = {
    "i8": (-2**7, 2**7 - 1), "u8": (0, 2**8 - 1), "i16": (-2**15, 2**15 - 1), "u16": (0, 2**16 - 1),
    "i32": (-2**31, 2**31 - 1), "u32": (0, 2**32 - 1), "i64": (-2**63, 2**63 - 1), "u64": (0, 2**64 - 1),
    "ll": (-2**63, 2**63 - 1), "ull": (0, 2**64 - 1),
    "ru6": (0, 2**64 - 1), "ru7": (0, 2**128 - 1), "ri6": (-2**63, 2**63 - 1), "ri7": (-2**127, 2**127 - 1),
}
SRC_CXX = {"i8": "int8_t", "u8": "uint8_t", "i16": "int16_t", "u16": "uint16_t", "i32": "int32_t", "u32": "uint32_t",
           "i64": "int64_t", "u64": "uint64_t", "ll": "long long", "ull": "unsigned long long", "f": "float", "d": "double", "I": "Integer",
           "ru6": "ruint<6>", "ru7": "ruint<7>", "ri6": "rint<6>", "ri7": "rint<7>"}
MAIN_SRCS = ["i32", "u32", "i64", "u64", "ll", "ull", "f", "d", "I"]
PARTS = [["mi8", "mu8", "mi16", "mu16"], ["mi32", "mu32", "mi64", "mu64"], ["mi8w", "mu8w", "mi16w", "mu16w"], ["mi32w", "mu32w", "mi64w", "mu64w"],
         ["mf", "md", "mfd", "bd", "bf"], ["bi32", "bi64", "ef", "ed"], ["log16", "mont32", "mI", "gfq32", "gfq64"], ["mru7", "mru67", "mgru6", "mgru7"]]
PART_OF = {r: i for i, rs in enumerate(PARTS) for r in rs}
SMALL_SRCS = ["i8", "u8", "i16", "u16"]
RECINT_SRCS = ["ru6", "ru7", "ri6", "ri7"]
ELT_RANGE = dict(SRC_RANGE, f=(-2**24, 2**24), d=(-2**53, 2**53))


# ------------------------------------------------------------------ small number theory (moduli)
def is_prime(n):
    if n < 2:
        return False
    for q in (2, 3, 5, 7, 11, 13, 17, 19, 23, 29, 31, 37):
        if n % q == 0:
            return n == q
    d, s = n - 1, 0
    while d % 2 == 0:
        d //= 2; s += 1
    for a in (2, 3, 5, 7, 11, 13, 17, 19, 23, 29, 31, 37):
        x = pow(a, d, n)
        if x in (1, n - 1):
            continue
        for _ in range(s - 1):
            x = x * x % n
            if x == n - 1:
                break
        else:
            return False
    return True


def prevprime(n):
    n -= 1
    while n >= 2 and not is_prime(n):
        n -= 1
    return n


def nextprime(n):
    n += 1
    while not is_prime(n):
        n += 1
    return n


def float_representable(x, prec):
    """is the integer x exactly representable with a prec-bit significand (exponent range is not an issue here)"""
    if x == 0:
        return True
    a = abs(x)
    sh = max(0, a.bit_length() - prec)
    return (a >> sh) << sh == a


def round_to_float(x, prec):
    """some representable integer near x (truncate the low bits)"""
    a = abs(x)
    sh = max(0, a.bit_length() - prec)
    a = (a >> sh) << sh
    return a if x >= 0 else -a


# ------------------------------------------------------------------ moduli and source values
def moduli(ring, lo, hi, rng, tier):
    """admissible moduli aimed at the boundaries: 2,3, small, max, max-1, primes near max, powers of two +-1"""
    want = {lo, lo + 1, 4, 5, 7, 13, 101, 256, 257, hi, hi - 1, hi // 2, hi // 2 + 1, prevprime(hi + 1)}
    for b in (7, 8, 15, 16, 24, 31, 32, 53, 63):
        want |= {2**b - 1, 2**b, 2**b + 1, prevprime(2**b), nextprime(2**b)}
    for _ in range(2 if tier == "quick" else 12):
        want.add(rng.range(lo, hi)); want.add(rng.range(lo, min(hi, 70000)))
    ms = sorted(m for m in want if lo <= m <= hi)
    if ring == "log16":                        # table over Z/p: p prime
        ms = sorted({m for m in ms if is_prime(m)} | {prevprime(hi + 1)})
    if ring in ("mont32", "mgru6", "mgru7"):   # B must be invertible mod p
        ms = [m for m in ms if m % 2 == 1 and m >= 3]
    nkeep = 9 if tier == "quick" else 30
    if len(ms) > nkeep:
        keep = set(ms[:3]) | set(ms[-3:])
        rest = [m for m in ms if m not in keep]
        rng.shuffle(rest)
        ms = sorted(keep | set(rest[:nkeep - 6]))
    return ms


GFQ_FIELDS = {"gfq32": [(2, 1), (3, 1), (101, 1), (65521, 1), (2, 2), (2, 8), (3, 3), (7, 3), (2, 16), (251, 2)],
              "gfq64": [(2, 1), (3, 1), (65537, 1), (1048573, 1), (2, 3), (3, 5), (2, 20), (1021, 2)]}
GFQ_QUICK = {"gfq32": [(2, 1), (3, 1), (65521, 1), (2, 8), (3, 3), (251, 2)], "gfq64": [(2, 1), (3, 1), (1048573, 1), (3, 5), (1021, 2)]}


def values(src, m, rng, n_random, quick):
    """source values aimed at every case split: 0, +-1, m-1, m, m+1, -m, multiples of m, type limits, 2^24/2^53 +-1, huge"""
    base = {0, 1, -1, 2, -2, m - 1, m, m + 1, -m, -m + 1, -m - 1, 2 * m, -2 * m, 3 * m - 1, m // 2, m // 2 + 1, -(m // 2), -(m // 2) - 1,
            m * m - 1, -m * m}
    bs = (7, 8, 15, 16, 24, 31, 32, 53, 63, 64, 128) if quick else (7, 8, 15, 16, 23, 24, 31, 32, 52, 53, 62, 63, 64, 65, 100, 127, 128, 200)
    for b in bs:
        for d in (-1, 0, 1):
            base.add(2**b + d); base.add(-(2**b) + d)
    for b in (31, 32, 53, 63, 64, 128):
        q = (2**b) // m
        base |= {q * m, q * m - 1, -q * m, -q * m + 1}
    for _ in range(n_random):
        bits = rng.choice([8, 16, 31, 32, 33, 53, 62, 63, 64, 65, 100, 128, 190])
        v = rng.bits(bits)
        base.add(v); base.add(-v)
        base.add(rng.range(-3 * m, 3 * m))
        base.add(rng.below(4 * m) * m + rng.choice([0, 1, m - 1]))
        base.add(-(rng.below(1 << rng.choice([10, 31, 62, 90])) * m))
    if src in SRC_RANGE:
        lo, hi = SRC_RANGE[src]
        base |= {lo, lo + 1, hi, hi - 1, lo // 2, hi // 2, hi // 2 + 1}
        return sorted(v for v in base if lo <= v <= hi)
    if src in ("f", "d"):
        prec = 24 if src == "f" else 53
        lim = 2**127 if src == "f" else 2**1000
        out = set()
        for v in base:
            if abs(v) >= lim:
                continue
            out.add(v if float_representable(v, prec) else round_to_float(v, prec))
        return sorted(out)
    # Integer: add wide values
    for _ in range(max(2, n_random // 2)):
        base.add(vf.structured_int(rng, maxlimbs=5))
    base |= {2**256 + 1, -(2**256) - 1, 10**40, -(10**40)}
    return sorted(base)


# ------------------------------------------------------------------ multiples of the modulus (deterministic: no seed, no luck)
# Every ring x every source type x many moduli (composite ones, powers of two, maxCardinality, maxCardinality-1, ...) x the
# values k*m, k*m+-1 for small and large |k| of both signs.  A correction tail (`if (a >= _p) a -= _p`, NORMALISE, `if (p <= r)`)
# that is one comparison off shows only for a value whose intermediate result is EXACTLY the bound, and which value that is may
# depend on rounding (ModularExtended: quotient estimate with the rounded 1/p), so the class is enumerated, not sampled.
KP_MODULI = [2, 3, 4, 6, 9, 15, 49, 64, 75, 121, 255, 1000, 1024, 4093, 32749, 32768, 65521, 65536, 2**20, 10**6 + 3, 2**24, 2**24 + 1,
             2**31 - 1, 2**31, 2**32, 3 * 2**40, 2**50 - 27, 2**53, 2**62, 2**63, 10**30, 2**100]
KP_MUST = (49, 75, 32749)
KP_SMALL_K = (1, 2, 3, 4, 5, 7, 8, 16, 30, 31, 40)


def kp_moduli(ring, lo, hi, extra=()):
    want = set(KP_MODULI) | {lo, lo + 1, hi, hi - 1, hi - 2, hi // 2, 1 << (hi.bit_length() - 1)} | set(extra)
    ms = sorted(m for m in want if lo <= m <= hi)
    if ring == "log16":
        ms = sorted({prevprime(m + 1) for m in ms if m >= 2})
    if ring in ("mont32", "mgru6", "mgru7"):
        ms = sorted({m if m % 2 else m - 1 for m in ms if m >= 3})
    must = [m for m in ms if m in KP_MUST or m in extra or m >= hi - 2 or m == lo or m == 1 << (hi.bit_length() - 1)]
    rest = [m for m in ms if m not in must]
    room = max(0, 11 - len(must))
    if len(rest) > room:                            # spread evenly over the magnitudes (deterministic)
        rest = [rest[(i * len(rest)) // room] for i in range(room)] if room else []
    return sorted(set(must) | set(rest))


def kp_values(src, m, rot, small_k=None):
    """k*m, k*m+-1 for small and large |k|, both signs, restricted to what the source type represents exactly"""
    small = list(small_k) if small_k else [1, 2] + [KP_SMALL_K[2 + (rot + j) % (len(KP_SMALL_K) - 2)] for j in (0, 4)]
    out = set()
    if src in ("f", "d"):
        prec = 24 if src == "f" else 53
        top = 126 if src == "f" else 300
        for k in small:
            for d in (-1, 0, 1):
                for sg in (1, -1):
                    v = sg * k * m + d
                    out.add(v if float_representable(v, prec) else round_to_float(v, prec))
        mr = round_to_float(m, prec)              # (== m when the modulus is representable in the source type)
        for j in sorted({max(0, prec - mr.bit_length() - 1), prec - 1, 64 - mr.bit_length(), top - mr.bit_length()}):
            if j < 0 or (mr << j).bit_length() > top + 1:
                continue
            for c in (1, 3):
                v = (c * mr) << j
                if not float_representable(v, prec) or v.bit_length() > top + 1:
                    continue
                ulp = 1 << max(0, v.bit_length() - prec)
                out |= {v, -v, v + ulp, v - ulp, -v + ulp, -v - ulp}
        return sorted(v for v in out if float_representable(v, prec) and abs(v) < 2**(top + 1))
    if src in SRC_RANGE:
        lo, hi = SRC_RANGE[src]
    else:
        lo, hi = -2**200, 2**200
    for sg, bound in ((1, hi), (-1, -lo)):
        kmax = bound // m
        ks = set(small) | {kmax, kmax - 1}
        for b in (31, 53, 64):
            if 2**b <= bound // 2:
                ks.add(2**b // m + 1 if rot % 2 else 2**b // m)
        for k in ks:
            if k >= 1:
                for d in (-1, 0, 1):
                    out.add(sg * k * m + d)
    return sorted(v for v in out if lo <= v <= hi)


# --- ModularExtended: the in-place `reduce` behind the generic init is  q = floor(rn(a * rn(1/p)));  a = fma(-q, p, a);
#     if (a >= p) a -= p; else if (a < 0) a += p.   An independent re-computation (exact rationals) of the value that reaches
#     the correction tail, used ONLY to pick the inputs: those with a - q*p == p exactly, > p, < 0.
from fractions import Fraction


def rn_frac(x, prec):
    """round the rational x to a prec-bit significand, to nearest, ties to even"""
    if x == 0:
        return Fraction(0)
    sgn = 1 if x > 0 else -1
    x = abs(x)
    e = x.numerator.bit_length() - x.denominator.bit_length() - prec
    two = Fraction(2)
    while x / two**e >= 2**prec:
        e += 1
    while x / two**e < 2**(prec - 1):
        e -= 1
    y = x / two**e
    mnt = y.numerator // y.denominator
    f = y - mnt
    if f > Fraction(1, 2) or (f == Fraction(1, 2) and mnt % 2 == 1):
        mnt += 1
    return sgn * mnt * two**e


_INVP = {}


def ext_tail_value(prec, p, a):
    """the value a - q*p that ModularExtended::reduce hands to its correction tail (a exactly representable)"""
    key = (prec, p)
    if key not in _INVP:
        _INVP[key] = rn_frac(Fraction(1, p), prec)
    t = rn_frac(a * _INVP[key], prec)
    q = t.numerator // t.denominator
    return a - q * p


def ext_tail_class(prec, p, a):
    r = ext_tail_value(prec, p, a)
    return "tail==p" if r == p else "tail>p" if r > p else "tail<0" if r < 0 else "no-correction"


def ext_generic_sources(ring):
    """source types that reach the generic Caster + reduce template of ModularExtended (no exact specialisation)"""
    if ring == "ed":
        return ["i8", "u8", "i16", "u16", "i32", "u32", "ll", "ull"]
    return ["i8", "u8", "i16", "u16", "ll", "ull"]


def ext_special_moduli(prec, lo, hi):
    """moduli, at several magnitudes, whose rounded inverse makes the quotient estimate of the multiple p itself (resp. of
    -k*p, small k) one too small: reduce then reaches its tail with exactly p"""
    out = []
    for base in [5, 40] + [7 * 2**(j - 3) for j in (8, 10, 12, 15, 16, 20, 21, 30, 40, 50)] + [hi - 300]:   # 1/p low in its binade: large relative rounding error
        pos = neg = None
        p = max(lo, base)
        while p <= hi and p < base + 400 and (pos is None or neg is None):
            if pos is None and ext_tail_value(prec, p, p) == p:
                pos = p
            if neg is None and any(ext_tail_value(prec, p, -k * p) == p for k in (1, 2, 3)):
                neg = p
            p += 1
        out += [x for x in (pos, neg) if x is not None]
    return sorted(set(out))


def ext_boundary_values(ring, src, m):
    """for a generic-path source type: the multiples (|k| <= 64 and the largest ones) and near-multiples, classified by the
    branch of the correction tail they take; every class that exists is kept (deterministic)"""
    prec = 24 if ring == "ef" else 53
    lo, hi = SRC_RANGE[src]
    lim = 2**prec - 1                               # beyond: Caster<Element>(a) rounds (known finding for long long)
    lo, hi = max(lo, -lim), min(hi, lim)
    cands = set()
    for sg, bound in ((1, hi), (-1, -lo)):
        kmax = bound // m
        ks = set(range(1, 65)) | {kmax, kmax - 1, kmax - 2, kmax // 2, kmax // 3} | {(1 << j) // m for j in range(8, prec + 1)}
        for k in ks:
            if k >= 1:
                for d in (-1, 0, 1):
                    cands.add(sg * k * m + d)
    byc = {}
    for a in sorted(v for v in cands if lo <= v <= hi):
        byc.setdefault(ext_tail_class(prec, m, a), []).append(a)
    keep = []
    for c, vs in byc.items():
        n = 40 if c == "tail==p" else 12
        step = max(1, len(vs) // n)
        keep += [(v, c) for v in vs[::step][:n]] + [(vs[-1], c)]
    return keep


# ------------------------------------------------------------------ specification oracle
def canon(ring, m, x):
    """the element the property demands: the canonical representative of x mod m in the ring's own range"""
    kind = RINGS[ring][0]
    r = x % m
    if kind == "bal":
        return r - m if r > m // 2 else r     # the constructors define _halfp = floor(p/2); range [halfp-p+1, halfp]
    if kind == "mont":
        return (r << 16) % m
    return r


def lift(ring, m, x):
    """the integer convert must return for the element init(x)"""
    r = x % m
    if RINGS[ring][0] == "bal":
        return r - m if r > m // 2 else r
    return r


CONV_FORMS = ["I", "i64", "u64", "d", "i32", "u32", "f", "i16", "u16"]
CONV_RANGE = {"I": None, "i64": SRC_RANGE["i64"], "u64": SRC_RANGE["u64"], "d": (-2**53, 2**53), "i32": SRC_RANGE["i32"], "u32": SRC_RANGE["u32"],
              "f": (-2**24, 2**24), "i16": SRC_RANGE["i16"], "u16": SRC_RANGE["u16"], "ll": SRC_RANGE["i64"], "ull": SRC_RANGE["u64"]}
RT_FORMS = ["I", "i64", "u64", "d", "i32", "u32", "f", "ll", "ull", "i16"]     # the model driver prints the first four


# ------------------------------------------------------------------ known defect domains (frag/C04.findings.json is generated from this table)
def _sbits(ring):
    return int(re.sub(r"\D", "", RINGS[ring][1]) or 0)


def _srcbits(s):
    return 64 if s in ("ll", "ull") else int(s[1:])


def _integral(ring):
    return ring[:2] in ("mi", "mu") and ring != "mI"


# /repo commits that repaired the defect (frag/C04.fix-<n>.diff); None = repair proposed, not applied yet (finding stays `known`)
FIX = {1: "964499d", 2: "6fd4ec8", 3: "0c8663a", 4: "6534350", 5: "e1cb767", 6: "3b7f5ec", 7: "d8dba27", 8: "5a5d83b", 9: "8a3f862", 10: "1bd6bf3", 11: "99e44e4", 12: "8c01dc7",
       13: "b86ac06", 14: "df009ee", 15: "e6cb1e7", 16: "d984652", 17: "ef0260c"}


_SRC_STATE = {}
# the overload-selection conditions of Modular<integral>::init that Model.mi_init (and theorem C04_integral_dispatch_every_source) encode,
# in declaration order; READ from /repo's modular-integral.h on every run and compared (whitespace-insensitive)
EXPECTED_INIT_CONDITIONS = [
    "IS_UINT(Source) && (sizeof(Source) >= sizeof(Storage_t))",
    "IS_SINT(Source) && (sizeof(Source) > sizeof(Storage_t))",
    "IS_FLOAT(Source) && IS_SINT(Storage_t)",
    "IS_FLOAT(Source) && IS_UINT(Storage_t)",
    "IS_UINT(Storage_t) &&!(IS_INT(Source) && (sizeof(Source) > sizeof(Storage_t))) &&!(IS_UINT(Source) && (sizeof(Source) == sizeof(Storage_t))) &&!IS_FLOAT(Source)",
    "IS_SINT(Storage_t) &&!(IS_INT(Source) && (sizeof(Source) > sizeof(Storage_t))) &&!(IS_UINT(Source) && (sizeof(Source) == sizeof(Storage_t))) &&!IS_FLOAT(Source)",
]


def read_init_conditions():
    """the enable_if conditions of the init overloads declared in /repo's modular-integral.h (text between the macro's `Source,` and the
    closing parenthesis that precedes `inline Element& init`)"""
    if "init_conditions" not in _SRC_STATE:
        conds = None
        try:
            txt = open(os.path.join(vf.REPO, "src/kernel/ring/modular-integral.h")).read()
            conds = [re.sub(r"\s+", "", c) for c in re.findall(r"__GIVARO_CONDITIONAL_TEMPLATE\(Source,(.*?)\)\s*inline\s+Element&\s+init", txt, re.S)]
        except OSError:
            pass
        _SRC_STATE["init_conditions"] = conds
    return _SRC_STATE["init_conditions"]


def code_site(ring, src):
    """the template / function of the SOURCE that handles this (ring, source type): findings are keyed by it, not by instantiation"""
    sb = _sbits(ring)
    isint = src in SRC_RANGE and not src.startswith("r")
    sbt = _srcbits(src) if isint else 0
    uns = isint and SRC_RANGE[src][0] == 0
    if _integral(ring):
        fam = "Modular<integral,integral> (modular-integral.inl)"
        st = "signed" if RINGS[ring][1][0] == "i" else "unsigned"
        if src == "I":
            ov = "const Integer&"
        elif isint and uns and sbt >= sb:
            ov = "unsigned Source, sizeof >= Storage_t"
        elif isint and not uns and sbt > sb:
            ov = "signed Source, sizeof > Storage_t"
        elif src in ("f", "d"):                 # (every floating source since fix-15; the label keeps its historical wording: it is a key)
            ov = "floating Source, sizeof >= Storage_t; %s storage" % st
        else:
            ov = "const Source& generic; %s storage" % st
    elif ring in ("mf", "md", "mfd"):
        fam = "Modular<floating> (modular-floating.inl)"
        fb = 32 if RINGS[ring][1] == "f" else 64
        if src == "I":
            ov = "const Integer&"
        elif isint and sbt >= fb:
            ov = ("unsigned" if uns else "signed") + " Source, sizeof >= Storage_t"
        elif src == "d" and fb == 32:
            ov = "double into float storage"
        else:
            ov = "const Source& generic"
    else:
        fam = "Montgomery<ruint<K>> (montgomery-ruint.h)" if ring in ("mgru6", "mgru7") else RING_CXX[ring]
        explicit = {"bd": ("f", "d", "i64", "u64", "I"), "bf": ("f", "d", "i32", "u32", "i64", "u64", "I"), "bi32": ("f", "d", "i64", "u64", "I"),
                    "bi64": ("f", "d", "I"), "ef": ("d", "f", "i32", "u32", "i64", "u64", "I"), "ed": ("d", "f", "i64", "u64", "I"), "mont32": ("d", "i64", "u64", "I"), "mI": (),
                    "mru7": ("I", "f", "d"), "mru67": ("I", "f", "d"), "mgru6": ("I",), "mgru7": ("I",), "gfq32": ("d", "f", "i32", "i64", "I", "u64", "u32"), "gfq64": ("d", "f", "i32", "i64", "I", "u64", "u32"),
                    "log16": ("i64", "i32", "u64", "u32", "u16", "i16", "d", "f", "I")}[ring]
        if src in explicit:
            ov = SRC_CXX[src]
        elif ring in ("gfq32", "gfq64", "log16") and src in ("i8", "u8", "i16", "u16"):
            ov = "int32_t"                      # integral promotion
        else:
            ov = "const T& generic"
    return "%s::init(%s)" % (fam, ov)


def defect_rules():
    """(klass, ring predicate, sources, input domain (ring,src,m,x)->bool, what, fix number or None); first match wins"""
    tmin = lambda r, s, m, x: x == SRC_RANGE[s][0]
    LL = ("i32", "i64", "ll")
    neg = lambda r, s, m, x: x < 0
    ge63 = lambda r, s, m, x: x >= 2**63
    return [
        ("type-min", lambda r: _integral(r), LL, lambda r, s, m, x: tmin(r, s, m, x) and _sbits(r) < _srcbits(s),
         "|y| % p is computed with -y, which overflows for the most negative value; negin() then returns p + |r| (not canonical)", 2),
        ("type-min", lambda r: r in ("mf", "mfd"), LL, tmin,
         "std::abs(a) % p overflows for the most negative value; the remainder is negative and negin() yields p + |r|", 2),
        ("type-min", lambda r: r == "ef", ("i32", "i64"), tmin,
         "std::abs(a) % p overflows for the most negative value; the remainder is negative and negin() yields p + |r|", 2),
        ("type-min", lambda r: r == "md", ("i64", "ll"), tmin,
         "std::abs(a) % p overflows for INT64_MIN; the remainder is negative and negin() yields a wrong element", 2),
        ("type-min", lambda r: r == "mont32", ("i64",), tmin,
         "std::abs(a) % p overflows for INT64_MIN; the remainder is negative and negin() yields a wrong element", 2),
        ("truncated-to-32-bits", lambda r: r == "mont32", ("ll", "ull"), lambda r, s, m, x: abs(x) >= 2**32 and x < 2**63,
         "long long / unsigned long long are not int64_t / uint64_t (long): the generic template was selected, which cast |a| to "
         "uint32_t BEFORE reducing", 6),
        ("truncated-to-32-bits", lambda r: r == "bi32", ("ll", "ull"), lambda r, s, m, x: not (-2**31 <= x < 2**31) and x < 2**63,
         "long long / unsigned long long select the generic template, which cast to int32_t BEFORE reducing", 6),
        ("rounded-before-reducing", lambda r: r == "bd", ("ll", "ull"), lambda r, s, m, x: abs(x) >= 2**53 and x < 2**63,
         "long long / unsigned long long select the generic template: Caster<double>(a) rounded values beyond 2^53 before reducing", 6),
        ("rounded-before-reducing", lambda r: r == "bf", ("ll", "ull"), lambda r, s, m, x: abs(x) >= 2**24 and x < 2**63,
         "long long / unsigned long long select the generic template: Caster<float>(a) rounded values beyond 2^24 before reducing", 6),
        ("unsigned-long-long>=2^63", lambda r: r in ("mont32", "bi32", "bd", "bf"), ("ull",), ge63,
         "the generic template converts the source to int64_t: unsigned long long values >= 2^63 wrap to negative numbers "
         "(uint64_t has its own overload, unsigned long long is a distinct type)", 9),
        ("int32_t-min-into-64-bit-unsigned-element", lambda r: r in ("mu64", "mu64w", "mru7", "mru67"), ("i32",), tmin,
         "generic init: -y overflows in int for INT32_MIN and the sign-extended value 2^64-2^31 is reduced instead of 2^31", 11),
        ("type-min", lambda r: r in ("gfq32", "gfq64"), ("i32", "i64"), tmin,
         "tr = -tr overflows; the table index _q - tr is far outside _pol2log (out-of-bounds read; crashes for int32_t)", 8),
        ("negative-Integer", lambda r: r in ("bd", "bf", "bi32", "bi64"), ("I",), neg,
         "y % _p keeps the sign of y but only NORMALISE_HI is applied: results below _mhalfp are not canonical", 1),
        ("negative-Integer", lambda r: _integral(r) and (RINGS[r][1][0] == "u" or _sbits(r) == 8), ("I",), neg,
         "the signed remainder y % _p is cast to an unsigned / 8-bit Element before the `x < 0` correction: sign lost", 4),
        ("negative-multiple-of-m", lambda r: r == "log16", ("i8", "i16", "i32", "i64", "f", "d"),
         lambda r, s, m, x: x < 0 and x % m == 0 and abs(x) < 2**63,
         "init(int64_t): r = p - 0 = p indexes _tab_value2rep one past its end", 3),
        ("unsigned-source-of-storage-width>=2^(N-1)", lambda r: _integral(r) and RINGS[r][1][0] == "i", ("u8", "u16", "u32", "u64", "ull"),
         lambda r, s, m, x: _srcbits(s) == _sbits(r) and x > SRC_RANGE[s][1] // 2,
         "an unsigned source of the storage width went through the generic Caster<Element>(y): values >= 2^(N-1) wrap to negative numbers", 5),
        ("unsigned-source-of-storage-width>=2^(N-1)", lambda r: r == "bi32", ("u32",), lambda r, s, m, x: x >= 2**31,
         "uint32_t went through the generic Caster<Element>(a): values >= 2^31 wrap to negative numbers", 6),
        ("unsigned-source-of-storage-width>=2^(N-1)", lambda r: r == "bi64", ("u64", "ull"), ge63,
         "uint64_t goes through the generic Caster<Element>(a): values >= 2^63 wrap to negative numbers", 10),
        # the remaining known defect: a modulus beyond 2^53 that is not a double is rounded by Wide(_p); only values that the wrong modulus
        # can affect are in the class (|y| below both p and double(p) is returned unchanged / corrected with the exact _p)
        ("modulus-not-representable-in-source", lambda r: r in ("mi64w", "mu64w"), ("f", "d"),
         lambda r, s, m, x: m > 2**53 and not float_representable(m, 53) and abs(x) >= min(m, int(float(m))),
         "fmod(Wide(y), Wide(_p)) with Wide = double: a modulus beyond 2^53 that is not a double is rounded, residues are taken modulo the "
         "wrong number (Modular<int64_t,__int128>, Modular<uint64_t,unsigned __int128> only)", None),
        ("modulus-not-representable-in-source", lambda r: r in ("mi32w", "mu32w"), ("f",),
         lambda r, s, m, x: not float_representable(m, 24),
         "fmod(y, float(_p)): the modulus was rounded to the floating source type, every residue was taken modulo the wrong number", 15),
        ("float-beyond-element-range", lambda r: r in ("mi64", "mi64w"), ("f",), lambda r, s, m, x: abs(x) >= 2**63,
         "generic init cast the float to int64_t before reducing: undefined for |y| >= 2^63", 15),
        ("float-beyond-element-range", lambda r: r in ("mu64", "mu64w"), ("f",), lambda r, s, m, x: abs(x) >= 2**64,
         "generic init cast |y| to uint64_t before reducing: undefined for |y| >= 2^64", 15),
        ("float-beyond-element-range", lambda r: r in ("mru7", "mru67"), ("f", "d"), lambda r, s, m, x: abs(x) >= 2**64,
         "the floating value is cast to a 64-bit word before reducing: undefined for |y| >= 2^64", 14),
        ("float-equal-2^64", lambda r: r == "gfq64", ("f", "d"), lambda r, s, m, x: abs(x) == 2**64,
         "`tr > Signed_Trait<UTT>::max()` compares with 2^64-1 rounded to 2^64: |y| = 2^64 takes the (UTT) cast (undefined)", 10),
        ("float-beyond-element-range", lambda r: r == "log16", ("f", "d"), lambda r, s, m, x: abs(x) >= 2**63,
         "init(double) is init((int64_t)i): undefined for |i| >= 2^63", 10),
        ("float-beyond-32-bits", lambda r: r == "mont32", ("f",), lambda r, s, m, x: 2**32 <= abs(x) < 2**63,
         "the generic template cast |a| to uint32_t before reducing: undefined for |a| >= 2^32", 6),
        ("float-beyond-element-range", lambda r: r == "mont32", ("f",), lambda r, s, m, x: abs(x) >= 2**63,
         "the generic template converts the float to int64_t before reducing: undefined for |a| >= 2^63", 9),
        ("negative-rint-into-floating-element", lambda r: r in ("mf", "md", "mfd", "ef", "ed"), ("ri6", "ri7"),
         lambda r, s, m, x: x < 0 and abs(x) <= recint_exact(RINGS[r][1]),
         "Caster<Element>(a) = rint<K>::operator T() = static_cast<T>(Value): for a floating T the two's-complement limb of a negative value is "
         "converted as an unsigned number (Modular<double>(101).init(x, rint<6>(-5)) gives 79, ModularExtended<double> gives -123)", 16),
        ("recint-source-wider-than-element", lambda r: not RINGS[r][1].startswith("ru") and r not in ("mI", "gfq32", "gfq64", "log16"), ("ru6", "ru7", "ri6", "ri7"),
         lambda r, s, m, x: abs(x) > recint_exact(RINGS[r][1]),
         "a RecInt source reaches the word rings through the generic Caster<Element>(a), a static_cast that keeps the low limb / narrows / rounds "
         "BEFORE the reduction: values the element type does not hold give a wrong residue", None),
        # Montgomery<ruint<K>> (montgomery-ruint.h): the three defects Modular<ruint<K>> had before fix-7 / fix-11 / fix-14
        ("type-min", lambda r: r in ("mgru6", "mgru7"), ("i32", "i64", "ll"), tmin,
         "init<T> evaluates (a < 0)? -a : a in T: the negation of INT32_MIN overflows in int (of INT64_MIN in long) and the sign-extended "
         "value is reduced (Montgomery<ruint<7>>(7).init(x, INT32_MIN) converts back to 0, expected 5)", 17),
        ("wider-than-element", lambda r: r in ("mgru6", "mgru7"), ("I",), lambda r, s, m, x: abs(x) >= 2**(128 if r == "mgru7" else 64),
         "init(const Integer&) casts |a| to ruint<K> BEFORE reducing: only the low 2^K bits of a wide Integer are kept", 17),
        ("float-beyond-element-range", lambda r: r in ("mgru6", "mgru7"), ("f", "d"), lambda r, s, m, x: abs(x) >= 2**64,
         "a double / float goes through the generic template and is cast to one 64-bit limb before reducing: undefined for |a| >= 2^64", 17),
        ("wider-than-element", lambda r: r in ("mru7", "mru67"), ("I",), lambda r, s, m, x: abs(x) >= 2**(128 if r == "mru7" else 64),
         "Caster<ruint<K>>(|a|) kept the low 2^K bits of the Integer before reducing", 7),
        ("dead-specialisation-beyond-exact-floating-range", lambda r: r == "ed", ("I", "i64", "u64", "f", "d"), lambda r, s, m, x: abs(x) >= 2**53,
         "generic init = Caster<double>(a) (rounds) + one-step FMA reduce (valid for |a| < 2^53 only); the exact int64_t/uint64_t/Integer "
         "specialisations were declared for `const T` and never selected", 12),
        ("dead-specialisation-beyond-exact-floating-range", lambda r: r == "ef", ("I", "f"), lambda r, s, m, x: abs(x) >= 2**24,
         "generic init = Caster<float>(a) (rounds, inf for wide Integers) + one-step FMA reduce (valid for |a| < 2^24 only); the "
         "`const Integer&` specialisation was never selected", 12),
        ("long-long-beyond-exact-floating-range", lambda r: r == "ed", ("ll", "ull"), lambda r, s, m, x: abs(x) >= 2**53,
         "long long / unsigned long long are not int64_t / uint64_t: generic init = Caster<double>(a) (rounds) + one-step FMA reduce", 13),
        ("long-long-beyond-exact-floating-range", lambda r: r == "ef", ("ll", "ull"), lambda r, s, m, x: abs(x) >= 2**24,
         "long long / unsigned long long are not int64_t / uint64_t: generic init = Caster<float>(a) (rounds) + one-step FMA reduce", 13),
    ]


_RULES = None


def klass_of(ring, src, m, x):
    """input class used as the key of known findings (never the concrete value): the domain of a known defect of this
    (ring, source) pair when the input lies in it, a generic class otherwise"""
    global _RULES
    if _RULES is None:
        _RULES = defect_rules()
    for kl, rp, srcs, dom, what, fix in _RULES:
        if src in srcs and rp(ring) and dom(ring, src, m, x):
            return kl
    if x < 0:
        return "negative"
    return "ge-m" if x >= m else "small"


def in_known_defect(ring, src, m, x):
    """does the input lie in the domain of a defect that is NOT repaired in /repo (those fail however the domain object was obtained)"""
    global _RULES
    if _RULES is None:
        _RULES = defect_rules()
    for kl, rp, srcs, dom, what, fix in _RULES:
        if src in srcs and rp(ring) and dom(ring, src, m, x):
            return not (fix is not None and FIX.get(fix))
    return False


HOWS = ["copy", "assign-lo", "assign-hi", "defassign", "randiter", "copyassign"]
HOW_TEXT = {"copy": "copy construction", "assign": "assignment over a domain of another modulus", "defassign": "assignment over a default-constructed domain",
            "randiter": "RandIter copy + RandIter::operator= (assigns the ring it refers to)", "copyassign": "copy construction of an assigned domain"}


def findings():
    """one entry per (code site, input class); instantiations that share the template are merged"""
    out = {}
    for kl, rp, srcs, dom, what, fix in defect_rules():
        for ring in sorted(RINGS):
            if not rp(ring):
                continue
            for src in srcs:
                lo, hi = SRC_RANGE.get(src, (-2**300, 2**300))
                mlo, mhi = {"mi32w": (2, 2**31 - 1), "mu32w": (2, 2**32 - 1), "mi64w": (2, 2**63 - 1), "mu64w": (2, 2**64 - 1)}.get(ring, (2, 101))
                m_probe = [m for m in (3, 16777259, 2**31 - 1, 2**32 - 5, 2**63 - 25, 2**64 - 59) if mlo <= m <= mhi]
                xs = [lo, hi, -3, -6, 2**24, -2**24, 2**32, 2**53, -2**53, 2**63, -2**63, 2**64, -2**64, 2**128, -2**128, 2**31, 2**15, 2**7, 200, 40000]
                if not any(dom(ring, src, m, x) for m in m_probe for x in xs if lo <= x <= hi):
                    continue
                applied = fix is not None and FIX.get(fix)
                site = code_site(ring, src)
                key = (site, kl)
                e = out.setdefault(key, {"property": "C04", "status": "fixed" if applied else "known", "site": site, "klass": kl, "instantiations": []})
                e["instantiations"].append("%s <- %s" % (RING_CXX[ring], SRC_CXX[src]))
                if applied:
                    e["commit"] = FIX[fix]
                    e["what"] = "fixed: property=C04 %s %s" % (FIX[fix], what)
                else:
                    e["what"] = what + (" [repair proposed: frag/C04.fix-%d.diff]" % fix if fix else "")
                e["repro"] = "harness/c04_repro.C (standalone, against the real headers); or: bin/check C04 quick with the finding removed"
    return list(out.values())


# ------------------------------------------------------------------ running the implementation
CASE_CPU = 10           # first stage: CPU seconds per call inside a stream (ITIMER_PROF in the harness; a call normally takes microseconds,
                        # the construction of the largest table ring < 2 s).  CPU time does not depend on the machine load.
CASE_CPU_RETRY = 30     # confirmation: the one call re-run alone
MAX_CONFIRMATIONS = 3   # per run (all streams / worker threads share HANG)
MAX_OVERRUNS = 6        # first-stage overruns per run; then every stream stops where it is
MAX_CRASHES_PER_FORM = 4
MODEL_CPU = 1200        # CPU seconds for one ring's stream through the extracted model (normally 1-3 s)
import threading
HANG = {"lock": threading.Lock(), "procs": set(), "confirming": 0, "confirmed": 0, "overruns": 0, "dead_forms": {}, "crashes": {}, "stopped_streams": [], "not_driven": 0}


def run_harness(binary, text, budget, timeout):
    """one harness process (own Popen, registered so that the thread that sees the run reach its cap can stop the other workers' processes by PID
    with SIGTERM: the harness then flushes the answers it has and exits 76).  Returns (rc, lines, err) like vf.run_lines."""
    import subprocess
    try:
        p = subprocess.Popen([binary, str(budget)], stdin=subprocess.PIPE, stdout=subprocess.PIPE, stderr=subprocess.PIPE, universal_newlines=True, errors="replace")
    except OSError as ex:
        return 127, [], str(ex)
    with HANG["lock"]:
        HANG["procs"].add(p)
    try:
        try:
            o, e = p.communicate(text, timeout=timeout)
            rc = p.returncode
        except subprocess.TimeoutExpired:
            p.kill()
            o, e = p.communicate()
            rc, e = 124, "[timeout]"
    finally:
        with HANG["lock"]:
            HANG["procs"].discard(p)
    return rc, (o or "").splitlines(), e


def stop_other_workers():
    """the cap is reached: the streams that are still running are told to stop (SIGTERM to our own child processes, by PID)"""
    with HANG["lock"]:
        procs = list(HANG["procs"])
    for p in procs:
        try:
            p.terminate()
        except OSError:
            pass


def form_of(line):
    """the call form a harness line drives: (ring, source type) - whatever the operation / the way the domain object was obtained"""
    t = line.split()
    return (t[1], t[2]) if len(t) > 2 else ("?", "?")


def run_impl(binary, lines, timeout=1800, slow=None):
    """feed lines; survive a crash of the harness: the crashing line is reported as CRASH and the rest is resumed (the harness flushes the
    completed answers in its signal handlers, so the attribution is exact).
    Hangs, bounded cost: a call that exhausts CASE_CPU inside the stream (harness exit 75 after a HANG line) is re-run ALONE with CASE_CPU_RETRY;
    if it still does not return it is a concrete failing input (`HANG`), and its call form (ring, source type) is not driven any more in this
    run (remaining lines of the form -> SKIPPED).  At most MAX_CONFIRMATIONS confirmations and MAX_OVERRUNS first-stage overruns per RUN (shared
    by all worker threads): then the stream stops (remaining lines -> SKIPPED, recorded, never counted as compared).  After MAX_CRASHES_PER_FORM
    crashes a form is not driven any more either.  A wall-clock time-out of the whole stream leaves TIMEOUT lines (inconclusive)."""
    out = [None] * len(lines)
    todo = list(range(len(lines)))          # indices still to be answered, in order
    guard = 0

    def drop_dead():
        nonlocal todo
        with HANG["lock"]:
            dead = set(HANG["dead_forms"])
        if dead:
            keep = []
            for ix in todo:
                if form_of(lines[ix]) in dead:
                    out[ix] = "SKIPPED"
                else:
                    keep.append(ix)
            todo = keep

    def stop_stream(why):
        nonlocal todo
        for ix in todo:
            out[ix] = "SKIPPED"
        with HANG["lock"]:
            HANG["stopped_streams"].append("%s: %s (%d cases not driven)" % (form_of(lines[0])[0] if lines else "?", why, len(todo)))
        todo = []

    while todo and guard < 80:
        guard += 1
        drop_dead()
        with HANG["lock"]:
            capped = HANG["confirmed"] >= MAX_CONFIRMATIONS or HANG["overruns"] >= MAX_OVERRUNS
        if capped:
            stop_stream("the run reached its cap of confirmed hangs / first-stage overruns")
            break
        if not todo:
            break
        rc, o, err = run_harness(binary, "".join(lines[ix] + "\n" for ix in todo), CASE_CPU, timeout)
        o = [l for l in o if not l.startswith("#")]
        if rc in (76, -15):
            # stopped by another worker thread (the run reached its cap): keep the answers, the rest is not driven
            n = min(len(o), len(todo))
            for ix, l in zip(todo[:n], o[:n]):
                out[ix] = l
            todo = todo[n:]
            stop_stream("stopped: the run reached its cap of confirmed hangs / first-stage overruns in another stream")
            break
        if rc == 124 and err == "[timeout]":
            # our own tooling ran out of WALL time (machine load): the unanswered cases are inconclusive, not failures of the property
            n = min(len(o), len(todo))
            if n and n < len(todo):
                n -= 1                       # the last line may be cut
            for ix, l in zip(todo[:n], o[:n]):
                out[ix] = l
            for ix in todo[n:]:
                out[ix] = "TIMEOUT"
            todo = []
            break
        if rc == 0 and len(o) == len(todo):
            for ix, l in zip(todo, o):
                out[ix] = l
            todo = []
            break
        if rc == 75 and o and o[-1] == "HANG" and len(o) <= len(todo):
            n = len(o) - 1
            for ix, l in zip(todo[:n], o[:n]):
                out[ix] = l
            hx = todo[n]
            todo = todo[n + 1:]
            form = form_of(lines[hx])
            with HANG["lock"]:
                HANG["overruns"] += 1
                may_confirm = HANG["confirmed"] + HANG["confirming"] < MAX_CONFIRMATIONS and form not in HANG["dead_forms"]
                if may_confirm:
                    HANG["confirming"] += 1             # the slot is reserved under the lock: the workers share the cap
                capped = HANG["overruns"] >= MAX_OVERRUNS
            if capped:
                stop_other_workers()
            if not may_confirm:
                out[hx] = "SKIPPED"
                continue
            rc2, o2, err2 = vf.run_lines(binary, lines[hx] + "\n", timeout=timeout, args=(str(CASE_CPU_RETRY),))
            o2 = [l for l in o2 if not l.startswith("#")]
            with HANG["lock"]:
                HANG["confirming"] -= 1
            if rc2 == 0 and len(o2) == 1:
                out[hx] = o2[0]
                if slow is not None:
                    slow.append(lines[hx])
            elif rc2 == 124 and err2 == "[timeout]":
                out[hx] = "TIMEOUT"
            elif rc2 == 75:
                out[hx] = "HANG"
                with HANG["lock"]:
                    HANG["confirmed"] += 1
                    HANG["dead_forms"][form] = lines[hx]
                    capped = HANG["confirmed"] >= MAX_CONFIRMATIONS
                if capped:
                    stop_other_workers()
            else:
                out[hx] = "CRASH rc=%s" % rc2
            continue
        # a crash: the line after the answered ones
        n = min(len(o), len(todo) - 1)
        for ix, l in zip(todo[:n], o[:n]):
            out[ix] = l
        cx = todo[n]
        out[cx] = "CRASH rc=%s" % rc
        todo = todo[n + 1:]
        form = form_of(lines[cx])
        with HANG["lock"]:
            HANG["crashes"][form] = HANG["crashes"].get(form, 0) + 1
            if HANG["crashes"][form] >= MAX_CRASHES_PER_FORM:
                HANG["dead_forms"].setdefault(form, lines[cx])
    for ix in todo:
        out[ix] = "SKIPPED"
    with HANG["lock"]:
        HANG["not_driven"] += sum(1 for l in out if l == "SKIPPED")
    return out


def recint_exact(elt):
    """largest |v| of a RecInt source that the generic `Caster<Element>(a)` path of a word ring preserves: what the element type holds"""
    if elt == "I":
        return 2**200
    lo, hi = ELT_RANGE.get(elt, (-2**63, 2**63))
    return hi


def recint_filter(vals, elt):
    """RecInt sources into the word rings (generic Caster<Element>(a)): every value, of either sign, whose magnitude the element type holds
    (negative rint values included: phase 4); wider values are the class `recint-source-wider-than-element` (see recint_wide)"""
    b = recint_exact(elt)
    return [v for v in vals if abs(v) <= b]


def recint_wide(src, m):
    """a few deterministic RecInt values beyond every word element type (known class: the conversion narrows before the reduction)"""
    lo, hi = SRC_RANGE[src]
    return [v for v in (2**64 + 5, -(2**64) - 5, hi, lo, 3 * m * 2**70 + 1) if lo <= v <= hi and abs(v) > 2**63]


# call forms that do NOT exist in givaro (found by compiling every pair; harness/c04_allow.inc + SFINAE detection): '<ring> <op> <source / convert target>'.
# Any OTHER absent form (NOFORM line, '-' convert / round-trip field) means an overload or convert form that existed is gone: a broken obligation.
EXPECTED_ABSENT = set('''
gfq32 convert i16, gfq32 convert u16, gfq32 init ll, gfq32 init ri6, gfq32 init ri7, gfq32 init ru6,
gfq32 init ru7, gfq32 init ull, gfq32 rt i16, gfq32 rt ll, gfq32 rt ri6, gfq32 rt ri7,
gfq32 rt ru6, gfq32 rt ru7, gfq32 rt ull, gfq64 convert i16, gfq64 convert u16, gfq64 init ll,
gfq64 init ri6, gfq64 init ri7, gfq64 init ru6, gfq64 init ru7, gfq64 init ull, gfq64 rt i16,
gfq64 rt ll, gfq64 rt ri6, gfq64 rt ri7, gfq64 rt ru6, gfq64 rt ru7, gfq64 rt ull,
log16 convert f, log16 init ll, log16 init ri6, log16 init ri7, log16 init ru6, log16 init ru7,
log16 init ull, log16 rt f, log16 rt ll, log16 rt ri6, log16 rt ri7, log16 rt ru6,
log16 rt ru7, log16 rt ull, mI const@randiter -, mI init ll, mI init ull, mI init@randiter I,
mI init@randiter d, mI init@randiter f, mI init@randiter i32, mI init@randiter i64, mI init@randiter i8, mI init@randiter u16,
mI init@randiter u32, mI init@randiter u64, mI rt ll, mI rt ull, mi16w init ri6, mi16w init ri7,
mi16w init ru6, mi16w init ru7, mi16w rt ri6, mi16w rt ri7, mi16w rt ru6, mi16w rt ru7,
mi8w init ri6, mi8w init ri7, mi8w init ru6, mi8w init ru7, mi8w rt ri6, mi8w rt ri7,
mi8w rt ru6, mi8w rt ru7, mru67 init ri7, mru67 init ru7, mru67 rt ri7, mru67 rt ru7,
mu16w init ri6, mu16w init ri7, mu16w init ru6, mu16w init ru7, mu16w rt ri6, mu16w rt ri7,
mu16w rt ru6, mu16w rt ru7, mu8w init ri6, mu8w init ri7, mu8w init ru6, mu8w init ru7,
mu8w rt ri6, mu8w rt ri7, mu8w rt ru6, mu8w rt ru7,
mgru6 init ri6, mgru6 init ri7, mgru6 init ru6, mgru6 init ru7, mgru6 rt ri6, mgru6 rt ri7, mgru6 rt ru6, mgru6 rt ru7, mgru7 init ri6, mgru7 init ri7, mgru7 init ru6, mgru7 init ru7, mgru7 rt ri6, mgru7 rt ri7, mgru7 rt ru6, mgru7 rt ru7,
'''.replace('\n', ' ').split(','))
EXPECTED_ABSENT = {e.strip() for e in EXPECTED_ABSENT if e.strip()}


KP_COV = {}


def gen_cases(rings, cards, rng, tier):
    quick = tier == "quick"
    nrand = 3 if quick else 20
    cases = []     # (op, ring, src, p, k, x, how)
    for ring in rings:
        if ring not in cards:
            continue
        lo, hi = cards[ring]
        if ring in GFQ_FIELDS:
            fields = (GFQ_QUICK if quick else GFQ_FIELDS)[ring]
        else:
            if hi < lo:          # "no maximum" (Modular<Integer>: -1)
                hi = 2**200
            fields = [(m, 1) for m in moduli(ring, lo, hi, rng, tier)]
        elt = RINGS[ring][1]
        for fi, (p, k) in enumerate(fields):
            m = p**k
            cases.append(("const", ring, "-", p, k, 0, ""))
            # the same ring obtained in other ways: copy, assignment over a domain of a smaller / larger / no modulus, RandIter copies
            others = [f for f in fields if f != (p, k)]
            hows = []
            if others:
                flo, fhi = min(others, key=lambda f: f[0]**f[1]), max(others, key=lambda f: f[0]**f[1])
                hows = [("copy", 0, 1), ("assign", flo[0], flo[1]), ("assign", fhi[0], fhi[1]), ("defassign", 0, 1),
                        ("randiter", fhi[0] if fi % 2 == 0 else flo[0], fhi[1] if fi % 2 == 0 else flo[1]), ("copyassign", flo[0], flo[1])]
                if quick:
                    hows = [hows[(fi + j) % len(hows)] for j in range(3)] if fi >= 2 else hows
            for h in hows:
                hs = "%s:%d:%d" % h
                cases.append(("const", ring, "-", p, k, 0, hs))
                for src in ["i32", "u32", "i64", "u64", "f", "d", "I", "i8", "u16"]:
                    pool = [-1, -2, -(m // 2), -(m // 2) - 1, -m, -m - 1, -m + 1, m - 1, m, m + 1, m // 2, m // 2 + 1, 2 * m + 1, -3 * m - 1, 1, 0,
                            -(m * m) - 1, m * m + 1, rng.range(-3 * m, 3 * m), -rng.bits(40), rng.bits(62)]
                    if src in SRC_RANGE:
                        lo_s, hi_s = SRC_RANGE[src]
                        pool += [lo_s, lo_s + 1, hi_s, hi_s - 1]
                        pool = [v for v in pool if lo_s <= v <= hi_s]
                    elif src in ("f", "d"):
                        pool = [round_to_float(v, 24 if src == "f" else 53) for v in pool if abs(v) < (2**127 if src == "f" else 2**1000)] + [2**63, -2**63, 2**31, -2**31]
                    pool = sorted(set(v for v in pool if not in_known_defect(ring, src, m, v)))
                    for x in pool:
                        cases.append(("init", ring, src, p, k, x, hs))
            for src in MAIN_SRCS + SMALL_SRCS + RECINT_SRCS:
                vals = values(src, m, rng, nrand, quick)
                if src in RECINT_SRCS and not elt.startswith("ru"):
                    # RecInt sources reach the word rings through the generic `Caster<Element>(a)`, a plain static_cast that
                    # keeps the low word / rounds to double: only values the element type holds exactly are in the claim here
                    vals = recint_filter(vals, elt)[::2] + recint_wide(src, m)
                elif src in SMALL_SRCS and quick:
                    vals = vals[::2] + vals[-2:]
                for x in vals:
                    cases.append(("init", ring, src, p, k, x, ""))
                if src in ("i64", "I", "d", "u32", "ll"):
                    for x in vals[::3]:
                        cases.append(("rt", ring, src, p, k, x, ""))
        # ---- multiples of the modulus: k*m, k*m+-1, every source type, many moduli (deterministic, independent of the seed)
        if ring in GFQ_FIELDS:
            kfields = sorted(set(GFQ_QUICK[ring]) | {(7, 2), (5, 3), (2, 4)})
        else:
            extra = ext_special_moduli(24 if ring == "ef" else 53, lo, hi) if ring in ("ef", "ed") else ()
            kfields = [(m, 1) for m in kp_moduli(ring, lo, hi, extra)]
        KP_COV.setdefault("moduli", {})[ring] = [str(p**k) for p, k in kfields]
        for fi, (p, k) in enumerate(kfields):
            m = p**k
            for si, src in enumerate(MAIN_SRCS + SMALL_SRCS + RECINT_SRCS):
                vals = kp_values(src, m, fi + si)
                if ring in ("ef", "ed") and src in ext_generic_sources(ring):
                    for v, c in ext_boundary_values(ring, src, m):
                        vals.append(v)
                        KP_COV.setdefault("extended_reduce_tail", {}).setdefault(ring + "/" + c, set()).add((src, m, v))
                    vals = sorted(set(vals))
                if src in RECINT_SRCS and not elt.startswith("ru"):
                    vals = recint_filter(vals, elt)
                KP_COV["cases"] = KP_COV.get("cases", 0) + len(vals)
                for x in vals:
                    cases.append(("init", ring, src, p, k, x, ""))
                    if abs(x) <= m + 1 or (x % m == 0 and x % 5 == 0):
                        cases.append(("rt", ring, src, p, k, x, ""))
    return cases


def model_line(c):
    op, ring, src, p, k, x, how = c
    return "%s %s %s %d %d" % (op, ring, src, p**k, x)


def impl_line(c):
    op, ring, src, p, k, x, how = c
    return "%s%s %s %s %d %d %d" % (op, "@" + how if how else "", ring, src, p, k, x)


def main(tier, replay=None):
    chk = vf.Check("C04", tier, "proof")
    rng = vf.Rng(chk.seed)
    explore = os.environ.get("C04_EXPLORE")
    chk.cov["trusted_base"] = [
        "Coq 8.16.1 kernel + vm_compute (no native_compute)",
        "extraction: ExtrOcamlBasic only; Z/positive kept as extracted inductives; OCaml 4.13.1; zarith only for text I/O in harness/zio.ml",
        "C semantics used by the model (coq/C04/Model.v): two's-complement wrap for integer conversions and for `-y`, usual arithmetic "
        "conversions, % = Z.rem, IEEE fmod exact, int->float conversion round-to-nearest-even, Integer::operator% truncating, "
        "Integer::mod euclidean; validated by the correspondence run",
        "table contents of GFqDom / Modular<Log16> (pol2log, _tab_value2rep) are C05's subject: the model computes the table index",
        "harness/c04_init.C, checks/C04.py (case generator, python big-integer oracle)", "g++ 12 / x86-64 (-O2 -march=native, FMA contraction as compiled) for the implementation side",
    ]
    chk.assumptions = ["model is hand-written after the init/convert bodies; tie = correspondence on generated cases for every (ring, source type) pair",
                       "bodies repaired by frag/C04.fix-1..15 (all in /repo) are modelled in repaired form; the model is compared with the implementation "
                       "on every case whose implementation result agrees with the oracle (no exempt domain)",
                       "ModularExtended: the harness is compiled with -march=native (FP_FAST_FMA variant of reduce); the SSE/Dekker variant computes the same "
                       "exact remainder and shares the correction tail"]
    # 1. proofs
    inconclusive = {}      # probes cut by a WALL-clock time-out of our own tooling: listed in the evidence, never counted as passed
    slow_cases = []        # cases that exceeded the per-case CPU budget inside a stream but returned when re-run alone
    if os.path.exists(os.path.join(vf.coq_dir(AREA), "Properties.v")):
        res = vf.coq_check_props(AREA, timeout=3000)
        if not res["ok"] and not res["forbidden"] and "[timeout after" in res["log"]:
            # the Coq build ran into the wall-clock limit (machine load): the theorems were NOT re-checked in this run
            chk.cov["obligations"] += len(res["theorems"])
            inconclusive["Coq build of coq/C04 (wall-clock time-out 3000 s): theorems not re-checked"] = len(res["theorems"])
        else:
            chk.proof_result(res, AREA)
    else:
        ok, out = vf.coq_make(AREA, timeout=900)
        chk.broke("coq/C04/Properties.v is missing", out)
    # 2. executables
    drv, l1 = vf.ocaml_build(AREA) if os.path.exists(os.path.join(vf.coq_dir(AREA), "ocaml", "model.ml")) else (None, "extraction did not run")
    if drv is None:
        chk.broke("extracted model driver does not build", l1)
    def build_part(i):
        for attempt in range(3):
            b, lg = vf.build_harness("c04_init.C", extra_flags=["-DC04_PART=%d" % i], link_lib=True, deps=["c04_allow.inc"], name="c04_init_p%d" % i)
            if b is not None or "libgivaro_verif.a" not in lg:
                break           # (the shared library cache can be pruned by a concurrent check between build and link: rebuild, retry)
            vf.build_repo_lib()
        return b, lg
    vf.build_repo_lib()
    with ThreadPoolExecutor(max_workers=len(PARTS)) as ex:
        built = list(ex.map(build_part, range(len(PARTS))))
    himpl = {}
    for i, (b, lg) in enumerate(built):
        if b is None:
            chk.broke("implementation harness (part %d: %s) does not compile against /repo" % (i, " ".join(PARTS[i])), lg)
        for r in PARTS[i]:
            himpl[r] = b
    if any(b is None for b, _ in built):
        return chk.finish()
    # cardinalities are read from the implementation, not hard-coded
    rings = sorted(RINGS)
    card_out = [run_impl(himpl[r], ["card %s - 0 0 0" % r])[0] for r in rings]
    cards = {}
    for r, l in zip(rings, card_out):
        t = l.split()
        try:
            cards[r] = (int(t[0]), int(t[1]))
        except (ValueError, IndexError):
            if l == "TIMEOUT":
                chk.cov.setdefault("inconclusive_cardinality_reads", []).append(r)
            else:
                chk.broke("cannot read min/maxCardinality of %s: %r" % (r, l))
    chk.cov["cardinalities_from_implementation"] = {r: list(cards[r]) for r in cards}
    # 3. cases
    if replay:
        rp = json.load(open(replay))
        cases = []
        for f in rp.get("failing_inputs", []):
            c = f["case"]
            cases.append((c["op"], c["ring"], c["src"], int(c["p"]), int(c["k"]), int(c["x"]), c.get("how", "")))
    else:
        cases = gen_cases(rings, cards, rng, tier)
    by_ring = {}
    for c in cases:
        by_ring.setdefault(c[1], []).append(c)

    def run_ring(ring):
        cs = by_ring[ring]
        io = run_impl(himpl[ring], [impl_line(c) for c in cs], slow=slow_cases)
        mo = None
        if drv:
            # the model stream runs under a CPU-time limit (RLIMIT_CPU via `ulimit -t`: load-independent); a wall-clock time-out is inconclusive
            rc, mo, merr = vf.run_lines("/bin/sh", "".join(model_line(c) + "\n" for c in cs), timeout=3000,
                                        args=("-c", "ulimit -t %d; exec '%s'" % (MODEL_CPU, drv)))
            if rc == 124 and merr == "[timeout]":
                mo = "TIMEOUT"
            elif rc in (-24, -9, 152, 137):
                mo = "the extracted model did not finish ring %s within %d s of CPU time (%d cases): a model function does not terminate in reasonable time" % (ring, MODEL_CPU, len(cs))
            elif rc != 0 or len(mo) != len(cs):
                mo = "model driver failed on ring %s (rc=%s, %d/%d lines) %s" % (ring, rc, len(mo), len(cs), merr[-500:])
        return ring, (io, mo)
    with ThreadPoolExecutor(max_workers=max(2, vf.NCPU // 2)) as ex:
        results = dict(ex.map(run_ring, sorted(by_ring)))
    # 4. three-way comparison
    dist = {}
    bad_init = set()
    ncorr = 0
    nub = 0
    absent = set()        # call forms that do not exist (NOFORM / '-'): compared with EXPECTED_ABSENT below
    ubd = {}
    for ring in sorted(by_ring):
        kind, elt = RINGS[ring]
        io, mo = results[ring]
        if mo == "TIMEOUT":
            inconclusive["model stream of " + ring] = len(by_ring[ring])
            mo = None
        elif isinstance(mo, str):
            chk.broke(mo)
            mo = None
        for i, (c, line) in enumerate(zip(by_ring[ring], io)):
            op, _, src, p, k, x, how = c
            m = p**k
            t = line.split()
            ml = mo[i].split() if mo is not None else None
            site = code_site(ring, src) if op != "const" else "%s::constants" % RING_CXX[ring]
            inst = "%s::init(%s)" % (RING_CXX[ring], SRC_CXX.get(src, src))
            if line == "NOFORM":
                absent.add("%s %s %s" % (ring, op if not how else op + "@" + how.split(":")[0], src))
                continue
            if line == "SKIPPED":
                continue                # the form was taken out of the run after a confirmed hang / repeated crashes, or the stream was stopped
            if line == "TIMEOUT":
                inconclusive["implementation stream of " + ring] = inconclusive.get("implementation stream of " + ring, 0) + 1
                continue
            if how:
                hn = how.split(":")[0]
                site = "%s: init/convert on a domain obtained by %s" % (RING_CXX[ring], HOW_TEXT[hn])
                inst += " [domain by %s]" % how
                dist["how/" + hn] = dist.get("how/" + hn, 0) + 1
            dist[ring + "/" + src] = dist.get(ring + "/" + src, 0) + 1
            chk.count((op, ring, src, p, k, x, how), nontrivial=(abs(x) >= m or x < 0))
            case = {"op": op, "ring": ring, "src": src, "p": p, "k": k, "x": str(x), "how": how, "call": inst}
            kl = klass_of(ring, src, m, x) if op != "const" else "constants"
            nfail = len(chk.failing)
            if len(chk.cov["samples"]) < 12 and i % 1499 == 7:
                chk.sample({"case": case, "impl": line, "model": mo[i] if mo is not None else None})
            if line == "HANG":
                chk.fail_input(site, "does-not-return", case, "a result", "does not return",
                               "the call did not return within %d s of CPU time (re-run alone after exceeding %d s inside the stream); input class %s; "
                               "the call form is not driven any further in this run" % (CASE_CPU_RETRY, CASE_CPU, kl))
                continue
            if line.startswith("CRASH") or line.startswith("BAD"):
                chk.fail_input(site, kl, case, "a result", line, "the call crashed (or the harness refused the input)")
                continue
            if op == "init":
                want_raw = canon(ring, m, x)
                want_lift = lift(ring, m, x)
                if kind != "tab" and t[0] != str(want_raw):
                    chk.fail_input(site, kl, case, str(want_raw), t[0], "init does not produce the canonical element of x mod m")
                else:
                    for form, got in zip(CONV_FORMS, t[1:]):
                        if got == "-":
                            absent.add("%s convert %s" % (ring, form))
                            continue
                        dist["convert<%s>" % SRC_CXX[form]] = dist.get("convert<%s>" % SRC_CXX[form], 0) + 1
                        rg = CONV_RANGE[form]
                        if rg is not None and not (rg[0] <= want_lift <= rg[1]):
                            continue        # the lift does not fit the target type: outside the claim
                        if got != str(want_lift):
                            if kind == "tab":
                                chk.fail_input(site, kl, case, str(want_lift), got, "convert<%s>(init(x)) is not x mod m" % form)
                            else:
                                chk.fail_input("%s::convert(%s)" % (RING_CXX[ring], form), "canonical-element", case, str(want_lift), got,
                                               "convert of the canonical element is not its canonical lift")
                            break
                if len(chk.failing) == nfail and len(t) > 10:
                    # predicates on the produced element: isZero isOne isMOne areEqual(e, zero) areEqual(e, init(0))
                    r = x % m
                    mone_lift = (m - 1) if not (kind == "tab" and k > 1) else (p - 1 if p > 2 else 1)
                    wantf = "".join("1" if b else "0" for b in (r == 0, r == 1 % m, r == mone_lift, r == 0, r == 0))
                    dist["predicates"] = dist.get("predicates", 0) + 1
                    if t[10] != wantf:
                        chk.fail_input(site, kl, case, wantf, t[10], "isZero/isOne/isMOne/areEqual(e,zero)/areEqual(e,init(0)) of init(x) "
                                       "do not say which of 0, 1, -1 the element is the image of")
                if len(chk.failing) != nfail:
                    bad_init.add((ring, src, p, k, x, how))
                # correspondence
                if ml is not None and len(chk.failing) == nfail and ml[0] not in ("NOMODEL",):
                    if ml[0] == "UB":
                        nub += 1
                        ubd[ring + "/" + src] = ubd.get(ring + "/" + src, 0) + 1
                    else:
                        ncorr += 1
                        got_m = t[1] if kind == "tab" else t[0]
                        if ml[0] != got_m:
                            chk.broke("correspondence: model and implementation differ on %s m=%d x=%d: model=%s impl=%s (oracle agrees with impl)"
                                      % (inst, m, x, ml[0], got_m))
            elif op == "rt":
                want_lift = lift(ring, m, x)
                if (ring, src, p, k, x, how) in bad_init or (kind != "tab" and t[0] != str(canon(ring, m, x))):
                    continue            # init itself is off: reported by the init case of the same input
                for form, got in zip(RT_FORMS, t[1:]):
                    rg = CONV_RANGE[form]
                    if rg is not None and not (rg[0] <= want_lift <= rg[1]):
                        continue        # the lift does not fit the intermediate type: outside the claim
                    if in_known_defect(ring, form, m, want_lift):
                        continue        # init from this intermediate type is a known defect for this value (reported by the init cases)
                    if got == "-":
                        absent.add("%s rt %s" % (ring, form))
                        continue        # the ring has no such convert / init form
                    dist["rt-through/" + form] = dist.get("rt-through/" + form, 0) + 1
                    if got != t[0]:
                        chk.fail_input(code_site(ring, form) + "/roundtrip",
                                       klass_of(ring, form, m, want_lift), case, t[0], got, "init(convert<%s>(e)) != e" % form)
                        break
                if ml is not None and len(chk.failing) == nfail and ml[0] not in ("NOMODEL", "UB") and kind != "tab":
                    ncorr += 1
                    for j, form in enumerate(RT_FORMS):
                        rg = CONV_RANGE[form]
                        if rg is not None and not (rg[0] <= want_lift <= rg[1]):
                            continue
                        if j + 1 < len(ml) and j + 1 < len(t) and ml[j + 1] != "UB" and ml[j + 1] != t[j + 1]:
                            chk.broke("correspondence (round trip through %s): model and implementation differ on %s m=%d x=%d: model=%s impl=%s"
                                      % (form, site, m, x, ml[j + 1], t[j + 1]))
            elif op == "const":
                want = [canon(ring, m, 0), canon(ring, m, 1), canon(ring, m, -1)]
                wl = [lift(ring, m, 0), lift(ring, m, 1), lift(ring, m, -1)]
                names = ("zero", "one", "mOne")
                if kind == "tab" and k > 1:
                    # GF(p^k), k > 1: init is the p-adic lift mod q (DESIGN 5/C04), not a ring morphism; -1 is the image of p-1
                    wl[2] = (p - 1) % p if p > 2 else 1
                if kind != "tab":
                    for nm, w, g in zip(names, want, t[:3]):
                        if str(w) != g:
                            chk.fail_input(site, "constants", case, str(w), g, "%s is not the image of %s" % (nm, {"zero": 0, "one": 1, "mOne": -1}[nm]))
                for nm, w, g in zip(names, wl, t[3:6]):
                    if g != "-" and str(w) != g:
                        chk.fail_input(site, "constants", case, str(w), g, "convert(%s) is not the lift" % nm)
                if t[6] != t[2] and not (kind == "tab" and k > 1):
                    chk.fail_input(site, "constants", case, t[2], t[6], "init(-1) != mOne")
                if t[7] != t[0]:
                    chk.fail_input(site, "constants", case, t[0], t[7], "init() != zero")
                if ml is not None and len(chk.failing) == nfail and ml[0] != "NOMODEL" and kind != "tab":
                    ncorr += 1
                    if ml[:3] != t[:3] or ml[3] != t[6]:
                        chk.broke("correspondence (constants): model and implementation differ on %s m=%d: model=%s impl=%s" % (site, m, ml, t[:3] + [t[6]]))
    # 4.9 absent call forms: only the ones listed in EXPECTED_ABSENT may be missing
    gone = sorted(absent - EXPECTED_ABSENT)
    if gone and not replay:
        chk.broke("call forms of init / convert that the check drives are no longer there (NOFORM / '-' from the harness): %s" % ", ".join(gone[:20]),
                  "an init overload or convert form was removed or no longer compiles for this (ring, type) pair; all: %r" % gone)
    chk.cov["absent_call_forms"] = {"expected_and_absent": len(absent & EXPECTED_ABSENT), "unexpectedly_absent": gone,
                                    "listed_absent_but_not_met_in_this_run": sorted(EXPECTED_ABSENT - absent)}
    # 4a. the hypotheses of the theorems against the source / the build: (i) the enable_if conditions Model.mi_init encodes, read from the header;
    #     (ii) every modulus bound that occurs in a theorem statement (ring_ok of C04_every_family_every_source) against the cardinalities the
    #     compiled implementation prints
    conds = read_init_conditions()
    want_conds = [re.sub(r"\s+", "", c) for c in EXPECTED_INIT_CONDITIONS]
    if conds != want_conds:
        chk.broke("the overload-selection conditions of Modular<integral>::init in modular-integral.h are not the ones Model.mi_init / "
                  "C04_integral_dispatch_every_source encode", "read: %r\nexpected: %r" % (conds, want_conds))
    # ring -> (largest modulus the theorems cover, theorem that states the bound)
    THEOREM_BOUND = {"mf": 2**24, "mfd": 2**24, "md": 2**53, "ef": 2**23, "ed": 2**52, "mont32": 40503, "log16": 2**15 - 1,
                     "gfq32": 2**31, "bi32": 2**31 - 1, "bi64": 2**63 - 1, "bd": None, "bf": None, "mI": None, "mru7": 2**128 - 1, "mru67": 2**64 - 1}
    for r in RINGS:
        if _integral(r):
            THEOREM_BOUND[r] = SRC_RANGE[RINGS[r][1]][1]               # admissible St p: p <= tmax St
    bounds_checked = {}
    for r, bnd in sorted(THEOREM_BOUND.items()):
        if r not in cards:
            continue
        lo_c, hi_c = cards[r]
        if r in GFQ_FIELDS:
            hi_c = max(pp**kk for pp, kk in GFQ_FIELDS[r])               # GFqDom: the fields the check builds (q, not maxCardinality)
        bounds_checked[r] = [hi_c, bnd]
        if bnd is not None and hi_c >= lo_c and hi_c > bnd:
            chk.broke("maxCardinality of %s is %d: beyond the modulus bound %d of the theorems of this family (ring_ok in "
                      "C04_every_family_every_source)" % (RING_CXX[r], hi_c, bnd))
    chk.cov["theorem_modulus_bounds_vs_built_cardinalities"] = bounds_checked
    # 4b. ModularExtended::reduce.  (i) the theorems C04_extended_* hold for p <= 2^(prec-1): re-checked against the maxCardinality the
    #     compiled implementation reports; (ii) the value handed to the correction tail, as the extracted model computes it, against the
    #     generator's independent exact-rational re-computation, on every input of the boundary classes (tail == p, tail < 0, none)
    for ring, prec in (("ed", 53), ("ef", 24)):
        if ring in cards and not (2 <= cards[ring][1] <= 2**(prec - 1)):
            chk.broke("maxCardinality of %s is %d: outside the hypothesis p <= 2^%d of C04_extended_reduce_one_correction_step_suffices"
                      % (RING_CXX[ring], cards[ring][1], prec - 1))
    tails = sorted({(key.split("/")[0], m, v) for key, st in KP_COV.get("extended_reduce_tail", {}).items() for (_s, m, v) in st})
    if drv and tails and not replay:
        rc, to, terr = vf.run_lines(drv, "".join("tail %s - %d %d\n" % t for t in tails), timeout=1500)
        if rc != 0 or len(to) != len(tails):
            chk.broke("model driver failed on the ModularExtended tail values (rc=%s, %d/%d lines) %s" % (rc, len(to), len(tails), terr[-300:]))
        else:
            nbad = 0
            for (ring, m, v), got in zip(tails, to):
                want = ext_tail_value(24 if ring == "ef" else 53, m, v)
                if got.strip() != str(want):
                    nbad += 1
                    if nbad <= 3:
                        chk.broke("ModularExtended reduce: model tail value %s != exact-rational recomputation %d (%s, p=%d, a=%d)" % (got, want, ring, m, v))
            chk.cov["extended_reduce_tail_values_model_vs_recomputation"] = len(tails)
    chk.cov["extended_reduce_tail_classes"] = {k: len(v) for k, v in sorted(KP_COV.get("extended_reduce_tail", {}).items())}
    chk.cov["multiples_of_modulus_stream"] = {"cases": KP_COV.get("cases", 0), "moduli": KP_COV.get("moduli", {}),
                                              "rule": "every ring x every source type x these moduli x {k*m, k*m+-1 : |k| in 1,2, two of 3..40 (rotating), "
                                                      "floor(2^31/m), floor(2^53/m), floor(2^64/m), kmax-1, kmax of the source type}, both signs; floating sources: "
                                                      "multiples m*2^j, 3*m*2^j and their neighbours; deterministic (no seed)"}
    if len(chk.broken) > 25:
        chk.broken = chk.broken[:25] + [{"what": "... %d more" % (len(chk.broken) - 25), "detail": ""}]
    if explore:
        agg = {}
        for f in chk.failing:
            agg.setdefault((f["site"], f["klass"]), []).append(f)
        for key in sorted(agg):
            f = agg[key][0]
            print("%-60s %-40s n=%-5d e.g. p=%s k=%s x=%s want=%s got=%s" % (key[0], key[1], len(agg[key]), f["case"]["p"], f["case"]["k"], f["case"]["x"], f["expected"], f["observed"]))
        for b in chk.broken:
            print("BROKE", b["what"][:300])
        print("UB", sorted(ubd.items()))
        print("ABSENT", sorted(absent))
        print("cases", len(cases), "failing", len(chk.failing), "tie-compared", ncorr, "model-UB", nub)
        return 0
    chk.cov["rule"] = ("every ring family x every source type x boundary moduli (2,3,max,max-1,2^k+-1,random) x boundary values (0,+-1,m-1,m,m+1,"
                       "multiples of m, type limits, 2^24/2^53/2^63/2^64 +-1, random, wide) + the deterministic stream of multiples (see multiples_of_modulus_stream) "
                       "+ the ModularExtended correction-tail classes; non-trivial = x<0 or |x|>=m; distinct = (op,ring,src,p,k,x)")
    chk.cov["traces_validated_against_impl"] = ncorr
    chk.cov["model_leaves_defined_behaviour"] = nub
    chk.cov["model_leaves_defined_behaviour_by_ring_and_source"] = ubd
    # floor on what was actually compared / re-checked in this run
    noracle = chk.cov.get("evaluations", 0)
    floor = {"oracle comparisons (cases)": (noracle, 450000 if tier == "quick" else 600000),
             "correspondence comparisons (model vs implementation)": (ncorr, 400000 if tier == "quick" else 500000),
             "theorems re-checked": (chk.cov.get("discharged", 0), N_THEOREMS),
             "ModularExtended tail == p inputs": (sum(v for k, v in chk.cov.get("extended_reduce_tail_classes", {}).items() if k.endswith("tail==p")), 1000)}
    missed = {k: {"got": g, "floor": f} for k, (g, f) in floor.items() if g < f}
    chk.cov["inconclusive"] = inconclusive
    chk.cov["hang_and_crash_handling"] = {
        "budgets": {"first stage CPU s per call": CASE_CPU, "confirmation CPU s (call re-run alone)": CASE_CPU_RETRY, "max confirmations per run": MAX_CONFIRMATIONS,
                    "max first-stage overruns per run": MAX_OVERRUNS, "crashes after which a form is not driven any more": MAX_CRASHES_PER_FORM},
        "confirmed_does_not_return": HANG["confirmed"], "first_stage_overruns": HANG["overruns"],
        "forms_taken_out_of_the_run": {"%s <- %s" % k: v for k, v in HANG["dead_forms"].items()},
        "crashes_by_form": {"%s <- %s" % k: v for k, v in HANG["crashes"].items()},
        "streams_stopped": HANG["stopped_streams"], "cases_not_driven": HANG["not_driven"]}
    chk.cov["slow_cases_rerun_alone"] = slow_cases[:20]
    chk.cov["floor"] = {k: {"got": g, "floor": f} for k, (g, f) in floor.items()}
    if not replay:
        chk.cov["floor_missed"] = missed
        if missed and not inconclusive and not HANG["not_driven"]:
            chk.broke("the run compared less than its floor although no tooling time-out occurred: %r" % missed)
        elif missed and inconclusive:
            print("INCONCLUSIVE: property=C04 tooling time-outs %r; below the floor: %r" % (sorted(inconclusive), missed), flush=True)
    chk.cov["distribution_by_ring_and_source"] = {k: v for k, v in dist.items() if "/" in k and not k.startswith(("rt-through/", "how/"))}
    # every public call form of the operations the property names, with the number of cases that drove it
    forms = {}
    for k, v in dist.items():
        if k.startswith("rt-through/"):
            forms["init(e2, convert<%s>(t, e)) == e" % SRC_CXX[k.split("/")[1]]] = v
        elif k.startswith("how/"):
            forms["domain obtained by " + HOW_TEXT[k.split("/")[1]]] = v
        elif k.startswith("convert<"):
            forms["convert(%s&, e)" % k[8:-1]] = v
        elif k == "predicates":
            forms["isZero(e) / isOne(e) / isMOne(e) / areEqual(e, zero) / areEqual(e, init(0))"] = v
        elif "/" in k:
            src = k.split("/")[1]
            nm = "zero, one, mOne, init(e), init(e, int64_t(-1))" if src == "-" else "init(e, const %s&)" % SRC_CXX[src]
            forms[nm] = forms.get(nm, 0) + v
    chk.cov["call_forms"] = forms
    chk.cov["overload_conditions_read_from_source"] = {"modular-integral.h init overloads": read_init_conditions()}
    return chk.finish()
