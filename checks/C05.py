# C05 — extension fields GF(p^k) behave as F_p[X]/(f) with f irreducible.   (DESIGN 5/C05)
# proof:  coq/C05 — Zech-logarithm macros of gfq.inl over an abstract field (all elements, all fields),
#         array forms with the loop bounds of the code, executable table builder, per-field certificate (fg_ok + tables_ok),
#         Extension<> operations incl. inv/div (partial), every GF2 overload, the q-adic transform of GFqExtFast
#         (REDQ decode, delayed reduction bound = maxdot(), numerator read from gfqext.h)
# tie:    correspondence: extracted model (tables built from the (p,k,f,g) the implementation reports, and
#         every macro / member function / array form)  vs  GFqDom<int32_t|int64_t> of /repo's current headers
# search: python oracle = F_p[X]/(f) on coefficient lists, its own tables, brute-force irreducibility and
#         primitivity; Extension<>, GFqExt, GFqKronecker, GF2 against the same oracle
import json, os, re, sys, time
import vf

AREA = "C05"

# ------------------------------------------------------------------ number theory helpers (oracle side)

def is_prime(n):
    if n < 2:
        return False
    i = 2
    while i * i <= n:
        if n % i == 0:
            return False
        i += 1
    return True


def factor(n):
    fs, d = [], 2
    while d * d <= n:
        if n % d == 0:
            fs.append(d)
            while n % d == 0:
                n //= d
        d += 1
    if n > 1:
        fs.append(n)
    return fs


def prime_powers(limit):
    out = []
    for p in range(2, limit + 1):
        if is_prime(p):
            k, q = 1, p
            while q <= limit:
                out.append((p, k))
                k += 1
                q *= p
    return out


class PF:
    """the specification: F_p[X]/(f); elements are tuples of k coefficients (lowest degree first)"""

    def __init__(self, p, k, f):
        self.p, self.k, self.q = p, k, p ** k
        self.radix = p
        self.f = self.digits(f, k + 1)            # k+1 coefficients
        lc = self.f[k]
        self.ilc = pow(lc, p - 2, p) if p > 2 else 1
        # X^k mod f
        self.red = tuple(((p - c) * self.ilc) % p for c in self.f[:k])
        self.zero = tuple([0] * k)
        self.one = tuple([1] + [0] * (k - 1))

    def fnum(self):
        return sum(c * self.p ** i for i, c in enumerate(self.f))

    def digits(self, n, cnt):
        out = []
        for _ in range(cnt):
            out.append(n % self.p)
            n //= self.p
        return tuple(out)

    def elt(self, n):
        return self.digits(n, self.k)

    def num(self, a):
        r = 0
        for c in reversed(a):
            r = r * self.p + c
        return r

    def add(self, a, b):
        p = self.p
        return tuple((x + y) % p for x, y in zip(a, b))

    def sub(self, a, b):
        p = self.p
        return tuple((x - y) % p for x, y in zip(a, b))

    def neg(self, a):
        p = self.p
        return tuple((-x) % p for x in a)

    def mul(self, a, b):
        p, k = self.p, self.k
        if k == 1:
            return ((a[0] * b[0]) % p,)
        prod = [0] * (2 * k - 1)
        for i, x in enumerate(a):
            if x:
                for j, y in enumerate(b):
                    prod[i + j] += x * y
        # reduce modulo f from the top
        for d in range(2 * k - 2, k - 1, -1):
            c = prod[d] % p
            if c:
                for j in range(k):
                    prod[d - k + j] += c * self.red[j]
            prod[d] = 0
        return tuple(x % p for x in prod[:k])

    def pow(self, a, e):
        r, b = self.one, a
        while e > 0:
            if e & 1:
                r = self.mul(r, b)
            b = self.mul(b, b)
            e >>= 1
        return r

    def inv(self, a):
        return self.pow(a, self.q - 2)

    def div(self, a, b):
        return self.mul(a, self.inv(b))

    # --- independent checks on the defining polynomial and the generator
    def polmod(self, a, b):
        """remainder of polynomial a by b (lists, b non-zero), over F_p"""
        p = self.p
        a = list(a)
        while a and a[-1] == 0:
            a.pop()
        b = list(b)
        while b and b[-1] == 0:
            b.pop()
        ib = pow(b[-1], p - 2, p) if p > 2 else 1
        while len(a) >= len(b):
            c = (a[-1] * ib) % p
            if c:
                off = len(a) - len(b)
                for j, y in enumerate(b):
                    a[off + j] = (a[off + j] - c * y) % p
            a.pop()
            while a and a[-1] == 0:
                a.pop()
        return a

    def irreducible(self):
        """degree k and no monic divisor of degree 1..k/2 (brute force)"""
        p, k = self.p, self.k
        if self.f[k] == 0:
            return False
        if k == 1:
            return True
        for d in range(1, k // 2 + 1):
            for n in range(p ** d):
                g = []
                m = n
                for _ in range(d):
                    g.append(m % p)
                    m //= p
                g.append(1)
                if not self.polmod(self.f, g):
                    return False
        return True

    def order_is_full(self, g):
        """g^(q-1) = 1 and g^((q-1)/r) != 1 for every prime r | q-1"""
        n = self.q - 1
        if g == self.zero:
            return False
        if self.pow(g, n) != self.one:
            return False
        for r in factor(n):
            if self.pow(g, n // r) == self.one:
                return False
        return True

    def tables(self, g):
        """log2pol, pol2log, plus1 as the property describes them (independent of the model)"""
        q, p = self.q, self.p
        n = q - 1
        l2p = [0] * q
        p2l = [0] * q
        h = self.one
        for i in range(1, q):
            h = self.mul(h, g)
            l2p[i] = self.num(h)
        for i in range(q):
            p2l[l2p[i]] = i
        mone = n if p == 2 else n // 2
        pl1 = [0] * q
        onep = self.one
        for i in range(1, q):
            s = self.num(self.add(self.elt(l2p[i]), onep))
            pl1[i] = p2l[s] - n
        pl1[mone] = 0
        return l2p, p2l, pl1


def find_irreducible(rng, p, k, monic=True):
    """a random irreducible polynomial of degree k over F_p as a coefficient list (lowest degree first)"""
    while True:
        cs = [rng.range(0, p - 1) for _ in range(k)] + [1 if monic else rng.range(1, p - 1)]
        if cs[0] == 0:
            continue
        P = PF(p, k, sum(c * p ** i for i, c in enumerate(cs)))
        if P.irreducible():
            return cs


def find_primitive(rng, p, k, mod):
    """a random primitive element of F_p[X]/(mod) as a coefficient list (trailing zeros dropped)"""
    P = PF(p, k, sum(c * p ** i for i, c in enumerate(mod)))
    while True:
        g = P.elt(rng.range(p if k > 1 else 1, P.q - 1))
        if P.order_is_full(g):
            g = list(g)
            while g and g[-1] == 0:
                g.pop()
            return g


class TF:
    """the specification of a tower: F_qb[Y]/(h) with the base field F_qb = a PF; elements are tuples of k base elements.
    Same interface as PF (elt/num/add/sub/neg/mul/inv/div/zero/one/irreducible) with radix qb instead of p."""

    def __init__(self, base, k, h):
        self.b, self.k, self.p, self.radix = base, k, base.p, base.q
        self.q = base.q ** k
        self.f = self.digs(h, k + 1)
        self.ilc = base.inv(self.f[k]) if self.f[k] != base.zero else None
        self.red = tuple(base.neg(base.mul(c, self.ilc)) for c in self.f[:k]) if self.ilc else None
        self.zero = tuple([base.zero] * k)
        self.one = tuple([base.one] + [base.zero] * (k - 1))

    def digs(self, n, cnt):
        out = []
        for _ in range(cnt):
            out.append(self.b.elt(n % self.radix))
            n //= self.radix
        return tuple(out)

    def elt(self, n):
        return self.digs(n, self.k)

    def num(self, a):
        r = 0
        for c in reversed(a):
            r = r * self.radix + self.b.num(c)
        return r

    def fnum(self):
        return self.num(self.f[:self.k]) + self.b.num(self.f[self.k]) * self.radix ** self.k

    def add(self, a, b):
        return tuple(self.b.add(x, y) for x, y in zip(a, b))

    def sub(self, a, b):
        return tuple(self.b.sub(x, y) for x, y in zip(a, b))

    def neg(self, a):
        return tuple(self.b.neg(x) for x in a)

    def mul(self, a, b):
        B, k = self.b, self.k
        prod = [B.zero] * (2 * k - 1)
        for i, x in enumerate(a):
            if x != B.zero:
                for j, y in enumerate(b):
                    prod[i + j] = B.add(prod[i + j], B.mul(x, y))
        for d in range(2 * k - 2, k - 1, -1):
            c = prod[d]
            if c != B.zero:
                for j in range(k):
                    prod[d - k + j] = B.add(prod[d - k + j], B.mul(c, self.red[j]))
        return tuple(prod[:k])

    def pow(self, a, e):
        r, b = self.one, a
        while e > 0:
            if e & 1:
                r = self.mul(r, b)
            b = self.mul(b, b)
            e >>= 1
        return r

    def inv(self, a):
        return self.pow(a, self.q - 2)

    def div(self, a, b):
        return self.mul(a, self.inv(b))

    def polmod_zero(self, g):
        """is f divisible by the monic polynomial g (list of base elements, degree d)?"""
        B = self.b
        a = list(self.f)
        d = len(g) - 1
        while len(a) - 1 >= d:
            c = a[-1]
            if c != B.zero:
                off = len(a) - 1 - d
                for j, y in enumerate(g):
                    a[off + j] = B.sub(a[off + j], B.mul(c, y))
            a.pop()
        return all(x == B.zero for x in a)

    def irreducible(self):
        """degree k over F_qb and no monic divisor of degree 1..k/2 (brute force; None when the search is too large)"""
        B, k = self.b, self.k
        if self.f[k] == B.zero:
            return False
        if k == 1:
            return True
        if self.radix ** (k // 2) > 200000:
            return None
        for d in range(1, k // 2 + 1):
            for n in range(self.radix ** d):
                g = [B.elt((n // self.radix ** i) % self.radix) for i in range(d)] + [B.one]
                if self.polmod_zero(g):
                    return False
        return True


def hash3(v):
    h1 = h2 = 0
    for x in v:
        x += 4294967296
        h1 = (h1 * 31 + x + 7) % 1000000007
        h2 = (h2 * 37 + x + 11) % 998244353
    return "%d.%d" % (h1, h2)


# ------------------------------------------------------------------ what the source says about the array loops

ARR_VARIANTS = ["mul", "mul_s", "div", "div_s", "add", "add_s", "sub", "sub_s", "neg", "inv",
                "axpy", "axpy_s", "axpyin", "axmy", "axmy_s", "maxpyin"]
ARR_CODE = {v: i for i, v in enumerate(ARR_VARIANTS)}
ARR_TWO = ("mul", "div", "add", "sub", "axpy", "axmy")        # forms with two array operands besides the destination


def loop_styles():
    """variant -> True when the loop of that array function is `for (i = sz; --i; )` (pre-decrement)"""
    txt = open(os.path.join(vf.REPO, "src/kernel/field/gfq.inl")).read()
    txt = re.sub(r"//[^\n]*", "", txt)
    styles = {}
    for m in re.finditer(r"GFqDom<Any>::(\w+)\s*\(\s*const\s+size_t\s+sz\s*,([^)]*)\)\s*const\s*\{", txt):
        name, params = m.group(1), [x.strip() for x in m.group(2).split(",")]
        if name in ("assign",):
            continue
        scalar_last = params[-1].startswith("const Rep")
        key = name + ("_s" if scalar_last and name in ("mul", "div", "add", "sub", "axpy", "axmy") else "")
        body = txt[m.end():m.end() + 400]
        fm = re.search(r"for\s*\(([^;]*);([^;]*);([^)]*)\)", body)
        if not fm:
            continue
        cond = fm.group(2).replace(" ", "")
        styles[key] = (cond == "--i")
    return styles


# ------------------------------------------------------------------ aliasing patterns (harness/c05_alias.h)
ALIAS_NARGS = {"add": 3, "sub": 3, "mul": 3, "div": 3, "axpyin": 3, "maxpyin": 3, "axmyin": 3, "neg": 2, "inv": 2, "addin": 2, "subin": 2,
               "mulin": 2, "divin": 2, "axpy": 4, "axmy": 4, "maxpy": 4, "negin": 1, "invin": 1}


def alias_patterns(n):
    """all set partitions of n argument positions (destination first) as restricted growth strings: every way in which
    destination and operands can be the same object"""
    out = []

    def rec(pre, mx):
        if len(pre) == n:
            out.append("".join(map(str, pre)))
            return
        for c in range(mx + 2):
            rec(pre + [c], max(mx, c))
    rec([0], 0)
    return out


def alias_effective(v, pat, vals):
    """the operand values the call really sees (first value that claims a slot wins), in the order spec_op expects"""
    assigned, vi, eff = {}, 0, []
    inplace = v.endswith("in")
    if inplace:
        assigned[pat[0]] = vals[0]
        vi = 1
    for ch in pat[1:]:
        if ch not in assigned:
            assigned[ch] = vals[vi]
        eff.append(assigned[ch])
        vi += 1
    if inplace:
        eff = [assigned[pat[0]]] + eff
    return (eff + [0, 0, 0])[:3]


def alias_lines(rng, prefix, q, ntrip, zero_ok=False, exhaustive=()):
    """(line, variant, pattern, vals) for every variant x every aliasing pattern x ntrip operand triples"""
    N = q - 1
    out = []
    edge = [0, 1, N, N // 2, 2 if N >= 2 else 1]
    for v, n in sorted(ALIAS_NARGS.items()):
        nv = n if v.endswith("in") else n - 1
        for pat in alias_patterns(n):
            if v in exhaustive and q <= 9:
                trips = [(a, b, c) for a in range(q) for b in range(q if nv >= 2 else 1) for c in range(q if nv >= 3 else 1)]
            else:
                trips = [tuple(rng.choice(edge) if rng.chance(1, 3) else rng.range(0, N) for _ in range(3)) for _ in range(ntrip)]
            for vals in trips:
                vals = [x if 0 <= x <= N else 0 for x in vals][:max(nv, 1)]
                out.append(("%s %s %s %s" % (prefix, v, pat, " ".join(map(str, vals))), v, pat, list(vals) + [0, 0]))
    return out


# ------------------------------------------------------------------ case generation

OPS1 = {"neg": 0, "negin": 1, "inv": 2, "invin": 3, "m.sq": 4}
OPS2 = {"add": 0, "addin": 1, "sub": 2, "subin": 3, "mul": 4, "mulin": 5, "div": 6, "divin": 7, "m.sqadd": 8}
OPS3 = {"axpy": 0, "axpyin": 1, "maxpyin": 2, "axmyin": 3, "axmy": 4, "maxpy": 5, "m.mulsub": 6, "m.muladd": 0}


def spec_op(P, v, A, B, C):
    """field-level meaning of each call form; None when the operation is not specified (division by zero)"""
    if v in ("add", "addin"):
        return P.add(A, B)
    if v in ("sub", "subin"):
        return P.sub(A, B)
    if v in ("mul", "mulin"):
        return P.mul(A, B)
    if v in ("div", "divin"):
        return None if B == P.zero else P.div(A, B)
    if v in ("neg", "negin"):
        return P.neg(A)
    if v in ("inv", "invin"):
        return None if A == P.zero else P.inv(A)
    if v == "m.sq":
        return P.mul(A, A)
    if v == "m.sqadd":
        return P.add(P.mul(A, A), B)
    if v in ("axpy", "m.muladd"):
        return P.add(P.mul(A, B), C)
    if v == "axpyin":          # r = r + b*c with r = A
        return P.add(A, P.mul(B, C))
    if v == "maxpyin":         # r = r - b*c
        return P.sub(A, P.mul(B, C))
    if v == "axmyin":          # r = b*c - r
        return P.sub(P.mul(B, C), A)
    if v == "axmy":            # a*b - c
        return P.sub(P.mul(A, B), C)
    if v == "maxpy":           # c - a*b
        return P.sub(C, P.mul(A, B))
    if v == "m.mulsub":        # b - a1*a2  (third operand minus the product)
        return P.sub(C, P.mul(A, B))
    raise KeyError(v)


def arr_spec(P, val, v, s, r, x, y):
    """expected images (polynomials) of the destination after the call, element by element"""
    S = val(s)
    out = []
    for i in range(len(r)):
        X = val(x[i]) if i < len(x) else None
        Y = val(y[i]) if i < len(y) else None
        R = val(r[i])
        if v == "mul": e = P.mul(X, Y)
        elif v == "mul_s": e = P.mul(X, S)
        elif v == "div": e = None if Y == P.zero else P.div(X, Y)
        elif v == "div_s": e = None if S == P.zero else P.div(X, S)
        elif v == "add": e = P.add(X, Y)
        elif v == "add_s": e = P.add(X, S)
        elif v == "sub": e = P.sub(X, Y)
        elif v == "sub_s": e = P.sub(X, S)
        elif v == "neg": e = P.neg(X)
        elif v == "inv": e = None if X == P.zero else P.inv(X)
        elif v == "axpy": e = P.add(P.mul(S, X), Y)
        elif v == "axpy_s": e = P.add(P.mul(S, X), val(y[0]))
        elif v == "axpyin": e = P.add(R, P.mul(S, X))
        elif v == "axmy": e = P.sub(P.mul(S, X), Y)
        elif v == "axmy_s": e = P.sub(P.mul(S, X), val(y[0]))
        elif v == "maxpyin": e = P.sub(R, P.mul(S, X))
        else: raise KeyError(v)
        out.append(e)
    return out


class FieldCase:
    def __init__(self, T, ctor, p, k, mod=None, gen=None, full=True, vec=False, way="a"):
        self.T, self.ctor, self.p, self.k, self.mod, self.gen, self.full, self.vec = T, ctor, p, k, mod, gen, full, vec
        self.way, self.other = way, (2, 2)
        self.q = p ** k
        self.lines = []      # (kind, impl_line, model_line_or_None, meta)

    def field_line(self):
        s = "field %d %s:%s:%d:%d %d %d" % (self.T, self.ctor, self.way, self.other[0], self.other[1], self.p, self.k)
        if self.mod is not None:
            s += " | " + " ".join(map(str, self.mod))
        if self.gen is not None:
            s += " | " + " ".join(map(str, self.gen))
        return s


WAYS = "adcosht"       # how the field object that is used was obtained (see harness/c05_gfq.C, harness/c05_ext.C)
OTHERS = [(2, 3), (13, 2), (3, 2), (251, 1), (2, 1), (5, 3), (31, 1), (2, 7)]


def bitlen(p):
    """ceil(log2 p) as GFqExtFast::_pceil computes it"""
    n, pp = 1, 2
    while pp < p:
        pp <<= 1
        n += 1
    return n


def other_field(i, p, k, limit=None):
    """a field GF(p2^k2) to assign over: other characteristic, other degree or size, other bit length of the characteristic;
    deterministic in the index i (alternates smaller / larger characteristic)"""
    cands = [o for o in OTHERS if o[0] != p and bitlen(o[0]) != bitlen(p) and (o[1] != k or k == 1) and (limit is None or limit(o))]
    if not cands:
        cands = [o for o in OTHERS if o[0] != p and (limit is None or limit(o))]
    return cands[i % len(cands)]


def elements_sample(rng, q, n):
    N = q - 1
    base = [0, 1, N, N // 2, max(N - 1, 0), 2 if N >= 2 else 1, (N + 1) // 2]
    base = [b for b in base if 0 <= b <= N]
    out = list(dict.fromkeys(base))
    while len(out) < n:
        out.append(rng.range(0, N))
    return out


def gen_ops(rng, fc, per, styles, tier):
    q, N = fc.q, fc.q - 1
    L = fc.lines
    # scalar forms
    if q <= 64:
        pairs = [(a, b) for a in range(q) for b in range(q)]
        if q > 16:
            rng.shuffle(pairs)
            pairs = pairs[:per * 4] if tier == "quick" else pairs
        singles = list(range(q))
    else:
        es = elements_sample(rng, q, 8)
        pairs = [(a, b) for a in es[:6] for b in es[:6]] + [(rng.range(0, N), rng.range(0, N)) for _ in range(per)]
        singles = elements_sample(rng, q, per)
    for v, c in OPS1.items():
        for a in singles:
            L.append(("op", "op %s %d" % (v, a), "op1 %d %d" % (c, a), (v, a, 0, 0)))
    for v, c in OPS2.items():
        for a, b in pairs:
            L.append(("op", "op %s %d %d" % (v, a, b), "op2 %d %d %d" % (c, a, b), (v, a, b, 0)))
    es = elements_sample(rng, q, 5)
    triples = [(a, b, c) for a in es[:4] for b in es[:4] for c in es[:4]] if q > 4 else \
        [(a, b, c) for a in range(q) for b in range(q) for c in range(q)]
    triples += [(rng.range(0, N), rng.range(0, N), rng.range(0, N)) for _ in range(per)]
    for v, c in OPS3.items():
        for a, b, cc in triples:
            L.append(("op", "op %s %d %d %d" % (v, a, b, cc), "op3 %d %d %d %d" % (c, a, b, cc), (v, a, b, cc)))
    for a, b in pairs[:per]:
        L.append(("pred", "op pred %d %d" % (a, b), None, (a, b)))
        L.append(("same", "op assign %d" % a, None, a))
        L.append(("same", "op reduce %d" % a, None, a))
    # every scalar op in every aliasing pattern of destination and operands
    for line, v, pat, vals in alias_lines(rng, "opa", q, 3 if q > 16 else 6):
        L.append(("opa", line, None, (v, pat, vals)))
    # array forms with the special scalars (zero, one, mOne)
    for v in ARR_VARIANTS:
        for s in sorted({0, N, (N if fc.p == 2 else N // 2)}):
            if v == "div_s" and s == 0:
                continue
            sz = 3
            r = [rng.range(0, N) for _ in range(sz)]
            x = [0, N, rng.range(0, N)]
            y = [rng.range(1, N) if v in ("div",) else rng.range(0, N) for _ in range(sz)]
            if v == "inv":
                x = [N, 1 if N > 1 else N, rng.range(1, N)]
            if v.endswith("_s") and v.startswith("ax"):
                y = [rng.choice([0, N, rng.range(0, N)])]
            pre = 1 if styles.get(v, False) else 0
            tail = "%d %d | %s | %s | %s" % (sz, s, " ".join(map(str, r)), " ".join(map(str, x)), " ".join(map(str, y)))
            L.append(("arr", "arr %s %s" % (v, tail), "arr %d %d %s" % (ARR_CODE[v], pre, tail), (v, sz, s, r, x, y)))
    # array forms: lengths 0, 1, 2, n
    for v in ARR_VARIANTS:
        for sz in [0, 1, 2, rng.range(3, 9), rng.range(3, 9)]:
            s = rng.range(0, N) if rng.chance(3, 4) else rng.choice([0, 1, N])
            r = [rng.range(0, N) for _ in range(sz)]
            x = [rng.choice([0, N, rng.range(0, N), rng.range(0, N)]) for _ in range(sz)]
            y = [rng.choice([0, N, rng.range(0, N), rng.range(0, N)]) for _ in range(sz)]
            if v.endswith("_s") and v.startswith("ax"):
                y = [rng.range(0, N)]
            if v in ("div", "inv", "div_s"):      # keep the divisors non-zero: division by zero is not specified
                y = [e if e else 1 for e in y]
                if v == "inv":
                    x = [e if e else N for e in x]
                if v == "div_s" and s == 0:
                    s = 1
            pre = 1 if styles.get(v, False) else 0
            tail = "%d %d | %s | %s | %s" % (sz, s, " ".join(map(str, r)), " ".join(map(str, x)), " ".join(map(str, y)))
            L.append(("arr", "arr %s %s" % (v, tail), "arr %d %d %s" % (ARR_CODE[v], pre, tail), (v, sz, s, r, x, y)))
    # array forms with ALIASED array arguments (arrays as locations): rx = x is the destination array, ry = y is, xy = x and y are
    # one array, rxy = all three.  Fields with q <= 16: ONE call per (form, pattern, scalar) whose arrays enumerate ALL operand pairs
    # (index = pair), i.e. the full field; larger fields: the boundary elements + random ones.  Deterministic for every seed.
    mone = N if fc.p == 2 else N // 2
    for v in ARR_VARIANTS:
        two = v in ARR_TWO
        for al in (("rx", "ry", "xy", "rxy") if two else ("rx",)):
            for s in ([0, N, mone, rng.range(0, N)] if q <= 16 else [rng.choice([0, N, mone]), rng.range(1, N)]):
                if v == "div_s" and s == 0:
                    continue
                if q <= 16:
                    ps = [(a, b) for a in range(q) for b in range(q)] if (two and al in ("rx", "ry")) else [(a, a) for a in range(q)]
                else:
                    es = elements_sample(rng, q, 9)
                    ps = [(a, rng.choice(es)) for a in es] if (two and al in ("rx", "ry")) else [(a, a) for a in es]
                if v == "div":
                    ps = [(a, b) for (a, b) in ps if b != 0]
                if v == "inv":
                    ps = [(a, b) for (a, b) in ps if a != 0]
                x = [a for a, _ in ps]
                y = [b for _, b in ps] if two else [rng.range(0, N)]
                r = list(x) if al in ("rx", "rxy") else (list(y) if al == "ry" else [rng.range(0, N) for _ in ps])
                sz = len(ps)
                tail = "%d %d | %s | %s | %s" % (sz, s, " ".join(map(str, r)), " ".join(map(str, x)), " ".join(map(str, y)))
                la = 0 if al in ("rx", "rxy") else 1
                lb = (0 if al in ("ry", "rxy") else (la if al == "xy" else 2)) if two else la
                mline = "arrl %d %d %d %d 0 %d %d | %s | %s | %s" % (ARR_CODE[v], sz, s, (y[0] if not two else 0), la, lb,
                                                                    " ".join(map(str, r)), " ".join(map(str, x)), " ".join(map(str, y)))
                L.append(("arra", "arr %s@%s %s" % (v, al, tail), mline, (v, al, sz, s, r, x, y)))
    es = elements_sample(rng, q, 7) if q > 16 else list(range(q))
    tail = "%d | %s | %s" % (len(es), " ".join(map(str, es)), " ".join(map(str, es)))
    L.append(("dot", "dot@xy " + tail, "dot " + tail, (len(es), es, es)))
    for sz in [0, 1, 2, rng.range(3, 12), rng.range(3, 12)]:
        x = [rng.choice([0, N, rng.range(0, N), rng.range(0, N)]) for _ in range(sz)]
        y = [rng.choice([0, N, rng.range(0, N), rng.range(0, N)]) for _ in range(sz)]
        tail = "%d | %s | %s" % (sz, " ".join(map(str, x)), " ".join(map(str, y)))
        L.append(("dot", "dot " + tail, "dot " + tail, (sz, x, y)))
        L.append(("assignarr", "arr assign %d 0 | %s | %s |" % (sz, " ".join(["-99"] * sz), " ".join(map(str, x))), None, (sz, x)))
    # init / convert
    vals = [0, 1, q - 1, q, q + 1, fc.p, fc.p - 1, 2 * q + 3, rng.range(0, q - 1), rng.range(0, 10 * q)]
    for ty, hi in (("i32", 2**31 - 1), ("u32", 2**32 - 1), ("i64", 2**63 - 1), ("u64", 2**64 - 1), ("dbl", 2**53),
                   ("flt", 2**24), ("Integer", 2**80), ("assignI", 2**80)):
        for x in vals + [hi, hi - 1, rng.range(0, hi)]:
            if x <= hi:
                if ty in ("i32",) and q > 2**31 - 1:
                    continue
                L.append(("cvt", "cvt %s %d" % (ty, x), None, (ty, x)))
        if fc.k == 1 and ty in ("i32", "i64", "dbl", "flt", "Integer"):
            for x in (-1, -fc.p, -fc.p - 1, -rng.range(0, min(hi, 2**40)), -(hi if ty != "flt" else 2**24)):
                L.append(("cvt", "cvt %s %d" % (ty, x), None, (ty, x)))
    L.append(("cvt", "cvt none 0", None, ("none", 0)))
    if fc.vec:
        # init(Rep&, Vector) keeps function-local statics (prime field, modulus) from its FIRST call in the process
        # (property C16); it is therefore exercised only in dedicated single-field processes.  The empty vector is
        # not a polynomial Poly1PadicDom::eval accepts (it dereferences rbegin()).
        for x in [1, 2, q - 1, q, q + 5, rng.range(1, q * fc.p), rng.range(1, q * q), rng.range(1, q * q)]:
            L.append(("cvt", "cvt vec %d" % x, None, ("vec", x)))


def main(tier, replay=None):
    chk = vf.Check("C05", tier, "proof")
    rng = vf.Rng(chk.seed)
    chk.cov["trusted_base"] = [
        "Coq 8.16.1 kernel + vm_compute (no native_compute)",
        "extraction: ExtrOcamlBasic only; Z/positive/nat kept as extracted inductives; OCaml 4.13.1; zarith only for text I/O",
        "the model is hand-written after the macros of gfq.inl; polynomial product/remainder inside the table builder are specification-level (Poly1Dom is property C08)",
        "GFqExtFast q-adic model (QadicModel.v): the tables _low2log/_high2log are modelled by their specification (residue polynomial of the index digits); the floating-point quotient d/p of init(double) is the exact floor; callers' double arithmetic on integers below 2^53 is exact",
        "Extension inv/div (ExtModel.v, Poly1Dom::invmod): partial correctness proved; totality observed per call",
        "array forms: the location model (Model.v arrL) takes the element operands as values; that each loop body of gfq.inl reads them before the macro writes r[i] is read off the source (table in Model.v) and tested by the aliased `arra` lines",
        "second macro set of gfq.inl (__GIVARO_COUNT__): not modelled separately; a harness compiled with -D__GIVARO_COUNT__ must answer every line of 15 prescribed fields exactly as the standard build does",
        "harness/c05_gfq.C, harness/c05_ext.C, checks/C05.py (generators, python F_p[X]/(f) oracle, brute-force irreducibility/primitivity)",
        "g++ / x86-64 for the implementation side",
    ]
    # 1. proofs (coq/C05 reuses the compiled objects of coq/C09: built here only when they are missing)
    res = coq_props_needed_only()
    chk.proof_result(res, AREA)
    # 2. executables
    drv, l1 = vf.ocaml_build(AREA) if os.path.exists(os.path.join(vf.coq_dir(AREA), "ocaml", "model.ml")) else (None, "extraction did not run")
    if drv is None:
        chk.broke("extracted model driver does not build", l1)
    himpl, l2 = build_harness_retry("c05_gfq.C", deps=("c05_alias.h",))
    if himpl is None:
        chk.broke("implementation harness c05_gfq.C does not compile against /repo", l2)
        return chk.finish()
    styles = loop_styles()
    chk.assumptions = ["tables of the model are built from the (p,k,f,g) the implementation reports; f and g are checked independently (irreducible, primitive)",
                       "array loop style read from gfq.inl per function (pre-decrement = index 0 skipped): %s"
                       % ",".join("%s:%s" % (k, "pre" if v else "post") for k, v in sorted(styles.items()))]
    # 3. fields
    # quick: every prime power <= 1024.  thorough: every prime power <= 4096, every proper prime power (k >= 2) up to the
    # int32_t table limit 65536, and a sample of the primes in between (python builds an independent table per field).
    limit = 1024 if tier == "quick" else 65536
    fields = []
    pps = prime_powers(limit)
    if tier == "thorough":
        big_primes = [pk for pk in pps if pk[1] == 1 and pk[0] > 4096]
        rng.shuffle(big_primes)
        keep = set(big_primes[:40])
        pps = [pk for pk in pps if pk[0] ** pk[1] <= 4096 or pk[1] >= 2 or pk in keep]
    for (p, k) in pps:
        q = p ** k
        Ts = (32, 64) if (q <= 128 or tier == "thorough" and q <= 1024) else ((32,) if (p + k) % 2 else (64,))
        for T in Ts:
            fields.append(FieldCase(T, "auto", p, k))
    # the fields test-ffarith builds
    fields.append(FieldCase(32, "auto", 65521, 1))
    fields.append(FieldCase(64, "mod", 2, 8, mod=[1, 1, 0, 1, 1, 0, 0, 0, 1]))
    fields.append(FieldCase(64, "modgen", 7, 3, mod=[3, 0, 0, 1], gen=[5, 3, 4]))
    fields.append(FieldCase(32, "auto", 5, 4))
    fields.append(FieldCase(32, "auto", 3, 4))
    fields.append(FieldCase(64, "auto", 11, 3))
    fields.append(FieldCase(64, "auto", 2, 2))
    fields.append(FieldCase(32, "auto", 2, 16))           # the int32_t table limit (maxCardinality)
    fields.append(FieldCase(32, "mod", 3, 3, mod=[2, 1, 0, 2]))     # non-monic modulus 2X^3 + X + 2
    # user-supplied modulus / generator: the constructors take them on trust (precondition: irreducible, primitive),
    # so the check supplies irreducible moduli (monic and non-monic) and primitive generators found by the oracle
    for (T, p, k, monic) in [(64, 5, 2, True), (32, 3, 4, True), (32, 2, 7, True), (64, 7, 2, False), (32, 11, 2, True),
                             (64, 3, 5, False), (32, 13, 2, False), (64, 2, 9, True)][:(5 if tier == "quick" else 8)]:
        m = find_irreducible(rng, p, k, monic)
        fields.append(FieldCase(T, "modgen", p, k, mod=m, gen=find_primitive(rng, p, k, m)))
        m = find_irreducible(rng, p, k, monic)
        # coefficients given as arbitrary integers (negative / >= p): the constructor reduces them with Zp.init
        m2 = [c + p * rng.range(-2, 2) for c in m]
        fields.append(FieldCase(64 if T == 32 else 32, "mod", p, k, mod=m2))
    # second macro set of gfq.inl (#ifdef __GIVARO_COUNT__, different MUL formula, no (TT) casts): fields given by modulus AND
    # generator (constructed identically by every build); they go through the whole pipeline below, and afterwards the same
    # input lines are run on a harness compiled with -D__GIVARO_COUNT__, whose answers must be identical line by line
    count_fields = []
    for (T, p, k) in [(32, 2, 1), (64, 3, 1), (32, 5, 1), (64, 2, 2), (32, 7, 1), (32, 2, 3), (64, 3, 2), (32, 13, 1), (64, 2, 4), (32, 5, 2), (64, 3, 3),
                      (32, 7, 2), (64, 2, 6), (32, 251, 1), (32, 2, 12)] + ([(64, 3, 8), (32, 2, 15)] if tier == "thorough" else []):
        m = find_irreducible(rng, p, k, True) if k > 1 else [0, 1]
        fcx = FieldCase(T, "modgen", p, k, mod=m, gen=find_primitive(rng, p, k, m))
        fcx.count_cfg = True
        count_fields.append(fcx)
    fields += count_fields
    big = [FieldCase(64, "auto", 2, 20, full=False), FieldCase(64, "auto", 4194301, 1, full=False)]
    fields += big          # GF(2^20), GF(4194301): implementation vs oracle only (no model tables)
    # every way of obtaining the field object (constructed in place, copy-constructed, assigned over a default-constructed
    # object / over a field of other characteristic, degree and size / to itself / twice, copy kept while the source is
    # overwritten): rotated deterministically over the fields, so each way is used by ~1/7 of the fields of every run
    for i, fc in enumerate(fields):
        fc.way = WAYS[i % len(WAYS)]
        fc.other = other_field(i // len(WAYS), fc.p, fc.k)
    per = 12 if tier == "quick" else 60
    for fc in fields:
        gen_ops(rng, fc, per if fc.q <= 4096 else 3 * per, styles, tier)
    # 4. run the implementation
    impl_in = []
    for fc in fields:
        impl_in.append(fc.field_line())
        impl_in += [l[1] for l in fc.lines]
    vf.log("[C05] proofs+builds+generation: %.1fs since start" % (time.time() - chk.t0))
    is_field = lambda l: l.startswith("field")
    iout = run_stream(chk, himpl, impl_in, gfq_form, is_field, "GFqDom (crash or hang inside the library)",
                      240 if tier == "quick" else 3600, 1800 if tier == "quick" else 7200, "GFqDom harness")
    vf.log("[C05] implementation harness: %.1fs since start" % (time.time() - chk.t0))
    n_fields_generated = len(fields)
    # 4b. the configuration with the second macro set
    hcnt, lcnt = build_harness_retry("c05_gfq.C", deps=("c05_alias.h",), extra_flags=("-D__GIVARO_COUNT__",), name="c05_gfq_count")
    dist_cnt = {"count-config:lines-compared": 0}
    if hcnt is None:
        inconclusive(chk, "the harness does not compile with -D__GIVARO_COUNT__ (second macro set of gfq.inl not exercised): " + lcnt[-300:].replace("\n", " "))
    else:
        cin, cexp, pos0 = [], [], 0
        for fc in fields:
            nl = 1 + len(fc.lines)
            if getattr(fc, "count_cfg", False) and pos0 + nl <= len(iout):
                cin += impl_in[pos0:pos0 + nl]
                cexp += iout[pos0:pos0 + nl]
            pos0 += nl
        cout = run_stream(chk, hcnt, cin, gfq_form, is_field, "GFqDom under __GIVARO_COUNT__ (second macro set of gfq.inl)",
                          240 if tier == "quick" else 1800, 1800, "__GIVARO_COUNT__ harness")
        nb = 0
        cur_field = None
        for li, a_std, a_cnt in zip(cin, cexp, cout):
            if li.startswith("field"):
                cur_field = li
            if a_std is None or a_cnt is None:
                continue
            dist_cnt["count-config:lines-compared"] += 1
            if a_std != a_cnt and nb < 10:
                nb += 1
                chk.fail_input("GFqDom under __GIVARO_COUNT__ (second macro set of gfq.inl)", "differs from the standard macro set",
                               {"field": cur_field, "line": li[:200]}, a_std[:200], a_cnt[:200],
                               "same field (modulus and generator prescribed), same call: the build with the counting macros answers differently")
        vf.log("[C05] __GIVARO_COUNT__ configuration: %d lines compared, %.1fs since start" % (dist_cnt["count-config:lines-compared"], time.time() - chk.t0))
    # 5. the model on the same fields, built from the (f, g) the implementation reports
    dist_ext = {}
    pos = 0
    model_in = []
    for fc in fields:
        hdr_answer = iout[pos]
        t = (hdr_answer or "").split()
        fc.desc = t
        fc.out = iout[pos + 1: pos + 1 + len(fc.lines)]
        pos += 1 + len(fc.lines)
        fc.ok = len(t) > 9 and t[0] == "F"
        if hdr_answer is None:
            continue                   # not driven / not answered (crash, does-not-return or caps): reported by run_stream, counted by the floor
        if not fc.ok:
            chk.fail_input("GFqDom::GFqDom", "constructor", {"field": fc.field_line()}, "a field", " ".join(t[:20]))
            continue
        x = t.index("X")
        fc.irred, fc.g = int(t[x + 1]), int(t[x + 2])
        if fc.k == 1:
            fc.irred = fc.p            # the polynomial X; _irred is not set by the constructor for k = 1
        if fc.full:
            model_in.append("field %d %d %d %d" % (fc.p, fc.k, fc.irred, fc.g))
            model_in += [l[2] for l in fc.lines if l[2] is not None]
    # the extracted model (and the other field classes) run in the background while the oracle tables are computed
    import threading
    box = {}

    def run_model():
        t0 = time.time()
        box["m"] = vf.run_lines(drv, "\n".join(model_in) + "\n", timeout=(1800 if tier == "quick" else 7200))
        vf.log("[C05] extracted model: %.1fs" % (time.time() - t0))
    threads = []
    if drv:
        threads.append(threading.Thread(target=run_model))
    threads.append(threading.Thread(target=ext_part, args=(chk, vf.Rng(chk.seed + 77), tier, dist_ext, drv)))
    threads.append(threading.Thread(target=vec_part, args=(chk, vf.Rng(chk.seed + 78), himpl, dist_ext)))
    threads.append(threading.Thread(target=e1_part, args=(chk, vf.Rng(chk.seed + 79), himpl, dist_ext)))
    for th in threads:
        th.start()
    for fc in fields:
        if fc.ok and fc.q <= 65536:
            P0 = PF(fc.p, fc.k, fc.irred)
            fc.pre = (P0, (fc.k == 1 or P0.irreducible()) and P0.order_is_full(P0.elt(fc.g)))
            fc.tabs = P0.tables(P0.elt(fc.g)) if fc.pre[1] else None
    vf.log("[C05] oracle tables: %.1fs since start" % (time.time() - chk.t0))
    for th in threads:
        th.join()
    vf.log("[C05] background parts joined: %.1fs since start" % (time.time() - chk.t0))
    mout = None
    if drv:
        rc, mout, merr = box["m"]
        if rc == 124:
            inconclusive(chk, "extracted model reached the wall-clock limit after %d/%d lines (correspondence not compared)" % (len(mout), len(model_in)))
            mout = None
        elif rc != 0 or len(mout) != len(model_in):
            chk.broke("model driver failed (rc=%s, %d/%d lines)" % (rc, len(mout), len(model_in)), merr[-2000:])
            mout = None
    # 6. comparison
    mpos = 0
    ncorr = 0
    dist = {}
    nfields_tab = 0
    nchecked = 0
    n_answers_compared = 0

    def bump(k, n=1):
        dist[k] = dist.get(k, 0) + n

    for fc in fields:
        if not fc.ok:
            continue
        t = fc.desc
        p, k, q, N = fc.p, fc.k, fc.q, fc.q - 1
        fname = "GF(%d^%d)/int%d_t/%s/%s" % (p, k, fc.T, fc.ctor, fc.way)
        x = t.index("X")
        P = PF(p, k, fc.irred)
        G = P.elt(fc.g)
        # 6a. descriptors: cardinality / characteristic / exponent / constants
        exp_desc = {"q": q, "one": N, "mone": (N if p == 2 else N // 2), "card": q, "char": p, "expo": k, "zero": 0,
                    "size": q, "residu": q, "genrep": 1, "cardI": q, "char64": p, "min": 0, "max": N, "X": True}
        got_desc = {"q": int(t[1]), "one": int(t[2]), "mone": int(t[3]), "card": int(t[x + 3]), "char": int(t[x + 4]),
                    "expo": int(t[x + 5]), "zero": int(t[x + 6]), "size": int(t[x + 7]), "residu": int(t[x + 8]),
                    "genrep": int(t[x + 9]), "cardI": int(t[x + 10]), "char64": int(t[x + 11]), "min": int(t[x + 12]), "max": int(t[x + 13]),
                    # indeterminate() / indeterminate(Rep&) / sage_generator(): the representation of the polynomial X (k > 1)
                    "X": (int(t[x + 14]) == -9) if k == 1 else (fc.q > 65536 or (0 <= int(t[x + 14]) <= N and P.pow(G, int(t[x + 14])) == P.elt(p)))}
        chk.count(("desc", fname))
        bump("way:" + fc.way)
        if exp_desc != got_desc:
            chk.fail_input("GFqDom::cardinality/characteristic/exponent", "descriptor", {"field": fc.field_line()}, exp_desc, got_desc)
        # 6b. the defining polynomial and the generator, independently of every table
        chk.count(("irred", fname))
        if k > 1 and not P.irreducible():
            chk.fail_input("GFqDom::GFqDom", "modulus-reducible", {"field": fc.field_line(), "irred": fc.irred}, "irreducible of degree %d" % k, fc.irred)
            continue
        if not P.order_is_full(G):
            chk.fail_input("GFqDom::GFqDom", "generator-not-primitive", {"field": fc.field_line(), "irred": fc.irred, "gen": fc.g},
                           "an element of order %d" % N, fc.g)
            continue
        if fc.mod is not None:
            want = sum((c % p) * p ** i for i, c in enumerate(fc.mod))
            if want != fc.irred:
                chk.fail_input("GFqDom::GFqDom(P,e,modPoly)", "stored-modulus", {"field": fc.field_line()}, want, fc.irred)
        if fc.gen is not None:
            want = sum((c % p) * p ** i for i, c in enumerate(fc.gen))
            if want != fc.g:
                chk.fail_input("GFqDom::GFqDom(P,e,modPoly,genPoly)", "stored-generator", {"field": fc.field_line()}, want, fc.g)
        # 6c. tables: implementation vs oracle tables vs model tables
        hx = t.index("H")
        ihash = t[hx + 1: hx + 4]
        itab = None
        if "T" in t:
            tx = t.index("T")
            itab = [[int(v) for v in part.split()] for part in " ".join(t[tx + 1:]).split("|")]
        if q <= 65536:
            l2p, p2l, pl1 = fc.tabs if getattr(fc, 'tabs', None) else P.tables(G)
            ohash = [hash3(l2p), hash3(p2l), hash3(pl1)]
            nfields_tab += 1
            chk.count(("tables", fname))
            if ohash != ihash or (itab is not None and itab != [l2p, p2l, pl1]):
                which = [n for n, a, b in zip(("log2pol", "pol2log", "plus1"), ohash, ihash) if a != b]
                detail = ""
                if itab is not None:
                    for n, a, b in zip(("log2pol", "pol2log", "plus1"), [l2p, p2l, pl1], itab):
                        for i, (u, w) in enumerate(zip(a, b)):
                            if u != w:
                                detail = "%s[%d]: expected %d, observed %d" % (n, i, u, w)
                                break
                        if detail:
                            break
                chk.fail_input("GFqDom::GFqDom tables", "table-entry", {"field": fc.field_line(), "irred": fc.irred, "gen": fc.g, "tables": which},
                               ohash, ihash, detail)
            val = lambda a, _l=l2p, _P=P: _P.elt(_l[a]) if 0 <= a < len(_l) else None
        else:
            ohash = None
            cache = {}

            def val(a, _P=P, _G=G, _c=cache, _N=N):
                if not (0 <= a <= _N):
                    return None
                if a not in _c:
                    _c[a] = _P.zero if a == 0 else _P.pow(_G, a)
                return _c[a]
        mlines = None
        if mout is not None and fc.full:
            mt = mout[mpos].split()
            nm = len([l for l in fc.lines if l[2] is not None])
            mlines = mout[mpos + 1: mpos + 1 + nm]
            mpos += 1 + nm
            ncorr += 1
            mh = mt[mt.index("H") + 1: mt.index("H") + 4] if "H" in mt else None
            if (mt[:4] != t[:4] or mh != ihash) and exp_desc == got_desc and (ohash is None or ohash == ihash):
                chk.broke("correspondence: tables of the model differ from the implementation's for %s (f=%d g=%d): model %s impl %s"
                          % (fname, fc.irred, fc.g, " ".join(mt[:8]), " ".join(t[:8])))
            if "T" in mt and "T" in t and mt[mt.index("T"):] != t[t.index("T"):]:
                chk.broke("correspondence: full tables of the model differ from the implementation's for %s" % fname)
            if ohash is not None and mh != ohash:
                chk.broke("model tables differ from the oracle's tables for %s (f=%d g=%d)" % (fname, fc.irred, fc.g))
            # the verified checker (Checker.tables_ok, extracted) on the model's tables: the hypothesis of
            # C05_checked_tables_give_polynomial_arithmetic_mod_f / C05_representation_bijection_and_cardinality
            nchecked += 1
            # fg_ok: primality of p, irreducibility of f (C09 irreducible_b), order of g = q-1 (C09 brute_order): the
            # hypothesis of C05_modulus_irreducible_when_checked / C05_generator_primitive_when_checked
            if "P" not in mt or mt[mt.index("P") + 1] != "1":
                chk.broke("fg_ok (verified irreducibility/primitivity checkers) rejects (p,k,f,g) of %s (f=%d g=%d) although the oracle finds f irreducible and g primitive"
                          % (fname, fc.irred, fc.g))
            if "C" not in mt or mt[mt.index("C") + 1] != "1":
                chk.broke("tables_ok (verified checker) rejects the tables of %s (f=%d g=%d) although the oracle finds f irreducible and g primitive"
                          % (fname, fc.irred, fc.g))
        # 6d. operations
        mi = 0
        for (kind, il, ml, meta), got in zip(fc.lines, fc.out):
            mg = None
            if ml is not None and mlines is not None:
                mg = mlines[mi]
                mi += 1
            case = {"field": fc.field_line(), "irred": fc.irred, "gen": fc.g, "line": il}
            if got is None:
                continue               # not answered (see run_stream): no comparison, visible in coverage.floor
            n_answers_compared += 1
            if kind == "op":
                v, a, b, c = meta
                bump("op:" + v)
                chk.count((fname, il), nontrivial=(a != 0))
                exp = spec_op(P, v, val(a), val(b), val(c))
                try:
                    r = int(got)
                except ValueError:
                    r = None
                obs = val(r) if r is not None else None
                bad = exp is not None and obs != exp
                if bad:
                    chk.fail_input("GFqDom::" + v, "scalar", case, "rep of %s" % P.num(exp), got,
                                   "image of the result differs from polynomial arithmetic modulo f")
                if mg is not None:
                    ncorr += 1
                    # (division by zero is unspecified: only the correspondence is compared there)
                    if mg.strip() != got.strip() and not bad:
                        chk.broke("correspondence model/implementation differs on %s '%s': model=%s impl=%s" % (fname, il, mg, got))
                if exp is not None and mg is not None and mg.lstrip("-").isdigit() and val(int(mg)) != exp:
                    chk.broke("extracted model differs from the specification oracle on %s '%s': model=%s" % (fname, il, mg))
            elif kind == "opa":
                v, pat, vals = meta
                bump("opa:" + v)
                chk.count((fname, il), nontrivial=(vals[0] != 0))
                ea, eb, ec = alias_effective(v, pat, vals)
                exp = spec_op(P, v, val(ea), val(eb), val(ec))
                if exp is None:
                    continue
                if not got.lstrip("-").isdigit() or val(int(got)) != exp:
                    chk.fail_input("GFqDom::" + v, "alias " + pat, case, "rep of %s" % P.num(exp), got,
                                   "the call with destination/operands aliased as in the pattern differs from polynomial arithmetic modulo f")
            elif kind == "pred":
                a, b = meta
                va = val(a)
                exp = "%d%d%d%d%d%d%d" % (a == 0, a == N, a == (N if p == 2 else N // 2), a != 0, a == b, a != b,
                                          a != 0 and va is not None and not any(va[1:]))      # isUnit: non-zero element of the prime subfield
                chk.count((fname, il), nontrivial=False)
                if got != exp:
                    chk.fail_input("GFqDom::isZero/isOne/isMOne/isUnit/areEqual", "predicate", case, exp, got)
            elif kind == "same":
                chk.count((fname, il), nontrivial=False)
                if got != str(meta):
                    chk.fail_input("GFqDom::assign/reduce", "identity", case, meta, got)
            elif kind == "arr":
                v, sz, s, r, x_, y_ = meta
                bump("arr:%s:sz=%s" % (v, sz if sz < 3 else "n"))
                chk.count((fname, il))
                exp = arr_spec(P, val, v, s, r, x_, y_)
                site = "GFqDom array forms (for (size_t i=sz; --i;))"
                bad = None
                if not got.startswith("R"):
                    bad = True
                    chk.fail_input(site, "sz=0" if sz == 0 else "crash", dict(case, variant=v), "R " + " ".join(str(P.num(e)) for e in exp), got,
                                   "the call did not return (out-of-bounds accesses, child process killed)")
                else:
                    rr = [int(z) for z in got.split()[1:]]
                    bad = [i for i in range(sz) if val(rr[i]) != exp[i]] if len(rr) == sz else list(range(sz))
                    if bad:
                        klass = "index0-skipped" if bad == [0] and rr[0] == r[0] else "element"
                        chk.fail_input(site, klass, dict(case, variant=v), [P.num(e) for e in exp], got,
                                       "destination[%s] is not the element-wise result" % bad)
                if mg is not None:
                    ncorr += 1
                    if mg.strip() != got.strip() and not bad:
                        chk.broke("correspondence model/implementation differs on %s '%s': model=%s impl=%s" % (fname, il, mg, got))
            elif kind == "arra":
                v, al, sz, s, r, x_, y_ = meta
                bump("arr:%s@%s" % (v, al))
                chk.count((fname, il))
                exp = arr_spec(P, val, v, s, r, x_, y_)          # from the contents BEFORE the call (aliased arrays have equal contents)
                site = "GFqDom array forms, destination aliases an operand" if "r" in al else "GFqDom array forms, operands alias each other"
                bad = None
                if not got.startswith("R"):
                    bad = True
                    chk.fail_input(site, "%s %s" % (v, al), dict(case, variant=v, alias=al), "R " + " ".join(str(P.num(e)) for e in exp), got, "the call did not return")
                else:
                    rr = [int(z) for z in got.split()[1:]]
                    bad = [i for i in range(sz) if val(rr[i]) != exp[i]] if len(rr) == sz else list(range(sz))
                    if bad:
                        i0 = bad[0]
                        chk.fail_input(site, "%s %s" % (v, al), dict(case, variant=v, alias=al, first_wrong_index=i0, operands=[x_[i0], (y_[i0] if i0 < len(y_) else None), s]),
                                       "p-adic %s" % P.num(exp[i0]), "rep %s" % (rr[i0] if i0 < len(rr) else None),
                                       "%d of %d elements differ from the call with distinct arrays of the same contents" % (len(bad), sz))
                if mg is not None:
                    ncorr += 1
                    if mg.strip() != got.strip() and not bad:
                        chk.broke("correspondence model/implementation differs on %s '%s': model=%s impl=%s" % (fname, il[:120], mg[:120], got[:120]))
                    if exp is not None and mg.startswith("R") and [val(int(z)) for z in mg.split()[1:]] != exp:
                        chk.broke("extracted location model differs from the specification oracle on %s '%s'" % (fname, il[:120]))
            elif kind == "dot":
                sz, x_, y_ = meta
                bump("dot:sz=%s" % (sz if sz < 3 else "n"))
                chk.count((fname, il))
                acc = P.zero
                for u, w in zip(x_, y_):
                    acc = P.add(acc, P.mul(val(u), val(w)))
                bad = not got.lstrip("-").isdigit() or val(int(got)) != acc
                if bad:
                    chk.fail_input("GFqDom::dotprod", "sz=%s" % (sz if sz < 3 else "n"), case, P.num(acc), got)
                if mg is not None:
                    ncorr += 1
                    if mg.strip() != got.strip() and not bad:
                        chk.broke("correspondence model/implementation differs on %s '%s': model=%s impl=%s" % (fname, il, mg, got))
            elif kind == "assignarr":
                sz, x_ = meta
                chk.count((fname, il), nontrivial=False)
                # assign(sz, r, a) reduces integers modulo the characteristic and looks them up p-adically
                exp = "R" + "".join(" %d" % (p2l[e % p] if q <= 65536 else -1) for e in x_)
                if q <= 65536 and got != exp:
                    chk.fail_input("GFqDom::assign(sz,Array,constArray)", "sz=%s" % (sz if sz < 3 else "n"), case, exp, got)
            elif kind == "cvt":
                ty, xv = meta
                bump("cvt:" + ty)
                chk.count((fname, il), nontrivial=False)
                if ty == "flt":
                    import struct
                    xv = int(struct.unpack("f", struct.pack("f", float(xv)))[0])
                if ty == "vec":
                    # polynomial with p-adic value xv, reduced modulo f
                    ds = []
                    m = xv
                    while m:
                        ds.append(m % p)
                        m //= p
                    e = P.zero
                    for c in reversed(ds):
                        e = P.add(P.mul(e, P.elt(p) if k > 1 else P.zero), P.elt(c)) if k > 1 else ((e[0] * 0 + c) % p,)
                    if k == 1:
                        e = ((xv % p),) if len(ds) <= 1 else None     # degree >= 1 modulo X: constant term of the remainder
                        if e is None:
                            e = (ds[0],)
                    want = P.num(e)
                else:
                    want = (xv % q) if xv >= 0 else ((q - ((-xv) % q)) % q)
                toks = got.split()
                if len(toks) != 2 or not toks[0].lstrip("-").isdigit():
                    chk.fail_input("GFqDom::init/convert", ty, case, want, got)
                    continue
                r = int(toks[0])
                img = val(r)
                if img is None or P.num(img) != want or int(toks[1]) != want:
                    chk.fail_input("GFqDom::init/convert", ty, case, want, got, "init(x) is not the element with p-adic value x mod q, or convert is not its inverse")
    if len(chk.broken) > 20:
        chk.broken = chk.broken[:20] + [{"what": "... %d more" % (len(chk.broken) - 20), "detail": ""}]
    # 7. the other field classes (ran in the background)
    dist.update(dist_ext)
    chk.cov["rule"] = ("every prime power q <= %d (thorough: all <= 4096, all proper powers <= 65536, 40 sampled primes above 4096; both storage types for small q) + the fields of test-ffarith + user-supplied moduli/generators; per field: constants, "
                       "defining polynomial irreducible (brute force), generator primitive (order via factorisation of q-1), three tables vs oracle and vs model, tables_ok (verified checker) on the model tables, "
                       "every scalar call form on all elements/pairs (q<=64) or boundary+random operands, every array form with sz in {0,1,2,n}, dotprod, init/convert; "
                       "every field object obtained in one of 7 ways (rotated: constructed in place / copy / assigned over a default-constructed object, over a field of other characteristic-degree-bit length, to itself, twice / copy kept while the source is overwritten); "
                       "Extension<GFqDom|Modular|GF2>, GFqExt, GFqExtFast (q-adic init/convert/maxdot incl. worst-case products) and GF2 (complete sweep) in the background part; degree-1 polynomial constructors in own processes; "
                       "every array form with every aliasing of its array arguments (rx, ry, xy, rxy; all operand pairs in one call for q <= 16), dotprod with a == b; 15 prescribed fields re-run on a -D__GIVARO_COUNT__ build; "
                       "non-trivial = first operand non-zero") % limit
    chk.cov["traces_validated_against_impl"] = ncorr
    chk.cov["fields"] = len(fields)
    chk.cov["fields_with_full_table_check"] = nfields_tab
    chk.cov["fields_accepted_by_verified_checker"] = nchecked
    chk.cov["distribution"] = dist
    # every public call form driven by the harnesses with its case count: GFqDom scalar forms (op:), the same in every
    # aliasing pattern (opa:), array forms per length class (arr:), dotprod (dot:), init/convert per source type (cvt:),
    # and the forms of Extension / GFqExt / GFqExtFast / GF2 (form:)
    chk.cov["call_forms"] = {("GFqDom::" + k.split(":", 1)[1] + {"op": "", "opa": "[aliased]", "arr": "[array]", "dot": "[dotprod]", "cvt": "[init/convert]"}[k.split(":", 1)[0]])
                             if not k.startswith("form:") else k[5:]: v
                             for k, v in sorted(dist.items()) if k.split(":", 1)[0] in ("op", "opa", "arr", "dot", "cvt", "form")}
    dist.update(dist_cnt)
    # FLOOR on what was actually compared: an inconclusive stream must not look like a pass of that stream
    floor_missed = []
    n_model_lines = len(model_in)
    if drv and ncorr < 0.9 * n_model_lines:
        floor_missed.append("model/implementation correspondence: %d comparisons, %d model lines generated" % (ncorr, n_model_lines))
    n_lines_gen = sum(len(fc.lines) for fc in fields)
    if n_answers_compared < 0.98 * n_lines_gen:
        floor_missed.append("GFqDom stream: %d of %d generated lines answered and compared" % (n_answers_compared, n_lines_gen))
    if HS.log:
        floor_missed.append("hang/crash handling: " + "; ".join(HS.log))
    if dist.get("ext:lines-compared", 0) < 0.9 * dist.get("ext:lines-generated", 1):
        floor_missed.append("Extension/GFqExt/GF2 stream: %d of %d lines compared" % (dist.get("ext:lines-compared", 0), dist.get("ext:lines-generated", 0)))
    if drv and (dist.get("gf2:model-correspondence", 0) < 1000 or dist.get("qadic:model-correspondence", 0) < 300 or dist.get("ext:model-correspondence", 0) < 3000):
        floor_missed.append("GF2 / q-adic / Extension model correspondence: %s / %s / %s lines" % (dist.get("gf2:model-correspondence", 0), dist.get("qadic:model-correspondence", 0), dist.get("ext:model-correspondence", 0)))
    if hcnt is not None and dist_cnt["count-config:lines-compared"] < 5000:
        floor_missed.append("__GIVARO_COUNT__ configuration: %d lines compared" % dist_cnt["count-config:lines-compared"])
    if chk.cov.get("obligations", 0) != chk.cov.get("discharged", 0):
        floor_missed.append("theorems re-checked: %s of %s" % (chk.cov.get("discharged"), chk.cov.get("obligations")))
    chk.cov["floor"] = {"model_lines": n_model_lines, "correspondence_comparisons": ncorr, "fields_generated": n_fields_generated, "fields_compared": len([f for f in fields if f.ok]), "gfqdom_lines_generated": n_lines_gen, "gfqdom_lines_compared": n_answers_compared,
                        "call_overruns": HS.overruns, "confirmations": HS.confirmed, "banned_forms": sorted(HS.banned),
                        "ext_lines_generated": dist.get("ext:lines-generated", 0), "ext_lines_compared": dist.get("ext:lines-compared", 0),
                        "count_config_lines": dist_cnt["count-config:lines-compared"]}
    if floor_missed or chk.cov.get("inconclusive"):
        chk.cov["floor_missed"] = floor_missed
        print("INCONCLUSIVE property=C05 (tooling, not a verdict): %s" % "; ".join((chk.cov.get("inconclusive") or []) + floor_missed)[:1500], flush=True)
    chk.cov["ways_of_obtaining_the_field_object"] = {k: v for k, v in sorted(dist.items()) if k.startswith(("way:", "ext:way:", "gext:way:"))}
    return chk.finish()


def vec_part(chk, rng, himpl, dist):
    """GFqDom::init(Rep&, const Vector&) (a polynomial over the prime field, any degree, reduced modulo the modulus).
    The function keeps function-local statics from its first call in a process (a C16 matter), so every field gets its
    own process; one field per storage type and vector element type instantiation."""
    for (T, p, k) in [(32, 3, 3), (64, 5, 2), (32, 2, 6), (64, 2, 4)]:   # k >= 2: a prime field has no stored modulus (_irred is not set)
        q = p ** k
        xs = [0, 1, 2, q - 1, q, q + 5, p ** (2 * k) - 1] + [rng.range(1, q * q) for _ in range(12)]
        lines = ["field %d auto %d %d" % (T, p, k)] + ["cvt vec %d" % x for x in xs]
        out = run_stream(chk, himpl, lines, gfq_form, lambda l: l.startswith("field"), "GFqDom::init(Rep&,Vector)", 120, 1200, "init(Rep&,Vector) process")
        if any(a is None for a in out):
            continue                   # reported by run_stream
        t = out[0].split()
        xi = t.index("X")
        irred, g = (int(t[xi + 1]) if k > 1 else p), int(t[xi + 2])
        P = PF(p, k, irred)
        X = P.elt(p) if k > 1 else P.zero
        for x, got in zip(xs, out[1:]):
            dist["cvt:vec"] = dist.get("cvt:vec", 0) + 1
            chk.count(("vec", T, p, k, x), nontrivial=(x >= q))
            ds = []
            m = x
            while m:
                ds.append(m % p)
                m //= p
            e = P.zero
            for c in reversed(ds):
                e = P.add(P.mul(e, X), P.elt(c))
            toks = got.split()
            if len(toks) != 2 or toks[1] != str(P.num(e)):
                chk.fail_input("GFqDom::init(Rep&,Vector)", "degree>=k" if x >= q else "degree<k",
                               {"field": lines[0], "irred": irred, "line": "cvt vec %d" % x}, P.num(e), got,
                               "the polynomial with p-adic value x is not mapped to its residue modulo the defining polynomial")


def ff_subexponent_max(p, e):
    """FF_SUBEXPONENT_MAX(p,e) of extension.h with _GIVARO_FF_TABLE_MAX / _GIVARO_FF_MAXEXPONENT_ read from givtablelimits.h"""
    tmax, emax = 2097153, 21
    try:
        txt = open(os.path.join(vf.REPO, "src/kernel/field/givtablelimits.h")).read()
        m = re.search(r"#define\s+_GIVARO_FF_TABLE_MAX\s+(\d+)", txt)
        tmax = int(m.group(1)) if m else tmax
        m = re.search(r"#define\s+_GIVARO_FF_MAXEXPONENT_\s+(\d+)", txt)
        emax = int(m.group(1)) if m else emax
    except OSError:
        pass
    f, i = 0, p
    while i < tmax and f < min(e, emax):
        f += 1
        i *= p
    while f > 1 and e % f:
        f -= 1
    return f


C09_NEEDED = ["Model.vo", "ProofsAlg.vo", "ProofsDiv.vo", "ProofsIrr.vo"]


def coq_props_needed_only():
    """vf.coq_check_props for coq/C05, except that of the area imported read-only (coq/C09) ONLY the four objects coq/C05 needs
    are (re)built (make decides whether they are up to date) - a slow or broken file elsewhere in coq/C09, or its Properties.v,
    is none of C05's business.  Same result dictionary; same steps otherwise (everything but Properties.v by make, Properties.v
    once by coqc with its Print Assumptions output, forbidden-construct scan)."""
    d = vf.coq_dir(AREA)
    res = {"ok": False, "theorems": [], "assumptions": {}, "log": "", "forbidden": vf.forbidden_scan(d)}
    pf = os.path.join(d, "Properties.v")
    res["theorems"] = vf.coq_theorems(pf)
    ok9, out9 = vf.coq_make("C09", targets=C09_NEEDED, jobs=4, _depth=3)
    if not ok9:
        res["log"] = "coq/C09 objects needed by coq/C05 (%s) do not build:\n%s" % (" ".join(C09_NEEDED), out9[-3000:])
        return res
    others = [l.strip() + "o" for l in open(os.path.join(d, "_CoqProject")) if l.strip().endswith(".v") and not l.startswith("-") and l.strip() != "Properties.v"]
    ok, out = vf.coq_make(AREA, targets=others, _depth=3)
    res["log"] = out[-6000:]
    rc, o = vf.sh(["coqc"] + vf.coqproject_args(d) + ["Properties.v"], cwd=d, timeout=1500)
    res["assumptions"] = vf.parse_assumptions(o, res["theorems"])
    if rc != 0:
        res["log"] += "\n" + o[-3000:]
    if ok and rc == 0:
        ok2, out2 = vf.coq_make(AREA, _depth=3)
        if not ok2:
            ok = False
            res["log"] += "\n" + out2[-3000:]
    if ok and rc == 0 and os.path.exists(pf[:-2] + ".vo") and not res["forbidden"]:
        res["ok"] = True
    return res


def run_impl(binary, text, cpu_s, wall_s, env="C05_CALL_CPU=10 C05_FIELD_CPU=20"):
    """run an implementation harness under a CPU-time limit and a generous wall-clock limit.  A hang inside the library
    burns CPU and is killed by SIGXCPU after cpu_s seconds of CPU whatever the machine load is (verdict: hang); reaching
    the wall-clock limit instead says nothing about the library (verdict: inconclusive, rc 124)."""
    return vf.run_lines("/bin/sh", text, timeout=wall_s, args=("-c", 'ulimit -t %d; %s exec "$0"' % (cpu_s, env), binary))


# ---- bounded handling of calls that do not return / crash (shared by every stream, configuration and thread of one run) ----
CALL_CPU, FIELD_CPU = 10, 20            # first stage: CPU seconds per call / per field construction (harness watchdog, exit code 99)
CONFIRM_CALL_CPU, CONFIRM_FIELD_CPU = 30, 45     # confirmation: the one call alone
MAX_CONFIRMATIONS, MAX_OVERRUNS, MAX_CRASHES_PER_FORM = 3, 6, 4
BUDGET_RC = (99,)


class HangState:
    def __init__(self):
        import threading
        self.lock = threading.Lock()
        self.banned, self.crashes = set(), {}
        self.overruns = self.confirmed = 0
        self.stopped = False
        self.log = []


HS = HangState()


def gfq_form(line):
    t = line.split()
    if t[0] == "field":
        return "GFqDom::GFqDom"
    if t[0] in ("op", "opa"):
        return "GFqDom::" + t[1]
    if t[0] == "arr":
        return "GFqDom::" + t[1].split("@")[0].replace("_s", "")
    if t[0].startswith("dot"):
        return "GFqDom::dotprod"
    return "GFqDom::init/convert " + (t[1] if len(t) > 1 else "")


def ext_form(line):
    t = line.split()
    k = t[0]
    if k in ("gf2", "gf2a"):
        return "GF2::" + (t[2] if k == "gf2" else t[1])
    if k == "ext":
        return "Extension::Extension"
    if k in ("eop", "eopa"):
        return "Extension::" + t[1]
    if k == "erand":
        return "Extension::RandIter"
    if k == "gext":
        return "GFqExtFast::GFqExtFast"
    if k in ("gop", "gopa"):
        return "GFqExtFast::" + t[1]
    if k in ("ginit", "gdot", "gdotw", "groundtrip", "gflt"):
        return "GFqExtFast::init(double)"
    return "GFqExtFast::" + k


def run_stream(chk, binary, lines, form_of, is_header, site, cpu_s, wall_s, what):
    """send the lines to a harness; returns the answers aligned with the lines (None = not answered / not driven).
    A call that exceeds its CPU budget ends the harness (exit 99): that call is re-run alone with a larger budget; if it still does
    not return it is a failing input (klass does-not-return) and its call form is banned for the rest of the run (every stream);
    the stream is restarted after it.  Crashes: reported, the stream is restarted after the crashing line, the form is banned
    after MAX_CRASHES_PER_FORM crashes.  Caps per run: MAX_CONFIRMATIONS, MAX_OVERRUNS, then every stream stops (recorded)."""
    n = len(lines)
    out = [None] * n
    start = 0
    while start < n:
        with HS.lock:
            if HS.stopped:
                break
            banned = set(HS.banned)
        hdr_of = {}
        h = None
        for i in range(n):
            if is_header(lines[i]):
                h = i
            hdr_of[i] = h
        # after a restart the rest of the interrupted field is NOT driven (constructing the field again may choose another
        # modulus / generator than the one its descriptor line reported): continue with the next field
        idxs, prefix = [], []
        for i in range(start, n):
            hi = hdr_of[i]
            if hi is None:             # stateless line before the first field (GF2): always driven
                if form_of(lines[i]) not in banned:
                    idxs.append(i)
                continue
            if hi < start or form_of(lines[hi]) in banned:
                continue
            if i != hi and form_of(lines[i]) in banned:
                continue
            idxs.append(i)
        if not idxs:
            break
        rc, o, err = run_impl(binary, "\n".join(prefix + [lines[i] for i in idxs]) + "\n", cpu_s, wall_s)
        o = [x for x in o if not x.startswith("WARNING")][len(prefix):]
        for j, a in enumerate(o[:len(idxs)]):
            out[idxs[j]] = a
        if len(o) >= len(idxs):
            break
        if nonverdict(rc):
            inconclusive(chk, "%s: %s after %d/%d lines" % (what, "wall-clock limit" if rc == 124 else "killed from outside (SIGKILL, rc=%s)" % rc, len(o), len(idxs)))
            break
        fi = idxs[len(o)]
        form = form_of(lines[fi])
        hl = lines[hdr_of[fi]] if hdr_of[fi] is not None and hdr_of[fi] != fi else None
        case = {"field": hl, "line": lines[fi][:300], "form": form}
        crashed = True
        if rc in BUDGET_RC or rc in CPU_KILLED:
            crashed = False
            with HS.lock:
                HS.overruns += 1
                can_confirm = HS.confirmed < MAX_CONFIRMATIONS and form not in HS.banned
                if can_confirm:
                    HS.confirmed += 1
            if can_confirm:
                alone = [l for l in (hl, lines[fi]) if l]
                rc2, o2, e2 = run_impl(binary, "\n".join(alone) + "\n", CONFIRM_CALL_CPU + CONFIRM_FIELD_CPU + 10, 1200,
                                       env="C05_CALL_CPU=%d C05_FIELD_CPU=%d" % (CONFIRM_CALL_CPU, CONFIRM_FIELD_CPU))
                o2 = [x for x in o2 if not x.startswith("WARNING")]
                if rc2 in BUDGET_RC or rc2 in CPU_KILLED:
                    chk.fail_input(site, "does-not-return", case, "an answer",
                                   "no answer within %d s CPU in the stream and within %d s CPU alone" % (FIELD_CPU if hl is None else CALL_CPU, CONFIRM_FIELD_CPU if hl is None else CONFIRM_CALL_CPU))
                    with HS.lock:
                        HS.banned.add(form)
                        HS.log.append("does-not-return: %s ('%s'); form not driven any more" % (form, lines[fi][:80]))
                elif rc2 == 0 and len(o2) == len(alone):
                    inconclusive(chk, "%s: '%s' exceeded %d s CPU in the stream but returns alone" % (what, lines[fi][:80], CALL_CPU))
                elif nonverdict(rc2):
                    inconclusive(chk, "%s: confirmation run of '%s' without verdict (rc=%s)" % (what, lines[fi][:80], rc2))
                else:
                    crashed = True
            with HS.lock:
                if HS.overruns >= MAX_OVERRUNS or HS.confirmed >= MAX_CONFIRMATIONS:
                    if not HS.stopped:
                        HS.log.append("caps reached (%d overruns, %d confirmations): every stream stops here" % (HS.overruns, HS.confirmed))
                    HS.stopped = True
        if crashed:
            with HS.lock:
                c = HS.crashes[form] = HS.crashes.get(form, 0) + 1
                if c >= MAX_CRASHES_PER_FORM:
                    HS.banned.add(form)
                    HS.log.append("%d crashes of %s: form not driven any more" % (c, form))
            if c <= MAX_CRASHES_PER_FORM:
                chk.fail_input(site, "crash", case, "an answer", "rc=%s after %d/%d lines of the batch" % (rc, len(o), len(idxs)), err[-300:])
        start = fi + 1
    return out


CPU_KILLED = (-24, 152)          # SIGXCPU only: proves that the CPU budget was used up
OUTSIDE_KILL = (-9, 137)        # SIGKILL: OOM killer / operator - says nothing about the library


def nonverdict(rc):
    return rc == 124 or rc in OUTSIDE_KILL


def inconclusive(chk, what):
    chk.cov.setdefault("inconclusive", []).append(what)
    vf.log("[C05] INCONCLUSIVE (time-out of the check's own tooling, not a verdict on the property): " + what)


def maxn_numerator():
    """the numerator of `_maxn( <num>/(P-1)/(P-1)/e)` in both constructors of GFqExtFast, read from /repo's gfqext.h"""
    try:
        txt = open(os.path.join(vf.REPO, "src/kernel/field/gfqext.h")).read()
    except OSError:
        return None
    txt = re.sub(r"//[^\n]*", "", txt)
    ms = re.findall(r"_maxn\s*\(\s*(\w+)\s*/\s*\(\s*P\s*-\s*1\s*\)\s*/\s*\(\s*P\s*-\s*1\s*\)\s*/\s*e\s*\)", txt)
    if len(ms) >= 2 and len(set(ms)) == 1 and ms[0] in ("_BASE", "_MASK"):
        return ms[0]
    return None


def e1_part(chk, rng, himpl, dist):
    """GFqDom(P, 1, modPoly) and GFqDom(P, 1, modPoly, genPoly): the polynomial constructors with a modulus of degree 1
    (X, X + c, non-monic a X + c): F_p[X]/(f) = F_p.  Each field in its own process (the constructor corrupted the heap
    before its repair, which would take the whole stream down)."""
    site = "GFqDom::GFqDom(P,1,modPoly)"
    cases = [(64, 7, [0, 1], None), (32, 7, [0, 1], None), (64, 5, [0, 1], None), (32, 2, [0, 1], None), (64, 7, [3, 1], None), (32, 13, [5, 2], None),
             (64, 3, [0, 1], None), (32, 251, [0, 1], None), (64, 11, [0, 1], [2]), (32, 7, [3, 1], [5]), (64, 13, [-1, 14], [15])]
    for ci, (T, p, mod, gen) in enumerate(cases):
        ctor = "mod" if gen is None else "modgen"
        way = WAYS[ci % len(WAYS)]
        o2 = other_field(ci, p, 1)
        head = "field %d %s:%s:%d:%d %d 1 | %s" % (T, ctor, way, o2[0], o2[1], p, " ".join(map(str, mod))) + ("" if gen is None else " | " + " ".join(map(str, gen)))
        N = p - 1
        els = list(range(p)) if p <= 13 else [0, 1, 2, N, N - 1, N // 2] + [rng.range(0, N) for _ in range(6)]
        ops = [("op %s %d %d" % (v, a, b), v, a, b, 0) for v in ("add", "sub", "mul", "div", "addin", "subin", "mulin", "divin") for a in els for b in els]
        ops += [("op %s %d" % (v, a), v, a, 0, 0) for v in ("neg", "inv", "negin", "invin") for a in els]
        ops += [("op %s %d %d %d" % (v, a, b, c), v, a, b, c) for v in ("axpy", "axmy", "maxpy", "axpyin", "axmyin", "maxpyin")
                for a in els[:5] for b in els[:5] for c in els[:5]]
        cv = [0, 1, p - 1, p, p + 1, 2 * p + 3, rng.range(0, 10 * p)]
        lines = [head] + [o[0] for o in ops] + ["cvt i64 %d" % x for x in cv]
        out = run_stream(chk, himpl, lines, gfq_form, lambda l: l.startswith("field"), site, 120, 1200, "degree-1 modulus process")
        dist["form:GFqDom::GFqDom(P,1,modPoly%s)" % ("" if gen is None else ",genPoly")] = dist.get("form:GFqDom::GFqDom(P,1,modPoly%s)" % ("" if gen is None else ",genPoly"), 0) + 1
        chk.count(("e1", head))
        case = {"field": head}
        if any(a is None for a in out):
            continue                   # reported by run_stream (crash / does-not-return / caps)
        t = out[0].split()
        if len(t) < 10 or t[0] != "F" or "T" not in t:
            chk.fail_input(site, "e=1", case, "a field", out[0][:200])
            continue
        x = t.index("X")
        g = int(t[x + 2])
        P = PF(p, 1, p)
        itab = [[int(v) for v in part.split()] for part in " ".join(t[t.index("T") + 1:]).split("|")]
        if not (1 <= g < p) or not P.order_is_full(P.elt(g)) or itab != [list(tb) for tb in P.tables(P.elt(g))] or [int(t[1]), int(t[2]), int(t[3])] != [p, N, (N if p == 2 else N // 2)]:
            chk.fail_input(site, "e=1", case, "generator reduced modulo the modulus (a primitive root below p) and the tables of F_p for it",
                           "generator %d, tables %s" % (g, str(itab)[:200]))
            continue
        if gen is not None and g != sum(c * p ** i for i, c in enumerate(gen)) % p and len(gen) == 1:
            chk.fail_input(site, "stored-generator", case, gen[0] % p, g)
        l2p = itab[0]
        val = lambda a: P.elt(l2p[a]) if 0 <= a < len(l2p) else None
        nbad = 0
        for (line, v, a, b, c), got in zip(ops, out[1:]):
            chk.count(("e1", head, line), nontrivial=(a != 0))
            exp = spec_op(P, v, val(a), val(b), val(c))
            if exp is None:
                continue
            if (not got.lstrip("-").isdigit() or val(int(got)) != exp) and nbad < 5:
                nbad += 1
                chk.fail_input(site, "e=1", dict(case, line=line), "rep of %s" % P.num(exp), got)
        for xv, got in zip(cv, out[1 + len(ops):]):
            tt = got.split()
            if len(tt) != 2 or tt[1] != str(xv % p):
                chk.fail_input(site, "e=1", dict(case, line="cvt i64 %d" % xv), xv % p, got)


def build_harness_retry(src, **kw):
    """vf.build_harness; retried when the shared library cache entry was pruned by a concurrent run between
    build_repo_lib() and the link step (many checks share build/cache)."""
    for attempt in range(3):
        h, l = vf.build_harness(src, **kw)
        if h is not None or "libgivaro_verif.a" not in l:
            return h, l
    return h, l


GF2_CODE = {v: i for i, v in enumerate(["add", "sub", "mul", "div", "neg", "inv", "axpy", "axmy", "maxpy", "addin", "subin", "mulin", "divin",
                                        "negin", "invin", "axpyin", "axmyin", "maxpyin", "assign"])}
GF2_ARITY = {"add": 2, "sub": 2, "mul": 2, "div": 2, "addin": 2, "subin": 2, "mulin": 2, "divin": 2, "neg": 1, "inv": 1, "negin": 1, "invin": 1,
             "assign": 1, "axpy": 3, "axmy": 3, "maxpy": 3, "axpyin": 3, "axmyin": 3, "maxpyin": 3}
XCODE = {"add": 0, "addin": 0, "sub": 1, "subin": 1, "mul": 2, "mulin": 2, "neg": 3, "negin": 3, "axpy": 4, "axpyin": 5,
         "maxpy": 6, "maxpyin": 7, "axmy": 8, "axmyin": 9}


def ext_part(chk, rng, tier, dist, drv=None):
    """Extension<GFqDom<int64_t>|Modular<int64_t>|GF2>, GFqExtFast/GFqExt<int32_t>, GF2 against the F_p[X]/(f) oracle.
    (GFqKronecker cannot be compiled in this tree: see harness/c05_ext.C.)"""
    h, l = build_harness_retry("c05_ext.C", deps=("c05_alias.h",))
    if h is None:
        chk.broke("implementation harness c05_ext.C does not compile against /repo", l)
        return
    L = []          # (impl line, kind, meta)
    # --- GF2: every variant, both overloads (Element&, BitReference), all operands
    # complete sweep, every run: 5 ways of obtaining the GF2 object x 2 destination kinds x 2 previous contents of the
    # destination x all operand values, for the 18 arithmetic variants and assign; the bit position cycles through
    # word boundaries of the std::vector<bool>
    GF2POS = [0, 1, 63, 64, 65, 129]
    npos = 0
    for way in range(5):
        L.append(("gf2desc %d" % way, "gf2desc", None))
        for form in "eb":
            for v, n in sorted(GF2_ARITY.items()):
                for prev in (0, 1):
                    if v.endswith("in") and prev:
                        continue          # in-place forms: the destination holds the first operand
                    for bits in range(1 << n):
                        vals = [(bits >> i) & 1 for i in range(n)] + [0, 0, 0]
                        npos += 1
                        L.append(("gf2 %d %s %s %d %d %d %d %d" % (way, v, form, prev, GF2POS[npos % len(GF2POS)], vals[0], vals[1], vals[2]),
                                  "gf2", (v, vals[0], vals[1], vals[2])))
    for form in "eb":
        for prev in (0, 1):
            for x in (0, 1, 2, 3, 2**64 + 1, 2**64, 10**30 + 7, -1, -2, -(10**30 + 7)):
                L.append(("gf2 0 init_Integer %s %d 64 %d" % (form, prev, x), "gf2", ("init", x, 0, 0)))
            L.append(("gf2 0 init_none %s %d 63 0" % (form, prev), "gf2", ("init", 0, 0, 0)))
            for a in (0, 1):
                L.append(("gf2 0 convert_bit b %d 65 %d" % (prev, a), "gf2", ("assign", a, 0, 0)))
    for ty, lo, hi in (("i32", -2**31, 2**31 - 1), ("u32", 0, 2**32 - 1), ("i64", -2**63, 2**63 - 1), ("u64", 0, 2**64 - 1),
                       ("dbl", -2**53, 2**53), ("flt", -2**24, 2**24)):
        for x in [0, 1, 2, 3, 255, 256, 257, 65537, 2**24 - 1, 2**31 - 1, 2**31, 2**31 + 1, 2**32 + 1, 2**40 + 1, 2**53 - 1, 2**63 - 1, 2**64 - 1,
                  -1, -2, -3, -255, -257, -2**31, -2**31 - 1, -2**40 - 1, lo, lo + 1, hi, hi - 1, rng.range(lo, hi), rng.range(lo, hi) | 1]:
            if lo <= x <= hi:
                L.append(("gf2 0 init_%s e %d 0 %d" % (ty, x & 1 ^ 1, x), "gf2", ("init_" + ty, x, 0, 0)))
    for a in (0, 1):
        L.append(("gf2 0 convert e 0 0 %d" % a, "gf2", ("assign", a, 0, 0)))
        for b in (0, 1):
            for way in range(5):
                L.append(("gf2 %d pred e 0 0 %d %d" % (way, a, b), "gf2", ("pred", a, b, 0)))
    L.append(("gf2rand e 64", "gf2rand", None))
    L.append(("gf2rand b 64", "gf2rand", None))
    for form in "eb":
        for v, n in sorted(ALIAS_NARGS.items()):
            nv = n if v.endswith("in") else n - 1
            for pat in alias_patterns(n):
                for bits in range(1 << max(nv, 1)):
                    vals = [(bits >> i) & 1 for i in range(max(nv, 1))]
                    L.append(("gf2a %s %s %s %s" % (v, form, pat, " ".join(map(str, vals))), "gf2a", (v, pat, vals + [0, 0])))
    # --- Extension<>
    E3 = ["add", "sub", "mul", "div", "addin", "subin", "mulin", "divin"]
    E1 = ["neg", "inv", "negin", "invin", "assign"]
    E4 = ["axpy", "axpyin", "maxpy", "maxpyin", "axmy", "axmyin"]
    exts = [("gfq", "bf", 3, 2), ("mod", "bf", 3, 3), ("gfq", "pe", 5, 3), ("gfq", "bf", 2, 5), ("mod", "bf", 7, 2), ("gfq", "pe", 2, 7),
            ("gfq", "pol", 3, 4), ("mod", "pol", 5, 2), ("gfq", "pol", 2, 8), ("mod", "pol", 11, 3), ("gfq", "bf", 1009, 4), ("gfq", "pe", 65521, 3),
            ("mod", "bf", 2, 1), ("gfq", "bf", 13, 8),
            # towers: Extension over the non-prime base field GFqDom(p,s) (s last), and the automatic Extension<>(p,e) for composite e
            ("gfq", "tower", 3, 2, 2), ("gfq", "tower", 2, 3, 2), ("gfq", "tower", 7, 2, 2), ("gfq", "tower", 2, 2, 4), ("gfq", "tower", 5, 3, 2),
            ("gfq", "pe", 13, 8), ("gfq", "pe", 3, 12), ("gfq", "pe", 2, 22)]
    if tier == "thorough":
        exts += [(b, c, p, k) for b in ("gfq", "mod") for c in ("bf", "pol") for (p, k) in [(2, 2), (2, 3), (3, 5), (5, 4), (7, 3), (17, 2), (251, 2), (4099, 5)]]
    per = 10 if tier == "quick" else 80
    # every way of obtaining the Extension object: rotated over the list + all ways on two small fields (both base types)
    XW = "acosht"
    exts = [ex + (XW[i % len(XW)],) for i, ex in enumerate(exts)]
    n_rot = len(exts)          # the objects after these (all ways on small fields, Extension<GF2>) get a lighter load each
    exts += [("gfq", "bf", 3, 2, w) for w in XW] + [("mod", "bf", 5, 2, w) for w in XW] + [("gfq", "pe", 2, 6, w) for w in "cot"]
    # Extension<GF2> (Poly1Dom<GF2>: the std::vector<bool>::reference overloads of GF2 used by a real client)
    exts += [("gf2", "bf", 2, 5, "a"), ("gf2", "pol", 2, 3, "o"), ("gf2", "bf", 2, 7, "h"), ("gf2", "pol", 2, 6, "c"), ("gf2", "bf", 2, 2, "t"), ("gf2", "bf", 2, 4, "s")]
    for xi, ex in enumerate(exts):
        (base, ctor, p, k), way = ex[:4], ex[-1]
        sb = ex[4] if len(ex) > 5 else 1
        q = (p ** sb) ** k
        o2 = other_field(xi, p, k, limit=lambda o: o[0] ** o[1] < 2**20)
        line = "ext %s %s %d %d" % (base, ctor, p, k) + (" %d" % sb if ctor == "tower" else "")
        wtok = " w=%s,%d,%d" % (way, o2[0], max(2, o2[1]))
        dist["ext:way:" + way] = dist.get("ext:way:" + way, 0) + 1
        mod = None
        if ctor == "pol":
            mod = find_irreducible(rng, p, k, monic=(p == 2 or rng.chance(1, 2))) if q <= 10**6 else None
            if mod is None:
                continue
            line += " | " + " ".join(map(str, mod))
        line += wtok
        L.append((line, "ext", (base, ctor, p, k, mod)))
        if ctor == "pe" and k in (8, 12, 22):
            q = p ** k
        edge = [0, 1, q - 1, p - 1, p % q, (q - 1) // 2]
        def el():
            return rng.choice(edge) if rng.chance(1, 4) else rng.range(0, q - 1)
        for v in E3:
            for _ in range(per):
                L.append(("eop %s %d %d" % (v, el(), el()), "eop", v))
        for v in E1:
            for _ in range(per):
                L.append(("eop %s %d" % (v, el()), "eop", v))
        for v in E4:
            for _ in range(per):
                L.append(("eop %s %d %d %d" % (v, el(), el(), el()), "eop", v))
        first_small = (q <= 9 and not any(x[1] == "eopa" for x in L))
        for line, v, pat, vals in alias_lines(rng, "eopa", q, (1 if xi >= n_rot else 2) if tier == "quick" else 8,
                                              exhaustive=(("axpy", "axmy", "maxpy", "axpyin", "maxpyin", "axmyin") if first_small else ())):
            L.append((line, "eopa", (v, pat, vals)))
        for _ in range(per):
            L.append(("eop pred %d %d" % (el(), el()), "eop", "pred"))
            L.append(("eop initI %d" % rng.range(0, q - 1), "eop", "initI"))
            L.append(("eop initS %d" % rng.choice([0, 1, p - 1, p, p + 1, 2 * p + 3, rng.range(0, 2**40)]), "eop", "initS"))
        # the field's random iterator built as every generic client builds one: RandIter(F, seed).  It must be seeded by that
        # argument (same sequence from two iterators) and must not be a constant generator (seed 1 used to mean "sampling size 1")
        for sd in (1, 2, 7):
            L.append(("erand %d 40" % sd, "erand", sd))
        L.append(("eop initI 0", "eop", "initI"))
        L.append(("eop convzero %d" % rng.range(1, q - 1), "eop", "convzero"))
    # --- GFqExtFast / GFqExt
    gx = [("fast", 3, 2), ("ext", 3, 4), ("fast", 5, 3), ("fast", 2, 4), ("ext", 7, 2), ("fast", 2, 8), ("fast", 3, 4), ("ext", 5, 2), ("fast", 11, 2), ("fast", 2, 2),
          ("fast", 5, 2), ("ext", 2, 3), ("fast", 13, 2), ("fast", 7, 3), ("ext", 2, 2), ("fast", 17, 2), ("ext", 3, 3), ("fast", 3, 5)]
    GW = "dcaosht"
    # every way of obtaining the object (constructed in place / copy / assigned over a default-constructed object, over a field
    # whose characteristic has ANOTHER BIT LENGTH and whose degree differs, to itself, twice / copy kept while the source is
    # overwritten / constructed from a user modulus): rotated over the list, and ALL ways on GF(5^2), GF(3^3) (fast) and GF(3^2) (ext)
    gxw = [(cls, p, k, GW[i % len(GW)]) for i, (cls, p, k) in enumerate(gx)]
    gxw += [("fast", 5, 2, w) for w in GW + "m"] + [("fast", 3, 3, w) for w in GW + "m"] + [("ext", 3, 2, w) for w in GW] + [("fast", 2, 5, w) for w in "otm"]
    for gi, (cls, p, k, way) in enumerate(gxw):
        q = p ** k
        bits = 53 // (2 * k - 1)
        B = 1 << bits
        pceil = bitlen(p)
        modout = (1 << (pceil * k)) - 1
        # the other field: characteristic of another bit length (both directions over the run), another degree
        o2 = other_field(gi, p, k, limit=lambda o: o[1] >= 2 and o[0] ** o[1] <= 4096 and (1 << (53 // (2 * o[1] - 1))) // (o[0] - 1) ** 2 // o[1] > 0)
        line = "gext %s %d %d %s %d %d" % (cls, p, k, way, o2[0], o2[1])
        gmod = None
        if way == "m":
            gmod = find_irreducible(rng, p, k, monic=rng.chance(1, 2))
            line += " | " + " ".join(map(str, gmod))
        dist["gext:way:" + way] = dist.get("gext:way:" + way, 0) + 1
        L.append((line, "gext", (cls, p, k, bits, way, modout, gmod)))
        small = gi >= len(gx)          # the all-ways fields get fewer random cases each
        gper = per if not small else max(4, per // 2)
        def ez():
            return rng.choice([0, 1, q - 1, (q - 1) // 2]) if rng.chance(1, 4) else rng.range(0, q - 1)
        for v in ("add", "sub", "mul", "div", "neg", "inv", "axpy", "maxpy", "axmy"):
            for _ in range(gper):
                a, b, c = ez(), ez(), ez()
                if v in ("div",) and b == 0:
                    b = 1
                if v == "inv" and a == 0:
                    a = q - 1
                L.append(("gop %s %d %d %d" % (v, a, b, c), "gop", (v, a, b, c)))
        for line, v, pat, vals in alias_lines(rng, "gopa", q, 1 if small else 2):
            L.append((line, "gopa", (v, pat, vals)))
        # convert(double&): every element for small fields (the q-adic image is a bijection onto the packed polynomials)
        for a in (range(q) if q <= 32 else [0, 1, q - 1] + [rng.range(0, q - 1) for _ in range(gper)]):
            L.append(("gconv %d" % a, "gconv", a))
        # decode of a Kronecker-packed accumulator: sum_i v_i B^i, i < 2k-1, v_i < B (both classes: GFqExt::init reduces the
        # double defensively first, which must not change a valid accumulator)
        L.append(("ginit 0", "ginit", [0] * (2 * k - 1)))
        L.append(("ginit %d" % sum((B - 1) << (bits * i) for i in range(2 * k - 1)), "ginit", [B - 1] * (2 * k - 1)))      # the largest valid double
        for _ in range(2 * gper):
            vs = [rng.choice([0, 1, p - 1, p, B - 1, B - 2, rng.range(0, B - 1), rng.range(0, B - 1)]) for _ in range(2 * k - 1)]
            L.append(("ginit %d" % sum(x << (bits * i) for i, x in enumerate(vs)), "ginit", vs))
        for a in [0, 1, q - 1, rng.range(0, q - 1), rng.range(0, q - 1)]:
            L.append(("groundtrip %d" % a, "groundtrip", a))
        # init(float) / convert(float&) on values a float holds exactly; init(Rep&, unsigned long); random
        for x in [0, 1, p - 1, p, B, B + 1, 2 * B + p + 1] + [rng.range(0, 2**24) for _ in range(4)]:
            if x < 2**24:
                L.append(("gflt %d" % x, "gflt", x))
        for x in [0, 1, p, q - 1, q, q + 1, rng.range(0, 10 * q)]:
            L.append(("ginitul %d" % x, "ginitul", x))
        L.append(("grand 40", "grand", None))
        # dot products: random operands of every length class, and the documented limit maxdot() with the operands that
        # make every digit of the accumulator maximal (all coefficients p-1; the harness takes n from maxdot())
        for mode in (0, 1, 2):          # n = maxdot(), maxdot()-1, maxdot()/2 products of the all-(p-1) element with itself
            L.append(("gdotw %d" % mode, "gdotw", mode))
        maxn_safe = (B - 1) // ((p - 1) ** 2 * k)
        for n in [1, 2, min(maxn_safe, 3), min(maxn_safe, 8), maxn_safe if maxn_safe <= 64 else 64] * (2 if tier == "quick" else 10):
            n = max(1, min(n, maxn_safe))
            xs = [ez() if not rng.chance(1, 5) else q - 1 for _ in range(n)]
            ys = [ez() if not rng.chance(1, 5) else q - 1 for _ in range(n)]
            L.append(("gdot %d | %s | %s" % (n, " ".join(map(str, xs)), " ".join(map(str, ys))), "gdot", (xs, ys)))
    dist["ext:lines-generated"] = len(L)
    out = run_stream(chk, h, [x[0] for x in L], ext_form, lambda l: l.startswith(("ext ", "gext ")), "Extension/GFqExt/GF2 (crash or hang inside the library)",
                     240 if tier == "quick" else 1800, 1800 if tier == "quick" else 5400, "Extension/GFqExt/GF2 harness")
    P = None
    ctx = None
    l2p = None
    xq = []          # (field, impl line, impl answer, model line) of the Extension operations that ExtModel.v models
    gq = []          # (impl line, impl answer, model line) of the GF2 operations (GF2Model.v)
    gmax = {}        # field -> (p, k, bits, maxdot()) as the implementation reports them
    qq = []          # (field, impl line, impl p-adic answer, model line) of the q-adic decodes (QadicModel.v)
    dist["ext:lines-compared"] = sum(1 for a in out if a is not None)
    def form(name):
        dist["form:" + name] = dist.get("form:" + name, 0) + 1
    gcls = "GFqExtFast"
    for (line, kind, meta), got in zip(L, out):
        if got is None:
            if kind in ("ext", "gext"):
                P = None               # field not constructed / not driven: its lines are skipped
            continue
        dist["ext:" + kind] = dist.get("ext:" + kind, 0) + 1
        # per call form (class::member[overload / pattern kind]) case counts
        if kind == "gf2":
            form("GF2::%s[%s]" % (meta[0], "BitReference" if " b " in line else "Element&"))
        elif kind == "gf2a":
            form("GF2::%s[%s,aliased]" % (meta[0], "BitReference" if " b " in line else "Element&"))
        elif kind == "eop":
            form("Extension::" + meta)
        elif kind == "eopa":
            form("Extension::%s[aliased]" % meta[0])
        elif kind == "gext":
            gcls = "GFqExtFast" if meta[0] == "fast" else "GFqExt"
        elif kind == "gop":
            form("%s::%s" % (gcls, meta[0]))
        elif kind == "gopa":
            form("%s::%s[aliased]" % (gcls, meta[0]))
        elif kind in ("gconv", "ginit", "gdot", "gdotw", "groundtrip", "gflt", "ginitul", "grand"):
            form("%s::%s" % (gcls, {"gconv": "convert(double&)", "ginit": "init(double)", "gdot": "init(double)[sum of products]",
                                    "gdotw": "init(double)[maxdot() worst-case products]", "groundtrip": "init(convert())",
                                    "gflt": "init(float)/convert(float&)", "ginitul": "init(unsigned long)", "grand": "random"}[kind]))
        if kind == "gf2desc":
            chk.count(("gf2desc", line), nontrivial=False)
            if got != "2 2 2 2 0 1 1 2 2 0 1 2 2 2":
                chk.fail_input("GF2::cardinality/characteristic/constants", "descriptor", {"line": line}, "2 2 2 2 0 1 1 2 2 0 1 2 2 2", got)
        elif kind == "gf2rand":
            t = got.split()
            chk.count(("gf2rand", line), nontrivial=False)
            if len(t) != 3 or t[2] != "0" or int(t[0]) + int(t[1]) != 64 or t[0] == "0" or t[1] == "0":
                chk.fail_input("GF2::random/nonzerorandom", "bitref" if " b " in line else "element", {"line": line}, "both values drawn, nonzerorandom = 1", got)
        elif kind == "gf2":
            v, a, b, c = meta
            chk.count(("gf2", line), nontrivial=bool(a))
            bref = (" b " in line)
            if v in ("add", "sub", "addin", "subin"): e = a ^ b
            elif v in ("mul", "mulin"): e = a & b
            elif v in ("div", "divin"): e = a if b else None
            elif v in ("neg", "negin", "assign"): e = a
            elif v in ("inv", "invin"): e = a if a else None
            elif v in ("axpy", "axmy", "maxpy"): e = (a & b) ^ c
            elif v in ("axpyin", "axmyin", "maxpyin"): e = a ^ (b & c)
            elif v == "init": e = a % 2
            elif v.startswith("init_"):
                xv = a
                if v == "init_flt":
                    import struct
                    xv = int(struct.unpack("f", struct.pack("f", float(a)))[0])
                e = xv % 2
            elif v == "pred": e = "%d%d%d%d%d" % (a == 0, a == 1, a == 1, a == 1, a == b)
            if e is None:
                continue
            want = str(e) if v == "pred" else "%s %s" % (e, e)
            if got != want:
                if v in ("init_dbl", "init_flt"):
                    chk.fail_input("GF2::init(double|float)", "outside [0,256)" if not (0 <= xv < 256) else "inside [0,256)", {"line": line}, want, got,
                                   "init from a floating-point value casts to unsigned char before taking the parity")
                else:
                    chk.fail_input("GF2::" + (v if not v.startswith("init") else "init"), "bitref" if bref else "element", {"line": line}, want, got,
                                   "destination after the call and value of the returned reference")
            if v in GF2_ARITY and drv:
                # correspondence: the extracted GF2 model (GF2Model.v, theorem C05_gf2_operations_are_F2_arithmetic)
                gq.append((line, got.split()[0], "gf2 %d %d %d %d %d" % (GF2_CODE[v], 1 if bref else 0, a, b, c)))
        elif kind == "gf2a":
            v, pat, vals = meta
            chk.count(("gf2a", line), nontrivial=bool(vals[0]))
            a, b, c = alias_effective(v, pat, vals)
            if v in ("add", "sub", "addin", "subin"): e = a ^ b
            elif v in ("mul", "mulin"): e = a & b
            elif v in ("div", "divin"): e = a if b else None
            elif v in ("neg", "negin"): e = a
            elif v in ("inv", "invin"): e = a if a else None
            elif v in ("axpy", "axmy", "maxpy"): e = (a & b) ^ c
            else: e = a ^ (b & c)
            if e is not None and got != str(e):
                chk.fail_input("GF2::" + v, ("bitref" if " b " in line else "element") + " alias " + pat, {"line": line}, e, got)
        elif kind == "ext":
            base, ctor, p, k, mod = meta
            ctx = "Extension<%s>/%s/%s GF(%d^%d)" % ({"gfq": "GFqDom<int64_t>", "gf2": "GF2"}.get(base, "Modular<int64_t>"), ctor, line.split("w=")[-1][0], p, k)
            t = got.split()
            P = None
            chk.count(("ext", line))
            if len(t) < 13 or t[0] != "E":
                chk.fail_input("Extension::Extension", "constructor", {"line": line}, "a field", got)
                continue
            bx = t.index("B") if "B" in t else None
            qb, sb, birr = (int(t[bx + 1]), int(t[bx + 2]), int(t[bx + 3])) if bx else (p, 1, -1)
            order = int(t[6])
            q = qb ** order
            if qb != p ** sb or sb * order != (k if ctor != "tower" else k * sb) or (ctor != "pe" and order != k):
                chk.fail_input("Extension::Extension", "base-field", {"line": line}, "base p^s with s * order = exponent", got)
                continue
            expo = sb * order
            exp = [str(q if q < 2**64 else q % 2**64), str(q), str(p), str(p), str(expo), str(order)]
            if t[1:7] != exp and q < 2**63:
                chk.fail_input("Extension::cardinality/characteristic/exponent", "descriptor", {"line": line}, exp, t[1:7])
            irred = int(t[8])
            if sb == 1:
                P = PF(p, order, irred)
            else:
                Pb = PF(p, sb, birr)
                if not Pb.irreducible():
                    chk.fail_input("Extension::Extension", "base-modulus-reducible", {"line": line}, "irreducible base modulus", birr)
                    continue
                P = TF(Pb, order, irred)
            irr_ok = P.irreducible() if order > 1 else True
            if irred >= P.radix ** (order + 1) or irr_ok is False or (P.f[order] == 0 if sb == 1 else P.f[order] == P.b.zero):
                chk.fail_input("Extension::Extension", "modulus-reducible", {"line": line, "irred": irred, "base": [qb, sb, birr]},
                               "irreducible of degree %d over GF(%d)" % (order, qb), irred)
                P = None
                continue
            if mod is not None and irred != sum((c % p) * p ** i for i, c in enumerate(mod)):
                chk.fail_input("Extension::Extension(Pol_t,Irred)", "stored-modulus", {"line": line}, mod, irred)
            if t[10:13] != ["0", "1", str(p - 1 if p > 2 else 1)]:
                # Extension(p,e) falls back to the prime base field when p^e fits a table (FF_SUBEXPONENT_MAX(p,e) >= e, limit
                # read from givtablelimits.h) AFTER zero/one/mOne were copied from the polynomial domain over GF(p^e)
                fb = (ctor == "pe" and ff_subexponent_max(p, k) >= k and " w=c" not in line and " w=h" not in line)
                chk.fail_input("Extension::zero/one/mOne", "constants after the direct-field fallback of Extension(p,e)" if fb else "constants",
                               {"line": line}, ["0", "1", str(p - 1)], t[10:13])
        elif kind == "erand":
            if P is None:
                continue
            chk.count((ctx, line), nontrivial=False)
            t = got.split()
            if len(t) != 3 or t[1] != "0" or int(t[0]) >= 40:
                chk.fail_input("Extension::RandIter(F, seed)", "constant or invalid draws", {"field": ctx, "line": line}, "40 valid draws, not all zero", got,
                               "zero draws / invalid draws / same sequence from two iterators")
            elif t[2] != "1":
                chk.fail_input("Extension::RandIter(F, seed)", "not seeded by its second argument", {"field": ctx, "line": line}, "two iterators with the same seed give the same sequence", got)
        elif kind == "eop":
            if P is None:
                continue
            v = meta
            a = [int(x) for x in line.split()[2:]] + [0, 0, 0]
            chk.count((ctx, line), nontrivial=(a[0] != 0))
            case = {"field": ctx, "irred": P.fnum(), "line": line}
            if v == "pred":
                mone = P.num(P.neg(P.one))
                e = "%d%d%d%d" % (a[0] == 0, a[0] == 1, a[0] == mone, a[0] == a[1])
                if got != e:
                    chk.fail_input("Extension::isZero/isOne/isMOne/areEqual", "predicate", case, e, got)
                continue
            if v == "convzero":
                if got != "0":
                    chk.fail_input("Extension::convert(Integer&)", "zero-element", case, 0, got,
                                   "convert of the zero element (a - a): Poly1PadicDom::eval dereferences rbegin() of the empty vector")
                continue
            if v == "initI":
                e = a[0]
            elif v == "initS":
                e = a[0] % P.radix
            elif v == "assign":
                e = a[0]
            else:
                ee = spec_op(P, v, P.elt(a[0]), P.elt(a[1]), P.elt(a[2]))
                if ee is None:
                    continue
                e = P.num(ee)
            if got != str(e):
                chk.fail_input("Extension::" + v, "scalar", case, e, got, "result differs from polynomial arithmetic modulo the stored irreducible")
            elif v in XCODE and isinstance(P, PF):
                xq.append((ctx, line, got, "xop %d %d %d %d %d %d %d" % (P.p, P.k, case["irred"], XCODE[v], a[0], a[1], a[2])))
            elif v in ("inv", "invin", "div", "divin") and isinstance(P, PF):
                # Poly1Dom::invmod as modelled in ExtModel.v (theorem C05_extension_inv_div_partial); -1 = the model has no answer
                xq.append((ctx, line, got, "xinv %d %d %d %d %d %d" % (P.p, P.k, case["irred"], 0 if v.startswith("inv") else 1, a[0], a[1])))
        elif kind == "eopa":
            if P is None:
                continue
            v, pat, vals = meta
            chk.count((ctx, line), nontrivial=(vals[0] != 0))
            ea, eb, ec = alias_effective(v, pat, vals)
            ee = spec_op(P, v, P.elt(ea), P.elt(eb), P.elt(ec))
            if ee is not None and got != str(P.num(ee)):
                chk.fail_input("Extension::" + v, "alias " + pat, {"field": ctx, "line": line}, P.num(ee), got,
                               "the call with destination/operands aliased as in the pattern differs from polynomial arithmetic modulo the stored irreducible")
            elif ee is not None and v in XCODE and isinstance(P, PF):
                xq.append((ctx, line, got, "xop %d %d %d %d %d %d %d" % (P.p, P.k, P.fnum(), XCODE[v], ea, eb, ec)))
            elif ee is not None and v in ("inv", "invin", "div", "divin") and isinstance(P, PF):
                xq.append((ctx, line, got, "xinv %d %d %d %d %d %d" % (P.p, P.k, P.fnum(), 0 if v.startswith("inv") else 1, ea, eb)))
        elif kind == "gext":
            cls, p, k, bits, way, modout, gmod = meta
            ctx = "GFqExt%s<int32_t>/%s GF(%d^%d)" % ("Fast" if cls == "fast" else "", way, p, k)
            t = got.split()
            P = None
            chk.count(("gext", line))
            if len(t) < 16 or t[0] != "G" or t[9] != "Q":
                chk.fail_input("GFqExtFast::GFqExtFast", "constructor", {"line": line}, "a field", got)
                continue
            q = p ** k
            if [int(t[1]), int(t[4]), int(t[5]), int(t[6])] != [q, q, p, k]:
                chk.fail_input("GFqExtFast::cardinality/characteristic/exponent", "descriptor", {"line": line}, [q, q, p, k], t[1:7])
            P = PF(p, k, int(t[2]))
            G = P.elt(int(t[3]))
            if (k > 1 and not P.irreducible()) or not P.order_is_full(G):
                chk.fail_input("GFqExtFast::GFqExtFast", "modulus-or-generator", {"line": line}, "irreducible modulus, primitive generator", t[2:4])
                P = None
                continue
            if gmod is not None and int(t[2]) != sum((c % p) * p ** i for i, c in enumerate(gmod)):
                chk.fail_input("GFqExtFast::GFqExtFast(P,e,modPoly)", "stored-modulus", {"line": line}, gmod, t[2])
            l2p, p2l, pl1 = P.tables(G)
            if hash3(l2p) != t[8]:
                chk.fail_input("GFqExtFast tables", "table-entry", {"line": line}, hash3(l2p), t[8])
                P = None
                continue
            # q-adic transform parameters: bits = digits of a double / (2k-1) (53 is std::numeric_limits<double>::digits), base, mask,
            # characteristic(UTT&), indeterminate().  maxdot() must not exceed the bound below which no digit of an accumulated
            # product overflows (theorem C05_qadic_accumulator_digits_do_not_overflow): n * k * (p-1)^2 <= 2^bits - 1
            B = 1 << bits
            qa = [int(x) for x in t[10:16]]
            if qa[:3] != [bits, B, B - 1] or qa[4] != p or (k > 1 and qa[5] != p):
                chk.fail_input("GFqExtFast::bits/base/mask/characteristic/indeterminate", "descriptor", {"line": line}, [bits, B, B - 1, "maxdot", p, p], qa)
            gmaxn = qa[3]
            safe = (B - 1) // (k * (p - 1) ** 2)
            if gmaxn > safe:
                chk.fail_input("GFqExtFast::maxdot", "n*k*(p-1)^2 = 2^bits" if gmaxn * k * (p - 1) ** 2 == B else "n*k*(p-1)^2 > 2^bits",
                               {"line": line, "bits": bits, "p": p, "k": k}, "at most %d" % safe, gmaxn,
                               "maxdot() products of worst-case operands overflow a digit of the packed accumulator")
            gmeta = (cls, p, k, bits, gmaxn, modout)
            gmax[ctx] = (p, k, bits, gmaxn)
        elif P is None:
            continue
        elif kind == "gop":
            v, a, b, c = meta
            chk.count((ctx, line), nontrivial=(a != 0))
            ee = spec_op(P, v, P.elt(l2p[a]), P.elt(l2p[b]), P.elt(l2p[c]))
            if ee is None:
                continue
            if not got.lstrip("-").isdigit() or not (0 <= int(got) < len(l2p)) or P.elt(l2p[int(got)]) != ee:
                chk.fail_input("GFqExtFast::" + v, "scalar", {"field": ctx, "line": line}, p2l[P.num(ee)], got)
        elif kind == "gopa":
            v, pat, vals = meta
            chk.count((ctx, line), nontrivial=(vals[0] != 0))
            ea, eb, ec = alias_effective(v, pat, vals)
            ee = spec_op(P, v, P.elt(l2p[ea]), P.elt(l2p[eb]), P.elt(l2p[ec]))
            if ee is not None and (not got.lstrip("-").isdigit() or not (0 <= int(got) < len(l2p)) or P.elt(l2p[int(got)]) != ee):
                chk.fail_input("GFqExtFast::" + v, "alias " + pat, {"field": ctx, "line": line}, p2l[P.num(ee)], got)
        elif kind == "gconv":
            bits = gmeta[3]
            chk.count((ctx, line), nontrivial=(meta != 0))
            e = sum(c << (bits * i) for i, c in enumerate(P.elt(l2p[meta])))
            if got != str(e):
                chk.fail_input("GFqExtFast::convert(double&)", "packed", {"field": ctx, "line": line}, e, got)
        elif kind in ("ginit", "gdot", "gdotw", "groundtrip", "gflt", "ginitul", "grand"):
            chk.count((ctx, line))
            cls, p, k, bits, gmaxn, modout = gmeta
            B = 1 << bits
            site = "GFqExtFast::init(double)" if cls == "fast" else "GFqExt::init(double)"
            t = got.split()
            if kind == "grand":
                # random(g, r) goes through init(double): every draw must be an element of the field
                if len(t) != 3 or t[2] != "0" or not (0 <= int(t[0]) <= int(t[1]) < P.q):
                    chk.fail_input("GFqExtFast::random", "outside-field", {"field": ctx, "line": line}, "elements", got)
                continue
            if kind == "ginitul":
                want = meta % P.q
                if len(t) != 2 or t[1] != str(want):
                    chk.fail_input("GFqExtFast::init(Rep&, unsigned long)", "p-adic", {"field": ctx, "line": line}, want, got)
                continue
            klass = kind
            if kind == "ginit":
                vs = meta
            elif kind == "gflt":
                vs = [(meta >> (bits * i)) & (B - 1) for i in range(2 * k - 1)]
            elif kind == "groundtrip":
                vs = list(P.elt(l2p[meta])) + [0] * (k - 1)
            elif kind == "gdotw":
                n = int(t[0]) if t and t[0].isdigit() else -1
                want_n = [gmaxn, max(gmaxn - 1, 0), gmaxn // 2][meta]
                if n != want_n:
                    chk.fail_input("GFqExtFast::maxdot", "harness", {"field": ctx, "line": line}, want_n, got)
                    continue
                t = t[1:]
                top = [p - 1] * k
                vs = [0] * (2 * k - 1)
                for i in range(k):
                    for j in range(k):
                        vs[i + j] += n * top[i] * top[j]
                if max(vs) >= B:
                    # beyond the bound the decode is not specified; the defect is maxdot() itself (reported at the descriptor)
                    if not (meta == 0 and gmaxn > (B - 1) // (k * (p - 1) ** 2)):
                        chk.fail_input("GFqExtFast::maxdot", "harness", {"field": ctx, "line": line}, "digits below 2^bits", vs)
                        continue
                    klass = "maxdot() worst-case products"
                    site = "GFqExtFast::maxdot"
                    # expected value of the true sum (what a caller relying on maxdot() is entitled to)
            else:
                xs, ys = meta
                vs = [0] * (2 * k - 1)
                for xa, ya in zip(xs, ys):
                    A, Bc = P.elt(l2p[xa]), P.elt(l2p[ya])
                    for i in range(k):
                        for j in range(k):
                            vs[i + j] += A[i] * Bc[j]
            # sum_i (v_i mod p) X^i modulo f
            e = P.zero
            X = P.elt(P.p) if P.k > 1 else P.zero
            for c in reversed(vs):
                e = P.add(P.mul(e, X), P.elt(c % P.p))
            if kind == "ginit" and not any(vs):
                klass = "d=0"
            elif cls == "ext" and site != "GFqExtFast::maxdot" and sum(v << (bits * i) for i, v in enumerate(vs)) >= modout:
                klass = "d >= 2^(pceil*k)-1"          # GFqExt reduces d modulo _MODOUT (the table size) first
            if len(t) < 2 or t[1] != str(P.num(e)) or (kind == "gflt" and (len(t) != 3 or int(t[2]) != sum(c << (bits * i) for i, c in enumerate(P.elt(P.num(e)))) and sum(c << (bits * i) for i, c in enumerate(P.elt(P.num(e)))) < 2**24)):
                chk.fail_input(site if kind != "gflt" else site.replace("double", "float"), klass, {"field": ctx, "line": line, "coefficients": vs},
                               P.num(e), got, "decoding of the Kronecker-packed double is not sum (v_i mod p) X^i mod f")
            elif drv and kind in ("ginit", "gdot", "groundtrip") and cls == "fast":
                # correspondence: the extracted REDQ model (QadicModel.v) decodes the same accumulator
                qq.append((ctx, line, t[1], "qinit %d %d %d %d %d" % (p, k, P.fnum(), bits, sum(v << (bits * i) for i, v in enumerate(vs)))))
    # correspondence: the extracted GF2 model (GF2Model.v) on every GF2 call of the sweep, the extracted q-adic decode
    # (QadicModel.v) on the accumulators GFqExtFast::init(double) was given, and the constructor's formula for maxdot()
    # as READ from gfqext.h (numerator _BASE or _MASK) evaluated by the extracted q_maxn against the compiled maxdot()
    if drv and (gq or qq):
        num = maxn_numerator()
        chk.assumptions.append("GFqExtFast::_maxn numerator read from gfqext.h: %s (theorem C05_qadic_accumulator_digits_do_not_overflow needs _MASK = 2^bits-1; "
                               "with _BASE the refuted bound C05_qadic_maxdot_of_source_refuted applies)" % (num or "not recognised"))
        mq = []
        if num:
            for ctxg, (pp, kk, bb, mx) in sorted(gmax.items()):
                mq.append(("maxdot of " + ctxg, str(mx), "qmaxn %d %d %d" % ((1 << bb) - (1 if num == "_MASK" else 0), pp, kk)))
        allq = [(l, g_, m) for (l, g_, m) in gq] + [(c + " " + l, g_, m) for (c, l, g_, m) in qq] + mq
        rc, mo, merr = vf.run_lines(drv, "\n".join(x[2] for x in allq) + "\n", timeout=1800)
        if rc == 124:
            inconclusive(chk, "extracted GF2 / q-adic model reached the wall-clock limit")
        elif rc != 0 or len(mo) != len(allq):
            chk.broke("model driver failed on the GF2 / q-adic lines (rc=%s, %d/%d lines)" % (rc, len(mo), len(allq)), merr[-1000:])
        else:
            dist["gf2:model-correspondence"] = len(gq)
            dist["qadic:model-correspondence"] = len(qq)
            dist["qadic:maxdot-formula-correspondence"] = len(mq)
            nb = 0
            for (what, got, ml), mg in zip(allq, mo):
                if mg.strip() != got.strip() and nb < 10:
                    nb += 1
                    chk.broke("correspondence GF2/q-adic model vs implementation differs on '%s': model=%s impl=%s (model line '%s')" % (what, mg, got, ml))
    # correspondence: the extracted Extension model (ExtModel.v, theorem C05_extension_ops_are_quotient_ring_operations)
    if drv and xq:
        step = max(1, len(xq) // (12000 if tier == "quick" else 60000))
        xs = xq[::step]
        rc, mo, merr = vf.run_lines(drv, "\n".join(x[3] for x in xs) + "\n", timeout=1800)
        if rc == 124:
            inconclusive(chk, "extracted Extension model reached the wall-clock limit")
        elif rc != 0 or len(mo) != len(xs):
            chk.broke("model driver failed on the Extension operations (rc=%s, %d/%d lines)" % (rc, len(mo), len(xs)), merr[-1000:])
        else:
            dist["ext:model-correspondence"] = len(xs)
            nb = 0
            for (ctx, line, got, ml), mg in zip(xs, mo):
                if mg.strip() != got.strip() and nb < 10:
                    nb += 1
                    chk.broke("correspondence Extension model/implementation differs on %s '%s': model=%s impl=%s" % (ctx, line, mg, got))

