# C06 — RecInt computes exactly modulo 2^(2^K).   (DESIGN 5/C06)
# proof:  coq/C06 (model by recursion on K, theorems by induction on K)
# tie:    correspondence: extracted model  vs  ruint<K> of /repo's current headers, K = 6..11
# search: python big-integer specification oracle on the same cases
import os, re, sys
import vf

AREA = "C06"

# variant -> (model op, number of operands, number of result tokens compared)
VARIANTS = {
    "add.rabc": ("add", 2, 2), "add.rab": ("add", 2, 2), "add.abc": ("add", 2, 1), "add.ab": ("add", 2, 1),
    "add.op+": ("add", 2, 1), "add.op+=": ("add", 2, 1), "add.alias": ("add", 2, 2),
    "add_wc.rabc": ("add_wc", 3, 2), "add_wc.rab": ("add_wc", 3, 2), "add_wc.abc": ("add_wc", 3, 1), "add_wc.ab": ("add_wc", 3, 1),
    "add_w.rabc": ("add_w", 2, 2), "add_w.rab": ("add_w", 2, 2), "add_w.abc": ("add_w", 2, 1), "add_w.ab": ("add_w", 2, 1),
    "add_w.op+": ("add_w", 2, 1),
    "add_1.ra": ("add_1", 1, 2), "add_1.rab": ("add_1", 1, 2), "add_1.a": ("add_1", 1, 1), "add_1.ab": ("add_1", 1, 1),
    "add_1.op++": ("add_1", 1, 1),
    "sub.rabc": ("sub", 2, 2), "sub.rab": ("sub", 2, 2), "sub.abc": ("sub", 2, 1), "sub.ab": ("sub", 2, 1),
    "sub.op-": ("sub", 2, 1), "sub.op-=": ("sub", 2, 1),
    "sub_wc.rabc": ("sub_wc", 3, 2), "sub_wc.rab": ("sub_wc", 3, 2), "sub_wc.abc": ("sub_wc", 3, 1), "sub_wc.ab": ("sub_wc", 3, 1),
    "cmp.cmp": ("cmp", 2, 1), "cmp.ops": ("cmp", 2, 1),
    "lmul_naive.hl": ("lmul_naive", 2, 2), "lmul_naive.a": ("lmul_naive", 2, 2),
    "lmul_kara.hl": ("lmul_kara", 2, 2), "lmul_kara.a": ("lmul_kara", 2, 2),
    "lmul.hl": ("lmul", 2, 2), "lmul.a": ("lmul", 2, 2),
    "laddmul.rhl": ("laddmul", 3, 3), "laddmul.hl": ("laddmul", 3, 2), "laddmul.ra": ("laddmul", 3, 3),
    "laddmul2.rhl": ("laddmul2", 3, 3), "laddmul2.ra": ("laddmul2", 3, 3),
    "mul.abc": ("mul", 2, 1), "mul.ab": ("mul", 2, 1), "mul.op*": ("mul", 2, 1), "mul.op*=": ("mul", 2, 1),
    "addmul.abc": ("addmul", 3, 1),
}


def oracle(op, K, a):
    """the specification: integer arithmetic reduced to 2^K bits"""
    Bk = 1 << (1 << K)
    if op == "add":
        s = a[0] + a[1]; return [s % Bk, s // Bk]
    if op == "add_wc":
        s = a[0] + a[1] + (1 if a[2] else 0); return [s % Bk, s // Bk]
    if op == "add_w":
        s = a[0] + a[1]; return [s % Bk, s // Bk]
    if op == "add_1":
        s = a[0] + 1; return [s % Bk, s // Bk]
    if op == "sub":
        s = a[0] - a[1]; return [s % Bk, 1 if s < 0 else 0]
    if op == "sub_wc":
        s = a[0] - a[1] - (1 if a[2] else 0); return [s % Bk, 1 if s < 0 else 0]
    if op == "cmp":
        return [(a[0] > a[1]) - (a[0] < a[1])]
    if op in ("lmul_naive", "lmul_kara", "lmul"):
        p = a[0] * a[1]; return [p % Bk, p // Bk]
    if op in ("laddmul", "laddmul2"):
        p = a[0] * a[1] + a[2]; return [p % Bk, (p // Bk) % Bk, p // (Bk * Bk)]
    if op == "mul":
        return [(a[0] * a[1]) % Bk]
    if op == "addmul":
        return [(a[0] + a[1] * a[2]) % Bk]
    raise KeyError(op)


def gen_operand(rng, K, op, idx):
    Bk = 1 << (1 << K)
    n = 1 << (K - 6)
    if op == "add_w" and idx == 1:
        return rng.choice([0, 1, 2**63, 2**64 - 1, rng.bits(64)])
    if op in ("add_wc", "sub_wc") and idx == 2:
        return rng.below(2)
    if op == "laddmul2" and idx == 2:
        K, Bk, n = K + 1, Bk * Bk, 2 * n
    r = rng.below(8)
    if r == 0:
        return rng.choice([0, 1, Bk - 1, Bk // 2, Bk // 2 - 1, Bk - 2, (1 << (1 << (K - 1))) - 1 if K > 6 else 3, 1 << (1 << (K - 1)) if K > 6 else 5])
    if r < 6:
        return vf.limbs_value(rng, n)
    return rng.bits(rng.range(1, 1 << K))


def source_threshold():
    txt = open(os.path.join(vf.REPO, "src/kernel/recint/recdefine.h")).read()
    m = re.search(r"#define\s+__RECINT_THRESHOLD_KARA\s+(\d+)", txt)
    return int(m.group(1)) if m else None


def tok(x):
    return x.strip().lower().lstrip("0") or "0"


def main(tier, replay=None):
    chk = vf.Check("C06", tier, "proof")
    rng = vf.Rng(chk.seed)
    thr = source_threshold()
    chk.cov["trusted_base"] = [
        "Coq 8.16.1 kernel + vm_compute (no native_compute)",
        "extraction: ExtrOcamlBasic only; Z/positive/nat kept as extracted inductives; OCaml 4.13.1; zarith only for text I/O in harness/zio.ml",
        "limb primitives of reclonglong.h (add_ssaaaa, sub_ddmmss, umul_ppmm) are specified in Model.v, not translated; validated by the correspondence run",
        "harness/c06_recint.C, checks/C06.py (case generator, python big-integer oracle)",
        "g++ 12 / x86-64 for the implementation side",
    ]
    chk.assumptions = ["model is hand-written after the templates; tie = correspondence on generated cases, K=6..11",
                       "__RECINT_THRESHOLD_KARA read from recdefine.h = %s and passed to the model" % thr]
    # 1. proofs
    res = vf.coq_check_props(AREA)
    chk.proof_result(res, AREA)
    # 2. executables
    drv, l1 = vf.ocaml_build(AREA) if os.path.exists(os.path.join(vf.coq_dir(AREA), "ocaml", "model.ml")) else (None, "extraction did not run")
    if drv is None:
        chk.broke("extracted model driver does not build", l1)
    himpl, l2 = vf.build_harness("c06_recint.C", link_lib=False)
    if himpl is None:
        chk.broke("implementation harness does not compile against /repo", l2)
        return chk.finish()
    if thr is None:
        chk.broke("cannot read __RECINT_THRESHOLD_KARA from recdefine.h")
        thr = 10
    # 3. cases
    per = 25 if tier == "quick" else 400
    cases = []
    for v, (op, n, nres) in sorted(VARIANTS.items()):
        for K in range(6, 12):
            if v.endswith(".a") or v.endswith(".ra") or op == "laddmul2":
                if K == 11:
                    continue      # needs ruint<12>; covered up to K = 10
            cnt = per if K <= 9 else max(6, per // 4)
            for i in range(cnt):
                a = [gen_operand(rng, K, op, j) for j in range(n)]
                if op == "add_1" and i < 3:
                    a = [(1 << (1 << K)) - 1 - i]
                cases.append((v, op, K, a, nres))
    impl_in = "".join("%s %d %d %s\n" % (v, K, thr, " ".join(hex(x) for x in a)) for v, op, K, a, nres in cases)
    model_in = "".join("%s %d %d %s\n" % (op, K, thr, " ".join(hex(x) for x in a)) for v, op, K, a, nres in cases)
    rc, iout, ierr = vf.run_lines(himpl, impl_in, timeout=900)
    iout = [l for l in iout if not l.startswith("#")]
    if rc != 0 or len(iout) != len(cases):
        chk.broke("implementation harness failed (rc=%s, %d/%d lines)" % (rc, len(iout), len(cases)), ierr)
        return chk.finish()
    mout = None
    if drv:
        rc, mout, merr = vf.run_lines(drv, model_in, timeout=1500)
        if rc != 0 or len(mout) != len(cases):
            chk.broke("model driver failed (rc=%s, %d/%d lines)" % (rc, len(mout), len(cases)), merr)
            mout = None
    # 4. three-way comparison
    ncorr = 0
    dist = {}
    for i, (v, op, K, a, nres) in enumerate(cases):
        exp = [tok(hex(x)[2:]) if x >= 0 else "-" + tok(hex(-x)[2:]) for x in oracle(op, K, a)][:nres]
        got = [tok(t) for t in iout[i].split()][:nres]
        if op == "cmp":
            exp = [str(oracle(op, K, a)[0])]
            got = iout[i].split()[:1]
        key = "%s/K=%d" % (v, K)
        dist[key] = dist.get(key, 0) + 1
        chk.count((v, K, tuple(a)), nontrivial=any(x > 1 for x in a))
        if i % 997 == 0:
            chk.sample({"variant": v, "K": K, "args": [hex(x) for x in a], "impl": iout[i], "spec": exp})
        if got != exp:
            chk.fail_input("RecInt::" + v, "K=%d" % K, {"variant": v, "K": K, "args": [hex(x) for x in a]}, exp, iout[i],
                           "implementation differs from integer arithmetic mod 2^(2^K)")
        if mout is not None:
            mg = [tok(t) for t in mout[i].split()][:nres]
            if op == "cmp":
                mg = mout[i].split()[:1]
            ncorr += 1
            if mg != got:
                chk.broke("correspondence model/implementation differs on %s K=%d args=%s: model=%s impl=%s"
                          % (v, K, [hex(x) for x in a], mout[i], iout[i]))
            if mg != exp:
                chk.broke("extracted model differs from the specification oracle on %s K=%d args=%s: model=%s spec=%s"
                          % (op, K, [hex(x) for x in a], mout[i], exp))
    # keep the list of broken items short
    if len(chk.broken) > 20:
        chk.broken = chk.broken[:20] + [{"what": "... %d more" % (len(chk.broken) - 20), "detail": ""}]
    chk.cov["rule"] = ("every call form (variant) x K=6..11 x operands with limbs from {0,1,2^63,2^64-1,random} / boundary values; "
                       "non-trivial = some operand > 1; distinct = (variant,K,operands)")
    chk.cov["traces_validated_against_impl"] = ncorr
    chk.cov["variants"] = len(VARIANTS)
    chk.cov["kara_threshold_from_source"] = thr
    chk.cov["distribution_by_op"] = {}
    for v, op, K, a, nres in cases:
        chk.cov["distribution_by_op"][op] = chk.cov["distribution_by_op"].get(op, 0) + 1
    return chk.finish()
