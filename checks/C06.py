# C06 — RecInt computes exactly modulo 2^(2^K).   (DESIGN 5/C06, frag/C06.design.md)
# proof:  coq/C06 (model by recursion on K, theorems by induction on K)
# tie:    correspondence: extracted model  vs  ruint<K>/rint<K> of /repo's current headers, K = 6..11
# search: python big-integer specification oracle on the same cases (independent of the Coq model)
import json, math, os, re, sys
from concurrent.futures import ThreadPoolExecutor
import vf

AREA = "C06"
KS = range(6, 12)

# ------------------------------------------------------------------------------------------------ variants
# variant -> (model op | None, spec key, generator key, number of result tokens compared, harness part, flags)
# flags: "w" needs ruint<K+1> (covered up to K = 10), "k7" only K >= 7, "k8" only K >= 8, "heavy" few cases at large K
def _v(model, spec, gen, nres, part, flags=""):
    return {"model": model, "spec": spec, "gen": gen, "nres": nres, "part": part, "flags": flags}


VARIANTS = {}


def _add(names, *a, **k):
    for n in names.split():
        VARIANTS[n] = _v(*a, **k)


# --- part 1: add / sub / compare
_add("add.rabc add.rab add.alias add.alias2", "add", "add", "2", 2, 1)
_add("add.abc add.ab add.op+ add.op+=", "add", "add", "2", 1, 1)
_add("add_wc.rabc add_wc.rab", "add_wc", "add_wc", "2c", 2, 1)
_add("add_wc.abc add_wc.ab", "add_wc", "add_wc", "2c", 1, 1)
_add("add_w.rabc add_w.rab", "add_w", "add_w", "1w", 2, 1)
_add("add_w.abc add_w.ab add_w.op+ add_w.op+r add_w.op+=", "add_w", "add_w", "1w", 1, 1)
_add("add_w.u32", "add_w", "add_w", "1w32", 1, 1)
_add("add_w.int add_w.op-neg add_w.op-=neg", "add_w", "add_w", "1w63", 1, 1)
_add("add_1.ra add_1.rab", "add_1", "add_1", "1", 2, 1)
_add("add_1.a add_1.ab add_1.op++ add_1.op++post", "add_1", "add_1", "1", 1, 1)
_add("sub.rabc sub.rab sub.alias sub.alias2", "sub", "sub", "2", 2, 1)
_add("sub.abc sub.ab sub.op- sub.op-=", "sub", "sub", "2", 1, 1)
_add("sub_wc.rabc sub_wc.rab", "sub_wc", "sub_wc", "2c", 2, 1)
_add("sub_wc.abc sub_wc.ab", "sub_wc", "sub_wc", "2c", 1, 1)
_add("sub_w.rabc sub_w.rab", "sub_w", "sub_w", "1w", 2, 1)
_add("sub_w.abc sub_w.ab sub_w.op- sub_w.op-=", "sub_w", "sub_w", "1w", 1, 1)
_add("sub_w.int sub_w.op+neg sub_w.op+=neg", "sub_w", "sub_w", "1w63", 1, 1)
_add("rsub_w.op-", None, "rsub_w", "1w", 1, 1)
_add("sub_1.ra sub_1.rab", "sub_1", "sub_1", "1", 2, 1)
_add("sub_1.a sub_1.ab sub_1.op-- sub_1.op--post", "sub_1", "sub_1", "1", 1, 1)
_add("cmp.cmp cmp.ops", "cmp", "cmp", "2eq", 1, 1)
_add("cmp_w.u64", None, "cmp_w", "1wsmall", 1, 1)
_add("cmp_w.i64", None, "cmp_si", "1si", 1, 1)
# --- part 1: products
_add("lmul_naive.hl lmul_kara.hl lmul.hl", None, "lmul", "2", 2, 1)
_add("lmul_naive.a lmul_kara.a lmul.a", None, "lmul", "2", 2, 1, flags="w")
for _n in ("lmul_naive", "lmul_kara", "lmul"):
    VARIANTS[_n + ".hl"]["model"] = _n
    VARIANTS[_n + ".a"]["model"] = _n
_add("lmul_naive.alias lmul_naive.alias2", "lmul_naive", "lmul", "2", 2, 1)
_add("lmul.alias", "lmul", "lmul", "2", 2, 1, flags="naive-only")     # lmul_kara is documented as not alias-safe
_add("lmul.inplace lmul.inplace2", "lmul", "lmul", "2", 2, 1, flags="w")
_add("lmul_kara.inplace lmul_kara.inplace2", "lmul_kara", "lmul", "2", 2, 1, flags="w")
_add("lmul_naive.inplace", "lmul_naive", "lmul", "2", 2, 1, flags="w")
_add("lmul_kara.inplacesq", "lsquare", "lsquare", "1", 2, 1, flags="w")
_add("laddmul.alias laddmul.alias2", "laddmul", "laddmul", "3", 3, 1)
_add("laddmul.rhl", "laddmul", "laddmul", "3", 3, 1)
_add("laddmul.hl", "laddmul", "laddmul", "3", 2, 1)
_add("laddmul.ra", "laddmul", "laddmul", "3", 3, 1, flags="w")
_add("laddmul.a", "laddmul", "laddmul", "3", 2, 1, flags="w")
_add("laddmul2.rhl laddmul2.ra", "laddmul2", "laddmul", "3d2", 3, 1, flags="w")
_add("mul.abc mul.ab mul.op* mul.op*= mul.alias mul.alias2", "mul", "mul", "2", 1, 1)
_add("mul.self", "mul", "mul", "self2", 1, 1)
_add("addmul.abc", "addmul", "addmul", "3", 1, 1)
_add("addmul_w.abc", "addmul_w", "addmul_w", "3w", 1, 1)
_add("lmul_w.ra", "lmul_w", "lmul_w", "1w", 2, 1)
_add("lmul_w.a", "lmul_w", "lmul_w", "1w", 2, 1, flags="w")
_add("mul_w.abc mul_w.ab mul_w.op* mul_w.op*r mul_w.op*=", "lmul_w", "lmul_w", "1w", 1, 1)
_add("mul_w.u32", "lmul_w", "lmul_w", "1w32", 1, 1)
_add("mul_w.int", "lmul_w", "lmul_w", "1w63", 1, 1)
_add("mulneg_w.op* mulneg_w.op*r mulneg_w.op*=", None, "mulneg_w", "1w63", 1, 1)
_add("square.ab", "square", "square", "1", 1, 1)
_add("lsquare.a", "lsquare", "lsquare", "1", 2, 1, flags="w")
# --- part 1: bit operations, limb access
_add("lnot.op~", "lnot", "lnot", "1", 1, 1)
_add("neg.op- neg.ab neg.a", "neg", "neg", "1", 1, 1)
_add("lor.op| lor.op|=", "lor", "lor", "2", 1, 1)
_add("lxor.op^ lxor.op^=", "lxor", "lxor", "2", 1, 1)
_add("land.op& land.op&=", "land", "land", "2", 1, 1)
_add("lor_w.op| lor_w.op|=", "lor_w", "lor_w", "1w", 1, 1)
_add("lxor_w.op^ lxor_w.op^=", "lxor_w", "lxor_w", "1w", 1, 1)
_add("land_w.op& land_w.op&=", "land_w", "land_w", "1w", 1, 1)
_add("bits.all", "bits", "bits", "1", 6, 1)
_add("limb.setget", "limb", "limb", "limb", 2, 1)
_add("manip.all", None, "manip", "1w", 9, 1)
# --- part 1: shifts
_add("shl.abc shl.op<< shl.op<<= shl.alias", "shl", "shl", "sh64", 1, 1)
_add("shl.int", "shl", "shl", "sh31", 1, 1)
_add("shl.u32", "shl", "shl", "sh32", 1, 1)
_add("shl.u16", "shl", "shl", "sh16", 1, 1)
_add("shl.u8", "shl", "shl", "sh8", 1, 1)
_add("shr.abc shr.op>> shr.op>>= shr.alias", "shr", "shr", "sh64", 1, 1)
_add("shr.int", "shr", "shr", "sh31", 1, 1)
_add("shr.u32", "shr", "shr", "sh32", 1, 1)
_add("shr.u16", "shr", "shr", "sh16", 1, 1)
_add("shr.u8", "shr", "shr", "sh8", 1, 1)
_add("shl1.zab", "shl1", "shl1", "1", 2, 1)
_add("shl1.ab shl1.alias", "shl1", "shl1", "1", 1, 1)
_add("shr1.zab", "shr1", "shr1", "1", 2, 1)
_add("shr1.ab", "shr1", "shr1", "1", 1, 1)
_add("shl_ext.abd", "shl_ext", "shl_ext", "sh64x", 1, 1, flags="w")
_add("norm.d", "norm_scan", "norm", "1n", 1, 1)
# --- part 2: division
_add("div.qrab div.alias", "div", "div", "div", 2, 2)
_add("div.q div.op/ div.op/=", "div", "div", "div", 1, 2)
_add("div.r div.op% div.op%= mod_n.ab mod_n.a", "div", "divr", "div", 1, 2)
_add("div_w.qrab", "div_w", "div_w", "divw", 2, 2)
_add("div_w.q div_w.op/ div_w.op/=", "div_w", "div_w", "divw", 1, 2)
_add("div_w.int", "div_w", "div_w", "divw63", 1, 2)
_add("div_w.r div_w.op% div_w.op%=", "div_w", "divr_w", "divw", 1, 2)
_add("divneg_w.op/ divneg_w.op/=", None, "divneg_w", "divw63", 1, 2)
_add("div21.qr", "div21", "div21", "div21", 2, 2)
_add("div32.qrr", "div32", "div32", "div32", 3, 2)
_add("mod_n.abn", "mod_n", "mod_n", "modn", 1, 2, flags="w")
# --- part 2: gcd, inverses, powers
_add("gcd.abc gcd.bc", "gcd", "gcd", "gcd", 1, 2, flags="heavy")
_add("inv_mod.abc", "inv_mod_doc", "inv_mod", "inv", 1, 2, flags="heavy")
_add("bezout_mod.xycd", "bezout_mod", "bezout_mod", "bez", 2, 2, flags="heavy")
_add("exp_mod.abcn", "exp_mod_scan", "exp_mod", "exp", 1, 2, flags="vheavy")
_add("exp_mod_w.abcn", "exp_mod_w", "exp_mod", "expw", 1, 2, flags="heavy")
_add("exp_mod_w.u32", None, "exp_mod", "expw32", 1, 2, flags="heavy")
_add("arazi_qi.ua", "arazi_qi", "arazi_qi", "odd", 1, 2)
# --- part 2: conversions
_add("mpz_to_ruint.ab mpz_to_ruint.t", "mpz_to_ruint", "mpz_to_ruint", "mpzu", 1, 2)
_add("mpz_to_ruint.str", "mpz_to_ruint", "mpz_to_ruint", "mpzu", 1, 2)
_add("ruint_to_mpz.ab ruint_to_mpz.t", None, "ruint_to_mpz", "1", 1, 2)
_add("ruint_to_mpz.round", None, "ident", "1", 1, 2)
_add("s.mpz_to_rint s.mpz_to_rint.t", "mpz_to_rint", "mpz_to_rint", "mpzs", 1, 2)
_add("s.rint_to_mpz s.rint_to_mpz.t", "rint_to_mpz", "rint_to_mpz", "1s", 1, 2)
# --- part 2: signed
_add("s.add.abc s.add.op+ s.add.op+=", "add", "add", "2s", 1, 2)
_add("s.add.rabc", "add", "add", "2s", 2, 2)
_add("s.add_1.op++", "add_1", "add_1", "1s", 1, 2)
_add("s.sub.abc s.sub.op- s.sub.op-=", "sub", "sub", "2s", 1, 2)
_add("s.sub.rabc", "sub", "sub", "2s", 2, 2)
_add("s.sub_1.op--", "sub_1", "sub_1", "1s", 1, 2)
_add("s.mul.abc s.mul.ab s.mul.op* s.mul.op*=", "mul", "mul", "2s", 1, 2)
_add("s.addmul.abc", "addmul", "addmul", "3", 1, 2)
_add("s.neg.op- s.neg.a", "neg", "neg", "1s", 1, 2)
_add("s.lnot.op~", "lnot", "lnot", "1s", 1, 2)
_add("s.lor.op| s.lor.op|=", "lor", "lor", "2s", 1, 2)
_add("s.lxor.op^ s.lxor.op^=", "lxor", "lxor", "2s", 1, 2)
_add("s.land.op& s.land.op&=", "land", "land", "2s", 1, 2)
_add("s.shl.op<< s.shl.op<<=", "shl", "shl", "sh64", 1, 2)
_add("s.shr.op>> s.shr.op>>=", "sshr", "sshr", "sh64s", 1, 2)
_add("s.sign", None, "ssign", "1s", 2, 2)
_add("s.div_q.qab s.div_q.op/ s.div_q.op/=", "sdiv_q", "sdiv_q", "sdiv", 1, 2)
_add("s.div_r.rab s.div_r.op% s.div_r.op%=", "sdiv_r", "sdiv_r", "sdivr", 1, 2)
_add("s.div_q_w.i64 s.div_q_w.op/ s.div_q_w.op/=", None, "sdiv_q_si", "sdivsi", 1, 2)
_add("s.cmp.cmp s.cmp.ops", "scmp", "scmp", "2seq", 1, 2)
_add("s.cmp_w.i64", None, "scmp_si", "1ssi", 1, 2)
_add("s.cmp_w.int", None, "scmp_si", "1ssi32", 1, 2)
_add("s.cmp_w.u64", None, "scmp_w", "1swsmall", 1, 2)
_add("s.ctor.i64 u.ctor.i64", None, "ctor_si", "si", 1, 2)
_add("s.ctor.int", None, "ctor_si", "si32", 1, 2)
_add("u.ctor.u64", None, "ctor_w", "w", 1, 2)
_add("s.add_w.i64", None, "add_w1", "1sw63", 1, 2)          # add(rint, rint, word): the word is an unsigned quantity, as for ruint
_add("s.add_w.op+=", None, "sadd_si", "1ssi", 1, 2)
_add("s.add_w.u64", None, "add_w1", "1sw", 1, 2)
_add("s.sub_w.i64", None, "sub_w1", "1sw63", 1, 2)
_add("s.sub_w.op-=", None, "ssub_si", "1ssi", 1, 2)
_add("s.sub_w.u64", None, "sub_w1", "1sw", 1, 2)
_add("s.mul_w.abc s.mul_w.op* s.mul_w.op*r s.mul_w.op*=", None, "smul_si", "1ssi", 1, 2)
_add("s.mod_n.a", None, "smod_n1", "smodn1", 1, 2)
_add("s.mod_n.abn", "smod_n", "smod_n", "smodn", 1, 2, flags="w")
_add("s.inv_mod", "sinv_mod_doc", "sinv_mod", "sinv", 1, 2, flags="heavy")
_add("s.lmul.a", "slmul", "slmul", "2s", 1, 2, flags="w")
_add("s.lsquare.a", "slsquare", "slsquare", "1s", 1, 2, flags="w")
_add("s.sext", "sext", "sext", "1s", 1, 2, flags="w")

# --- part 6 (harness/c06_conv.C): conversions on a destination that is NOT fresh (prev = its previous contents)
_add("conv.to_ruint", "mpz_to_ruint_into", "conv_to_ruint", None, 1, 6)
_add("conv.to_rint", "mpz_to_rint_into", "conv_to_rint", None, 1, 6)
_add("conv.from_ruint", "ruint_to_mpz_into", "conv_from_ruint", None, 3, 6)
_add("conv.from_rint", "rint_to_mpz_into", "conv_from_rint", None, 3, 6)
_add("conv.copies", None, "conv_copies", None, 1, 6)
_add("conv.dec", "display_dec", "conv_dec", None, 2, 6)
VARIANTS["conv.dec"]["mres"] = 1
_add("conv.rint_from_integer", None, "conv_to_rint", None, 1, 6)
_add("conv.widen", "sext", "conv_widen", None, 2, 6, flags="w")
VARIANTS["conv.to_ruint"]["mboth"] = True      # the model returns (with reset, without reset): both must equal the implementation
VARIANTS["conv.from_ruint"]["mres"] = 1
VARIANTS["conv.from_rint"]["mres"] = 1
VARIANTS["conv.widen"]["mskip"] = 1            # the model (sext) gives the second token only
VARIANTS["s.mod_n.a"]["model"] = "smod_n1"

# --- parts 3, 4, 5 (harness/c06_native.C): every overload with a NATIVE operand, for every native type
# type -> (harness part, lowest value, highest value, signed, bits); double carries integers up to 2^53
NTYPES = {"u8": (3, 0, 2**8 - 1, False, 8), "u16": (3, 0, 2**16 - 1, False, 16), "u32": (3, 0, 2**32 - 1, False, 32),
          "u64": (3, 0, 2**64 - 1, False, 64),
          "i8": (4, -2**7, 2**7 - 1, True, 8), "i16": (4, -2**15, 2**15 - 1, True, 16), "i32": (4, -2**31, 2**31 - 1, True, 32),
          "i64": (4, -2**63, 2**63 - 1, True, 64),
          "bool": (5, 0, 1, False, 1), "ull": (5, 0, 2**64 - 1, False, 64), "ll": (5, -2**63, 2**63 - 1, True, 64),
          "dbl": (5, -2**53, 2**53, True, 53)}
# op -> (model op, result tokens compared with the oracle, tokens compared with the model)
NOPS = {"addf": ("add_w", 2, 2), "addo": ("op_add_si", 1, 1), "subf": ("sub_w", 2, 2), "subo": ("op_sub2", 2, 2),
        "mulf": ("lmul_w", 2, 2), "mulo": ("op_mul_si", 1, 1), "divf": ("div_w", 2, 2), "divo": ("op_div_n", 1, 1),
        "modo": ("op_mod_w", 1, 1), "sdivo": ("sdiv_q_si", 1, 1), "cmp": ("cmp_n", 2, 2), "bit": ("bit_n", 4, 3),
        "saddf": ("op_addsub_si", 2, 2), "sremo": ("sdiv_r", 1, 1), "ctor": ("ctor_n", 3, 1), "shl": ("shl_cnt", 1, 1), "shr": ("shr2_cnt", 2, 2), "expw": ("exp_mod_n", 1, 1)}
for _ty, (_part, _lo, _hi, _sg, _bits) in NTYPES.items():
    for _op, (_m, _nres, _mres) in NOPS.items():
        if (_op in ("shl", "shr") and _ty == "dbl") or (_op == "expw" and (_sg or _ty == "bool")) or (_op in ("saddf", "sremo") and _ty in ("dbl", "bool")):
            continue
        VARIANTS["nat.%s.%s" % (_op, _ty)] = dict(_v(_m, "nat:%s:%s" % (_op, _ty), None, _nres, _part), mres=_mres)
VARIANTS["nat.cast"] = dict(_v("cast", "nat:cast:", None, 10, 3))
VARIANTS["nat.consts"] = dict(_v("maxconst", "nat:consts:", None, 5, 3), mres=3)

MODEL_PICK = {"divr": 1, "divr_w": 1}      # first model token compared (the model returns (q, r), the call form only r)
DEC_RESULTS = {"cmp", "cmp_w", "cmp_si", "scmp", "scmp_si", "scmp_w", "ruint_to_mpz", "rint_to_mpz"}   # decimal result tokens


# ------------------------------------------------------------------------------------------------ specification
def sgn(x):
    return (x > 0) - (x < 0)


def sval(x, K):
    """two's-complement reading of the 2^K-bit pattern x"""
    Bk = 1 << (1 << K)
    return x - Bk if x >= Bk // 2 else x


def tdiv(a, b):
    q = abs(a) // abs(b)
    return -q if (a < 0) != (b < 0) else q


def oracle(spec, K, a):
    """the specification: integer arithmetic (python ints), reduced to 2^K bits.  Returns a list of ints, or None
    when the operation's documented precondition does not hold for these arguments (nothing to check then)."""
    n = 1 << K
    Bk = 1 << n
    if spec == "add":
        s = a[0] + a[1]; return [s % Bk, s // Bk]
    if spec == "add_wc":
        s = a[0] + a[1] + (1 if a[2] else 0); return [s % Bk, s // Bk]
    if spec == "add_w":
        s = a[0] + a[1]; return [s % Bk, s // Bk]
    if spec == "add_1":
        s = a[0] + 1; return [s % Bk, s // Bk]
    if spec in ("sub", "sub_w"):
        s = a[0] - a[1]; return [s % Bk, 1 if s < 0 else 0]
    if spec == "rsub_w":
        return [(a[1] - a[0]) % Bk]
    if spec == "sub_wc":
        s = a[0] - a[1] - (1 if a[2] else 0); return [s % Bk, 1 if s < 0 else 0]
    if spec == "sub_1":
        return [(a[0] - 1) % Bk, 1 if a[0] == 0 else 0]
    if spec in ("cmp", "cmp_w", "cmp_si"):
        return [sgn(a[0] - a[1])]
    if spec == "lmul":
        p = a[0] * a[1]; return [p % Bk, p // Bk]
    if spec == "laddmul":
        p = a[0] * a[1] + a[2]; return [p % Bk, (p // Bk) % Bk, p // (Bk * Bk)]
    if spec == "mul":
        return [(a[0] * a[1]) % Bk]
    if spec == "addmul" or spec == "addmul_w":
        return [(a[0] + a[1] * a[2]) % Bk]
    if spec == "lmul_w":
        p = a[0] * a[1]; return [p % Bk, p // Bk]
    if spec == "mulneg_w":
        return [(-(a[0] * a[1])) % Bk]
    if spec == "lsquare":
        p = a[0] * a[0]; return [p % Bk, p // Bk]
    if spec == "square":
        return [(a[0] * a[0]) % Bk]
    if spec == "lnot":
        return [Bk - 1 - a[0]]
    if spec == "neg":
        return [(-a[0]) % Bk]
    if spec in ("lor", "lor_w"):
        return [a[0] | a[1]]
    if spec in ("lxor", "lxor_w"):
        return [a[0] ^ a[1]]
    if spec in ("land", "land_w"):
        return [a[0] & a[1]]
    if spec == "bits":
        return [a[0] >> (n - 1), a[0] & 1, a[0] | (Bk >> 1), a[0] | 1, Bk >> 1, Bk - 1]
    if spec == "limb":
        i = a[2]; m = ((1 << 64) - 1) << (64 * i)
        return [(a[0] & ~m) | (a[1] << (64 * i)), (a[0] >> (64 * i)) & ((1 << 64) - 1)]
    if spec == "manip":
        W = 1 << 64; top = 64 * (n // 64 - 1)
        return [0, a[0], a[0] >> top, (a[0] % (1 << top)) | (a[1] << top), (a[0] - a[0] % W) | a[1], a[0] % W,
                1 if a[0] else 0, a[0] % W, n // 64]
    if spec == "shl":
        return [0 if a[1] > 2 * n else (a[0] << a[1]) % Bk]
    if spec == "shr":
        return [0 if a[1] > 2 * n else a[0] >> a[1]]
    if spec == "sshr":          # arithmetic shift of the signed reading (what mpz_fdiv_q_2exp computes), reduced
        return [(-1 if sval(a[0], K) < 0 else 0) % Bk if a[1] > 2 * n else (sval(a[0], K) >> a[1]) % Bk]
    if spec == "shl1":
        return [(2 * a[0]) % Bk, a[0] >> (n - 1)]
    if spec == "shr1":
        return [a[0] >> 1, a[0] & 1]
    if spec == "shl_ext":
        return [0 if a[1] > 4 * n else (a[0] << a[1]) % (Bk * Bk)]
    if spec == "norm":
        return [n - a[0].bit_length()]
    if spec == "div":
        return None if a[1] == 0 else [a[0] // a[1], a[0] % a[1]]
    if spec == "divr":
        return None if a[1] == 0 else [a[0] % a[1]]
    if spec == "div_w":
        return None if a[1] == 0 else [a[0] // a[1], a[0] % a[1]]
    if spec == "divr_w":
        return None if a[1] == 0 else [a[0] % a[1]]
    if spec == "divneg_w":
        return None if a[1] == 0 else [(-(a[0] // a[1])) % Bk]
    if spec == "div21":
        if not (a[2] >= Bk // 2 and a[0] < a[2]):
            return None
        N = a[0] * Bk + a[1]; return [N // a[2], N % a[2]]
    if spec == "div32":
        if not (a[3] >= Bk // 2 and (a[0], a[1]) < (a[3], a[4])):
            return None
        A = (a[0] * Bk + a[1]) * Bk + a[2]; Bv = a[3] * Bk + a[4]
        q, R = divmod(A, Bv); return [q, R // Bk, R % Bk]
    if spec == "mod_n":
        return None if a[1] == 0 else [a[0] % a[1]]
    if spec == "gcd":
        return [math.gcd(a[0], a[1])]
    if spec == "inv_mod":
        if a[1] == 0:
            return None
        if math.gcd(a[0], a[1]) != 1:
            return [0]                              # ruinvmod.h: "if b is not invertible, a = 0"
        return [pow(a[0], -1, a[1])]
    if spec == "bezout_mod":
        if a[0] < 2 or a[1] < 2 or math.gcd(a[0], a[1]) != 1:
            return None
        return [pow(a[0], -1, a[1]), pow(a[1], -1, a[0])]
    if spec == "exp_mod":
        return None if a[2] == 0 else [pow(a[0], a[1], a[2])]
    if spec == "arazi_qi":
        return None if a[0] % 2 == 0 else [pow(a[0], -1, Bk)]
    if spec in ("mpz_to_ruint", "mpz_to_rint", "ctor_si", "ctor_w"):
        return [a[0] % Bk]
    if spec in ("ruint_to_mpz", "ident"):
        return [a[0]]
    if spec == "rint_to_mpz":
        return [sval(a[0], K)]
    if spec == "ssign":
        return [1 if sval(a[0], K) < 0 else 0, 0 if sval(a[0], K) < 0 else 1]
    if spec == "sdiv_q":
        return None if a[1] == 0 else [tdiv(sval(a[0], K), sval(a[1], K)) % Bk]
    if spec == "sdiv_r":        # documented precondition (assert in the code): b > 1
        sa, sb = sval(a[0], K), sval(a[1], K)
        return None if sb <= DIV_R_MIN[0] else [(sgn(sa) * (abs(sa) % sb)) % Bk]
    if spec == "sdiv_q_si":
        return None if a[1] == 0 else [tdiv(sval(a[0], K), a[1]) % Bk]
    if spec == "scmp":
        return [sgn(sval(a[0], K) - sval(a[1], K))]
    if spec in ("scmp_si", "scmp_w"):
        return [sgn(sval(a[0], K) - a[1])]
    if spec in ("sadd_si", "add_w1"):
        return [(a[0] + a[1]) % Bk]
    if spec in ("ssub_si", "sub_w1"):
        return [(a[0] - a[1]) % Bk]
    if spec == "smul_si":
        return [(a[0] * a[1]) % Bk]
    if spec == "smod_n1":
        sn = sval(a[1], K)
        return None if sn <= 0 else [sval(a[0], K) % sn]
    if spec == "smod_n":
        sn = sval(a[1], K)
        return None if sn <= 0 else [sval(a[0], K + 1) % sn]
    if spec == "sinv_mod":
        sb, sc = sval(a[0], K), sval(a[1], K)
        if sc <= 1 or sb <= -sc:
            return None
        if math.gcd(sb, sc) != 1:
            return [0]                              # documented value for a non-invertible operand
        return [pow(sb % sc, -1, sc)]
    if spec == "slmul":
        return [(sval(a[0], K) * sval(a[1], K)) % (Bk * Bk)]
    if spec == "slsquare":
        return [(sval(a[0], K) ** 2) % (Bk * Bk)]
    if spec == "sext":
        return [sval(a[0], K) % (Bk * Bk)]
    if spec.startswith("nat:"):
        return oracle_native(spec, K, a)
    if spec == "conv_to_ruint" or spec == "conv_to_rint":
        return [a[1] % Bk]
    if spec == "conv_from_ruint":
        return [a[1], 0, 0]                       # value, GMP blocks still allocated after ruint_to_mpz_t + mpz_clear, after Integer forms
    if spec == "conv_from_rint":
        return [sval(a[1] % Bk, K), 0, 0]
    if spec == "conv_copies":
        return [a[1]]
    if spec == "conv_dec":
        return [a[1] % Bk, sval(a[1] % Bk, K)]
    if spec == "conv_widen":
        return [a[1] % Bk, sval(a[1] % Bk, K) % (Bk * Bk)]
    raise KeyError(spec)


def wrap_native(v, ty):
    """the 64-bit two's complement pattern of the value v converted to the native type ty (what the harness prints)"""
    part, lo, hi, sg, bits = NTYPES[ty]
    if ty == "bool":
        return 1 if v else 0
    if ty == "dbl":
        return v % W64
    v %= 1 << bits
    if sg and v >= 1 << (bits - 1):
        v -= 1 << bits
    return v % W64


def oracle_native(spec, K, a):
    _, op, ty = spec.split(":")
    n = 1 << K
    Bk = 1 << n
    x = a[0] % Bk
    if op == "cast":
        u = [x % (1 << b) for b in (8, 16, 32, 64)]
        sg = [(v - (1 << b) if v >= 1 << (b - 1) else v) % W64 for v, b in zip(u, (8, 16, 32, 64))]
        sxx = sval(x, K)
        mag = abs(sxx) % W64                       # (double)rint: sign kept, magnitude reduced to its lowest limb (rrint.h, d984652)
        return u + sg + [1 if x else 0, ((-mag if sxx < 0 else mag) % W64) if mag < 2**53 else None]
    if op == "consts":
        c31 = SRC_CONST.get("thirtyonepointfive", 3037000499)
        fl = c31 if K == 6 else c31 << ((1 << (K - 1)) - 32)
        return [1 << (1 << (K - 1)), Bk - 1, fl, (Bk - 1) // 2, fl]
    c = a[1]
    sx = sval(x, K)
    if op == "addf":
        return [(x + c) % Bk, (x + c) // Bk]
    if op == "addo":
        return [(x + c) % Bk]
    if op == "subf":
        return [(x - c) % Bk, 1 if x < c else 0]
    if op == "subo":
        return [(x - c) % Bk, (c - x) % Bk]
    if op == "mulf":
        return [(x * c) % Bk, (x * c) // Bk]
    if op == "mulo":
        return [(x * c) % Bk]
    if op == "divf":
        return None if c <= 0 else [x // c, wrap_native(x % c, ty)]
    if op == "divo":
        return None if c == 0 else [tdiv(x, c) % Bk]
    if op == "modo":
        return None if c <= 0 else [x % c]
    if op == "sdivo":
        return None if c == 0 else [tdiv(sx, c) % Bk]
    if op == "saddf":
        return [(sx + c) % Bk, (sx - c) % Bk]
    if op == "sremo":                              # remainder of the truncated division (sign of the dividend), modulo |c|
        sc = sval(c % Bk, K)                       # the divisor is rint<K>(c): an unsigned c >= 2^63 is negative at K = 6
        return None if sc <= DIV_R_MIN[0] else [(sgn(sx) * (abs(sx) % sc)) % Bk]     # b > 1: the documented precondition (rdiv.h assert)
    if op == "cmp":
        return [sgn(x - c), sgn(sx - c)]
    if op == "bit":
        cw = c % W64                              # limb(c): only the lowest limb takes part
        return [x | cw, x ^ cw, x & cw, wrap_native(x & cw, ty) if ty != "bool" else (1 if x & cw else 0)]
    if op == "ctor":
        return [c % Bk, c % Bk, wrap_native(c, ty) if a[2] else None]
    if op == "shl":
        return [0 if c >= n else (x << c) % Bk]
    if op == "shr":
        cc = min(c, 2 * n)
        return [x >> cc, (sx >> cc) % Bk]
    if op == "expw":
        return None if a[2] == 0 else [pow(x, c, a[2])]
    raise KeyError(spec)


SRC_CONST = {}          # constants printed by the compiled harness (filled by main)


def div_r_lower_bound():
    """the documented domain of div_r(rint&, const rint&, const rint&) / operator% / %= : rdiv.h states it as `assert(b > N)` at the
    top of both div_r overloads of rint.  Read on every run; divisors b <= N are outside the precondition and are NOT generated
    nor checked.  Returns (N, how it was obtained)."""
    try:
        txt = open(os.path.join(vf.REPO, "src/kernel/recint/rdiv.h")).read()
    except OSError:
        return 1, "rdiv.h not readable: default b > 1"
    found = []
    for m in re.finditer(r"div_r\(\s*(?:rint<K>|T)&\s*r\s*,\s*const\s+rint<K>&\s*a\s*,[^)]*\)\s*\{\s*assert\(\s*b\s*>\s*(-?\d+)\s*\)", txt):
        found.append(int(m.group(1)))
    if not found:
        return 1, "no `assert(b > N)` found at the top of div_r(rint) in rdiv.h: the restriction b > 1 of the last known source is kept"
    return max(max(found), 1), "assert(b > %s) in %d div_r(rint) overload(s) of rdiv.h" % (max(found), len(found))


DIV_R_MIN = [1]         # divisors of the rint remainder forms must exceed this (filled by main from the source)
# the call forms run (and cross-checked against each other) inside one case of harness/c06_native.C / c06_conv.C
NAT_FORMS = {
    "addf": "add(r,a,b,T) add(r,a,T) add(a,b,T) add(a,T), the same four on rint<K>",
    "addo": "a+T T+a a+=T rint+=T",
    "subf": "sub(r,a,b,T) sub(r,a,T) sub(a,b,T) sub(a,T), the same four on rint<K>",
    "subo": "a-T a-=T rint-=T T-a",
    "mulf": "lmul(limb&,a,b,T) mul(a,b,T) mul(a,T) lmul(limb&,a,a,T) mul(rint,rint,T) mul(rint,T)",
    "mulo": "a*T T*a a*=T rint*T T*rint rint*=T",
    "divf": "div(q,T&,a,T) div_q(q,a,T) div_r(T&,a,T) div(a,T&,a,T)",
    "saddf": "add(rint,rint,T) add(rint,T) add(r,rint,rint,T) add(r,rint,T) and the four sub forms, T of any sign",
    "sremo": "div_r(rint,rint,rint) rint%rint rint%=rint, divisor b > 1 (the precondition rdiv.h asserts; read from the source)",
    "divo": "a/T a/=T", "modo": "a%T a%=T", "sdivo": "div_q(rint,rint,T) rint/T rint/=T",
    "cmp": "cmp(a,T) and == != < <= > >= in both operand orders, for ruint<K> and rint<K>",
    "bit": "a|T a|=T a^T a^=T a&T a&=T rint^=T rint&=T",
    "ctor": "ruint<K>(T) a=T a=ruint<K>(T) rint<K>(T) rint=T (T)ruint (T)rint",
    "shl": "left_shift(a,b,T) a<<T a<<=T left_shift(a,a,T) rint<<T rint<<=T",
    "shr": "right_shift(a,b,T) a>>T a>>=T right_shift(a,a,T) rint>>T rint>>=T",
    "expw": "exp_mod(a,b,T,n)",
    "cast": "operator T() of ruint<K> and rint<K> for bool, (un)signed char/short/int/long/long long, float, double (the sign of a negative rint kept)",
    "consts": "ruint<K>::maxCardinality maxElement maxFFLAS, rint<K>::maxElement maxCardinality",
    "conv.to_ruint": "mpz_to_ruint mpz_t_to_ruint Caster(ruint&,Integer) istream>>ruint ruint=Integer (ruint)Integer ruint(Integer) "
                     "placement-new ruint(Integer) ruint(const char*) mpz_to_ruint twice on one object",
    "conv.to_rint": "mpz_to_rint mpz_t_to_rint Caster(rint&,Integer) istream>>rint Integer::operator rint",
    "conv.rint_from_integer": "rint<K>(Integer) rint=(rint)Integer",
    "conv.from_ruint": "ruint_to_mpz ruint_to_mpz_t(+GMP block accounting) Integer(ruint) Caster(Integer&,ruint) ostream<<ruint dec/hex, round trip",
    "conv.from_rint": "rint_to_mpz rint_to_mpz_t(+GMP block accounting) Integer(rint) Caster(Integer&,rint) ostream<<rint dec/hex, round trip",
    "conv.copies": "operator= copy copy(a,a) copy-constructor reset default constructor on used memory, for ruint<K> and rint<K>",
    "conv.widen": "ruint<K+1>(ruint<K>) rint<K+1>(rint<K>) on used memory"}


# ------------------------------------------------------------------------------------------------ generators
W64 = 1 << 64
WORDS = [0, 1, 2, 3, 2**31, 2**32 - 1, 2**32, 2**63 - 1, 2**63, 2**63 + 1, 2**64 - 2, 2**64 - 1]


def g_int(rng, K):
    """operand of 2^K bits: boundary values / directed limbs {0,1,2^63,2^64-1,..} / random length"""
    Bk = 1 << (1 << K)
    n = 1 << (K - 6)
    r = rng.below(9)
    if r == 0:
        h = 1 << (1 << (K - 1))
        return rng.choice([0, 1, 2, Bk - 1, Bk // 2, Bk // 2 - 1, Bk // 2 + 1, Bk - 2, h - 1, h, h + 1, Bk - h, Bk - h - 1])
    if r == 8:
        return g_limbwise(rng, K)
    if r < 6:
        return vf.limbs_value(rng, n)
    return rng.bits(rng.range(1, 1 << K))


DIRECTED_LIMBS = [0, 1, 1 << 63, (1 << 64) - 1]


def g_limbwise(rng, K, interior_zero=True):
    """value built limb by limb from {0, 1, 2^63, 2^64-1, random}; with interior_zero (and K >= 7) at least one zero limb
    lies BELOW a non-zero limb (loops over the limbs of an operand must not treat such a limb as 'nothing to do')"""
    n = 1 << (K - 6)
    limbs = [rng.choice(DIRECTED_LIMBS) if rng.chance(2, 3) else rng.bits(64) for _ in range(n)]
    if interior_zero and n >= 2:
        z = rng.below(n - 1)                       # the zero limb
        limbs[z] = 0
        if rng.chance(1, 2):                       # a run of zero limbs
            for j in range(z, min(n - 1, z + 1 + rng.below(n))):
                limbs[j] = 0
        top = rng.range(max(z + 1, [j for j in range(n) if limbs[j] == 0][-1] + 1 if limbs[n - 1] else n - 1), n - 1)
        if limbs[top] == 0:
            limbs[top] = rng.choice([1, 1 << 63, (1 << 64) - 1, rng.bits(64) | 1])
        if rng.chance(1, 2):                       # nothing above the chosen top limb: a short operand
            for j in range(top + 1, n):
                limbs[j] = 0
    v = 0
    for j, l in enumerate(limbs):
        v |= l << (64 * j)
    return v


def has_interior_zero_limb(x):
    seen_zero = False
    while x:
        if x & ((1 << 64) - 1) == 0:
            seen_zero = True
        elif seen_zero:
            return True
        x >>= 64
    return False


def g_word(rng, maxbits=64):
    r = rng.below(4)
    if r == 0:
        return rng.choice([w for w in WORDS if w < (1 << maxbits)])
    if r == 1:
        return rng.bits(rng.range(1, maxbits))
    return rng.bits(maxbits)


def g_si(rng, bits=64):
    lim = 1 << (bits - 1)
    r = rng.below(4)
    if r == 0:
        return rng.choice([0, 1, -1, 2, -2, 3, -3, lim - 1, -(lim - 1), 2**31 - 1 if bits > 32 else 7, -(2**31) if bits > 32 else -7])
    v = rng.bits(rng.range(1, bits - 1))
    return -v if rng.chance(1, 2) else v


def g_shift(rng, K, maxv, ext=False):
    nb = 1 << K
    if ext:
        nb *= 2
    pts = [0, 1, 2, 31, 32, 33, 63, 64, 65, 127, 128, 129, nb // 4, nb // 2 - 1, nb // 2, nb // 2 + 1, nb - 1, nb, nb + 1,
           2 * nb - 1, 2 * nb, 2 * nb + 1, 3 * nb, 255, 256, 65535, 2**31 - 1, 2**32 - 1, 2**63 - 1, 2**63, 2**64 - 1]
    pts = [p for p in pts if p <= maxv]
    if ext and rng.chance(1, 4):
        return min(maxv, (nb // 2) + rng.choice([0, 0, -1, 1]))      # defect = 0 and its neighbours for the widening shift
    r = rng.below(3)
    if r == 0:
        return rng.choice(pts)
    if r == 1:
        return min(maxv, rng.below(nb + 2))
    return min(maxv, rng.choice([nb // 2, nb // 4, 64, 128, nb]) + rng.range(-2, 2) if K > 6 else rng.below(70))


def g_divisor(rng, K):
    """divisors aimed at the quotient-estimate corrections: top half 100..0 / 0111..1 / all ones, low half all ones"""
    n = 1 << K
    Bk = 1 << n
    r = rng.below(10)
    if r < 3:
        nb = rng.choice([n, n, n // 2, n // 2 + 1, 64, 65, rng.range(1, n)]) if K > 6 else rng.range(1, 64)
        hi = rng.choice([1 << (nb - 1), (1 << (nb - 1)) + 1, (1 << nb) - 1, (1 << (nb - 1)) | ((1 << (nb // 2)) - 1)])
        return max(1, hi)
    if r < 5:
        # b1 = 2^(h-1) (smallest normalised top half), b0 = all ones or close
        h = n // 2
        b1 = rng.choice([1 << (h - 1), (1 << (h - 1)) + 1, (1 << h) - 1, (1 << (h - 1)) + rng.bits(8)])
        b0 = rng.choice([(1 << h) - 1, (1 << h) - 2, (1 << h) - 1 - rng.bits(16), rng.bits(h), 0, 1])
        return (b1 << h) | b0
    if r < 6:
        return rng.choice([1, 2, 3, W64 - 1, W64, W64 + 1, Bk - 1, Bk // 2, Bk // 2 + 1]) % Bk or 1
    v = g_int(rng, K)
    if rng.chance(1, 2):
        v >>= rng.below(n)
    return v or 1


def g_dividend_for(rng, K, b, top=None):
    """a = q*b + r with q and r from boundary sets, kept below `top` (default 2^(2^K))"""
    Bk = top or (1 << (1 << K))
    r = rng.below(6)
    if r == 0:
        return g_int(rng, K) % Bk
    qmax = (Bk - 1) // b
    q = rng.choice([qmax, max(qmax - 1, 0), qmax // 2, rng.below(qmax + 1), rng.below(qmax + 1), vf.limbs_value(rng, 1 << (K - 6)) % (qmax + 1)])
    rem = rng.choice([0, 1, b - 1, max(b - 2, 0), rng.below(b), b // 2])
    a = q * b + rem
    return a if a < Bk else (q * b if q * b < Bk else rem)


def d32_corrections(beta, a2, a1, a0, b1, b0):
    """number of quotient corrections div_3_2 performs on these digits (generator aid only: used to aim draws at the
    rare two-correction path, never to decide a verdict)"""
    ret = False
    if a2 < b1:
        q, c = divmod(a2 * beta + a1, b1)
    else:
        q, c = beta - 1, a1 + b1
        if c >= beta:
            c -= beta; ret = True
    d1, d0 = divmod(q * b0, beta)
    if ret or not (d1 > c or (d1 == c and d0 > a0)):
        return 0
    R = ((c * beta + a0) - (d1 * beta + d0)) % (beta * beta)
    return 2 if R + b1 * beta + b0 < beta * beta else 1


def g_two_corrections(rng, beta):
    best = None
    for _ in range(10):
        best = _g_two_corrections(rng, beta)
        if d32_corrections(beta, *best) == 2:
            break
    return best


def _g_two_corrections(rng, beta):
    """(a2,a1,a0,b1,b0) in base beta: b1 barely normalised, b0 close to beta-1, large quotient, and a remainder whose low
    digit is b0 (+-1): the quotient estimate is then two too large in about a quarter of the draws, and the low digit of
    the remainder after the first correction is exactly 0 (+-1)"""
    nb = beta.bit_length() - 1
    b1 = beta // 2 + rng.choice([0, 0, 1, rng.bits(8), rng.bits(min(40, nb - 2))])
    b0 = beta - 1 - rng.choice([0, 0, 1, rng.bits(8)])
    q = rng.choice([beta - 1, beta - 2, rng.bits(nb), rng.bits(nb), beta - 1 - rng.bits(8)])
    r1 = rng.choice([rng.below(b1), b1 - 1, 0, b1 - 1 - rng.bits(8)])
    r0 = (b0 + rng.choice([0, 0, 0, 0, -1, 1])) % beta
    R = r1 * beta + r0
    Bv = b1 * beta + b0
    if R >= Bv:
        R = r0
    A = q * Bv + R
    return A // (beta * beta), (A // beta) % beta, A % beta, b1, b0


def g_div32(rng, K):
    """(a2,a1,a0,b1,b0) with b1 normalised and (a2,a1) < (b1,b0); aimed at q = B-1 and at one / two corrections"""
    n = 1 << K
    Bk = 1 << n
    b1 = rng.choice([Bk // 2, Bk // 2 + 1, Bk - 1, Bk // 2 + rng.bits(n - 1), Bk // 2 + rng.bits(16), (Bk // 2) | vf.limbs_value(rng, 1 << (K - 6))])
    b1 = (b1 % Bk) | (Bk // 2)
    b0 = rng.choice([Bk - 1, Bk - 2, 0, 1, rng.bits(n), Bk - 1 - rng.bits(20), vf.limbs_value(rng, 1 << (K - 6))])
    Bv = b1 * Bk + b0
    if rng.chance(1, 3):
        return list(g_two_corrections(rng, Bk))
    if K == 6 and rng.chance(1, 4):
        # a2 < b1 with the half-limb digits of (a2, a1) / b1 aimed at two corrections inside __udiv_qrnnd_c
        x2, x1, x0, y1, y0 = g_two_corrections(rng, 1 << 32)
        return [x2 * (1 << 32) + x1, x0 * (1 << 32) + rng.bits(32), rng.bits(64), y1 * (1 << 32) + y0, b0]
    r = rng.below(8)
    if r < 3:
        # a2 = b1: the q = B-1 branch
        a2 = b1
        a1 = rng.below(b0) if b0 > 0 else 0
        if b0 == 0:
            a2 = b1 - 1; a1 = rng.bits(n)
        a0 = rng.choice([0, 1, Bk - 1, rng.bits(n)])
        if rng.chance(1, 3) and b0 > 0:
            a1 = b0 - 1; a0 = rng.choice([Bk - 1, 0, rng.bits(n)])
        return [a2, a1, a0, b1, b0]
    if r < 7:
        # A = q*Bv + R with q, R from boundary sets
        q = rng.choice([Bk - 1, Bk - 2, Bk // 2, rng.bits(n), vf.limbs_value(rng, 1 << (K - 6)), 0, 1])
        R = rng.choice([0, 1, Bv - 1, Bv - 2, rng.below(Bv), b0, Bv - b0 - 1 if Bv > b0 + 1 else 0])
        A = q * Bv + R
        return [A >> (2 * n), (A >> n) % Bk, A % Bk, b1, b0]
    a2 = rng.below(b1)
    return [a2, rng.bits(n), rng.bits(n), b1, b0]


def g_coprime_pair(rng, K, odd_mod=False):
    n = 1 << K
    for _ in range(50):
        c = g_int(rng, K) or 3
        if rng.chance(1, 3):
            c >>= rng.below(n - 1)
        c = max(c, 2)
        if odd_mod:
            c |= 1
        b = g_int(rng, K)
        if rng.chance(1, 2):
            b %= c
        if b and math.gcd(b, c) == 1 and c > 1:
            return b, c
    return 3, 7


def gen_args(rng, K, gen, spec):
    n = 1 << K
    Bk = 1 << n
    h = Bk // 2
    if gen == "1":
        return [g_int(rng, K)]
    if gen == "1s":
        return [rng.choice([g_int(rng, K), Bk - 1 - rng.bits(rng.range(1, n - 1)), h, h - 1, h + 1, Bk - 1])]
    if gen in ("2", "2s"):
        if spec in ("lmul", "mul", "slmul") and rng.chance(1, 4):
            # both halves of both operands close to all ones: the middle Karatsuba term exceeds 2^(2^K) (r = 1, rb = rc = 1)
            sm = lambda: rng.choice([0, 1, rng.bits(8), rng.bits(64)])
            hb = 1 << (n // 2)
            return [((hb - 1 - sm()) * hb + (hb - 1 - sm())) % Bk, ((hb - 1 - sm()) * hb + (hb - 1 - sm())) % Bk]
        return [g_int(rng, K), g_int(rng, K)]
    if gen in ("2eq", "2seq"):
        a = g_int(rng, K)
        r = rng.below(5)
        b = a if r == 0 else (a ^ (1 << rng.below(n))) if r == 1 else (a + rng.choice([1, -1, W64, -W64])) % Bk if r == 2 else g_int(rng, K)
        return [a, b]
    if gen == "self2":
        x = g_int(rng, K)
        return [x, x]
    if gen == "2c":
        if rng.chance(1, 5):
            # second operand all ones (whole or one 128-bit block) with carry/borrow in: result == first operand, the
            # carry is decided by the `<=` of the ruint<7> specialisation
            c = Bk - 1 if rng.chance(1, 2) or K < 8 else g_int(rng, K) | (((1 << 128) - 1) << (128 * rng.below(n // 128)))
            return [g_int(rng, K), c, 1]
        return [g_int(rng, K), g_int(rng, K), rng.below(2)]
    if gen == "3":
        return [g_int(rng, K), g_int(rng, K), g_int(rng, K)]
    if gen == "3d2":
        b, c = g_int(rng, K), g_int(rng, K)
        if rng.chance(1, 2):
            # b*c + d = B^2 - 1 + delta: the carry out of 2^(2^(K+1)) is decided by the last unit, and which of the
            # internal carry flags (rlow, rlow2, rmid, rmid2, rhigh) produces it varies with the operands
            delta = rng.choice([-1, 0, 1, 1, 2, rng.bits(8), rng.bits(64), 1 << (1 << (K - 1)), rng.bits(1 << K)])
            return [b, c, (Bk * Bk - 1 - b * c + delta) % (Bk * Bk)]
        return [b, c, g_int(rng, K + 1)]
    if gen == "3w":
        return [g_int(rng, K), g_int(rng, K), g_word(rng)]
    if gen in ("1w", "1sw"):
        return [g_int(rng, K), g_word(rng)]
    if gen == "1w32":
        return [g_int(rng, K), g_word(rng, 32)]
    if gen in ("1w63", "1sw63"):
        return [g_int(rng, K), g_word(rng, 63)]
    if gen in ("1wsmall", "1swsmall"):
        a = g_int(rng, K) if rng.chance(1, 3) else g_word(rng)
        w = a % W64 if rng.chance(1, 3) else g_word(rng)
        if gen == "1swsmall" and rng.chance(1, 4):
            a = Bk - 1 - rng.bits(20)
        return [a, w]
    if gen in ("1si", "1ssi", "1ssi32"):
        bits = 32 if gen.endswith("32") else 64
        sw = g_si(rng, bits)
        r = rng.below(6)
        if gen == "1si":
            a = sw if (r == 0 and sw >= 0) else g_word(rng, 63) if r == 1 else g_int(rng, K)
        else:
            a = sw % Bk if r == 0 else (sw + rng.choice([1, -1])) % Bk if r == 1 else (-rng.bits(rng.range(1, 62))) % Bk if r == 2 else g_int(rng, K)
        return [a, sw]
    if gen in ("si", "si32"):
        return [g_si(rng, 32 if gen == "si32" else 64)]
    if gen == "w":
        return [g_word(rng)]
    if gen == "limb":
        return [g_int(rng, K), g_word(rng), rng.below(n // 64)]
    if gen == "1n":
        r = rng.below(4)
        return [0 if r == 0 and rng.chance(1, 4) else (1 << rng.below(n)) | rng.bits(n) >> rng.below(n) if r < 3 else g_int(rng, K)]
    if gen.startswith("sh"):
        maxv = {"sh64": 2**64 - 1, "sh64s": 2**64 - 1, "sh64x": 2**64 - 1, "sh31": 2**31 - 1, "sh32": 2**32 - 1, "sh16": 65535, "sh8": 255}[gen]
        a = g_int(rng, K)
        if gen == "sh64s" and rng.chance(1, 2):
            a |= h
        return [a, g_shift(rng, K, maxv, ext=(gen == "sh64x"))]
    if gen == "div" and K >= 7 and rng.chance(1, 4):
        # normalisation shift d, then the shape above in the second div_3_2<K-1>
        hb = 1 << (n // 2)
        d = rng.choice([0, 1, 2, 8, 31, n // 4, n // 2 - 1])
        a2, a1, a0, b1, b0 = g_two_corrections(rng, hb)
        b0 = (b0 >> d) << d
        bb = b1 * hb + b0
        b = bb >> d
        R = ((rng.below(b1) * hb + b0) >> d) % b
        qmax = (Bk - 1 - R) // b
        q = rng.choice([qmax, qmax - rng.bits(8) if qmax > 256 else qmax, rng.below(qmax + 1), rng.below(qmax + 1)])
        return [max(q, 0) * b + R, b]
    if gen == "div":
        b = g_divisor(rng, K)
        return [g_dividend_for(rng, K, b), b]
    if gen in ("divw", "divw63"):
        mb = 63 if gen == "divw63" else 64
        b = rng.choice([1, 2, 2, 3, 2**32, 2**63 - 1, (2**63) % (1 << mb) or 5, (1 << mb) - 1, g_word(rng, mb) or 1, g_word(rng, mb) or 1])
        return [g_dividend_for(rng, K, b), b]
    if gen == "div21" and K >= 7 and rng.chance(1, 3):
        hb = 1 << (n // 2)
        a2, a1, a0, b1, b0 = g_two_corrections(rng, hb)      # second div_3_2<K-1> of div_2_1<K>
        b = b1 * hb + b0
        s = (a2 * hb + a1)                                     # remainder of the first step: any value < b
        qh = rng.choice([0, 1, hb - 1, rng.bits(n // 2)])
        hi = qh * b + s                                        # (ah | al.High) = qh*b + s
        if hi // hb >= b:
            hi = s
        return [hi // hb, (hi % hb) * hb + a0, b]
    if gen == "div21" and K == 6 and rng.chance(1, 3):
        a2, a1, a0, b1, b0 = g_two_corrections(rng, 1 << 32)      # first half-limb step of __udiv_qrnnd_c
        return [a2 * (1 << 32) + a1, a0 * (1 << 32) + rng.bits(32), b1 * (1 << 32) + b0]
    if gen == "div21":
        b = g_divisor(rng, K)
        b = (b << (n - b.bit_length())) % Bk | h          # normalised
        N = g_dividend_for(rng, K, b, top=b * Bk)
        return [N // Bk, N % Bk, b]
    if gen == "div32":
        return g_div32(rng, K)
    if gen == "modn" and K >= 7 and rng.chance(1, 3):
        hb = 1 << (n // 2)
        a2, a1, a0, b1, b0 = g_two_corrections(rng, hb)
        nn = b1 * hb + b0
        R = rng.below(b1) * hb + (b0 + rng.choice([0, 0, -1, 1])) % hb
        q = rng.choice([Bk - 1, rng.bits(n), rng.bits(n), Bk - 1 - rng.bits(8)])
        return [q * nn + (R % nn), nn]
    if gen == "modn":
        nn = g_divisor(rng, K)
        return [g_dividend_for(rng, K + 1, nn), nn]
    if gen == "gcd":
        g = rng.choice([1, 1, 2, 3, W64 - 1, g_int(rng, K) >> rng.below(n)]) or 1
        a = (g * (g_int(rng, K) >> rng.below(n))) % Bk
        b = (g * (g_int(rng, K) >> rng.below(n))) % Bk
        r = rng.below(12)
        if r == 0:
            a = 0
        if r == 1:
            b = 0
        if r == 2:
            b = a
        if r == 3:   # consecutive Fibonacci numbers: the longest Euclid run
            f0, f1 = 0, 1
            while f1 + f0 < Bk:
                f0, f1 = f1, f0 + f1
            a, b = f1, f0
        return [a, b]
    if gen == "inv" and rng.chance(1, 4):
        # NOT invertible: common factor 2, 3, a limb, a half-size value; b = 0; b = c; b a multiple of c
        g = rng.choice([2, 3, W64 - 1, W64, (1 << (n // 2)) + 1, 6])
        c = (g * max(2, g_int(rng, K) >> rng.range(n // 2 + 8, n - 2))) % Bk or 4
        b = rng.choice([0, c, (g * (g_int(rng, K) % (c // g or 1))) % c, g % c, (c // g) % c])
        if math.gcd(b, c) == 1:
            b, c = 2, 4
        return [b, c]
    if gen == "inv":
        b, c = g_coprime_pair(rng, K)
        if rng.chance(1, 2):
            # modulus in the top half: "temp += a" can then carry out of 2^(2^K) (the `ret ||` of the reduction test)
            c = (Bk - 1 - 2 * rng.bits(min(n - 2, rng.choice([1, 8, 64, n - 2])))) | 1
            b = (g_int(rng, K) % c) or 1
            while math.gcd(b, c) != 1:
                b += 1
        return [b, c]
    if gen == "bez":
        c, d = g_coprime_pair(rng, K)
        if rng.chance(1, 2):
            c, d = d, c
        return [max(c, 2), max(d, 2)] if math.gcd(max(c, 2), max(d, 2)) == 1 else [3, 7]
    if gen in ("exp", "expw", "expw32"):
        nmod = g_divisor(rng, K)
        if rng.chance(1, 8):
            nmod = rng.choice([1, 2, 3, Bk - 1])
        b = g_int(rng, K)
        if rng.chance(1, 2):
            b %= nmod
        if gen == "exp":
            # the exponent is scanned limb by limb: zero limbs below non-zero ones, single high bits, short exponents
            c = rng.choice([0, 1, 2, 3, 65537, g_int(rng, K), g_int(rng, K) >> rng.below(n), Bk - 1,
                            g_limbwise(rng, K), g_limbwise(rng, K), g_limbwise(rng, K),
                            (1 << 64) % Bk, ((1 << 128) + 5) % Bk, Bk >> 1, 1 << (64 * rng.below(n // 64)),
                            (1 << (64 * rng.below(n // 64))) | (1 << rng.below(n))])
        else:
            c = g_word(rng, 32 if gen == "expw32" else 64)
        return [b, c, nmod]
    if gen == "odd":
        return [g_int(rng, K) | 1]
    if gen == "mpzu":
        r = rng.below(5)
        return [g_int(rng, K) if r < 3 else g_int(rng, K + 1) if r == 3 else Bk + rng.bits(70)]
    if gen == "mpzs":
        v = g_int(rng, K) % h if rng.chance(3, 4) else rng.choice([h - 1, h, 0, 1])
        return [-v if rng.chance(1, 2) else v]
    if gen == "sdiv":
        b = g_divisor(rng, K) % h or 1
        a = g_dividend_for(rng, K, b, top=h)
        if rng.chance(1, 2):
            a = (-a) % Bk
        if rng.chance(1, 2):
            b = (-b) % Bk
        if rng.chance(1, 12):
            a = h
        return [a, b]
    if gen == "sdivr":
        b = max(g_divisor(rng, K) % h, DIV_R_MIN[0] + 1)         # b > 1: documented precondition of div_r(rint)
        a = g_dividend_for(rng, K, b, top=h)
        if rng.chance(1, 2):
            a = (-a) % Bk
        return [a, b]
    if gen == "sdivsi":
        sw = g_si(rng) or 1
        if sw == 2 and rng.chance(1, 2):
            sw = rng.choice([2, -2])
        a = g_dividend_for(rng, K, abs(sw), top=h)
        if rng.chance(1, 2):
            a = (-a) % Bk
        return [a, sw]
    if gen in ("smodn1", "smodn"):
        nn = max(g_divisor(rng, K) % h, 1)
        KK = K + 1 if gen == "smodn" else K
        a = g_dividend_for(rng, KK, nn, top=(1 << (1 << KK)) // 2)
        if rng.chance(1, 2):
            a = (-a) % (1 << (1 << KK))
        return [a, nn]
    if gen == "sinv" and rng.chance(1, 4):
        g = rng.choice([2, 3, 6, W64 - 1])
        c = max((g * max(2, g_int(rng, K) >> rng.range(n // 2 + 8, n - 2))) % h, 2 * g)
        b = (g * rng.below(c // g)) % c
        if math.gcd(b, c) == 1:
            b, c = 2, 4
        if rng.chance(1, 2) and b:
            b = (b - c) % Bk
        return [b, c]
    if gen == "sinv":
        b, c = g_coprime_pair(rng, K)
        c = max(c % h, 2)
        b = b % c
        if math.gcd(b, c) != 1:
            b, c = 3, 7
        if rng.chance(1, 2):
            b = (b - c) % Bk      # negative representative in (-c, 0)
        return [b, c]
    raise KeyError(gen)


# ------------------------------------------------------------------------------------------------ plumbing
def spread_seed(seed):
    """vf.Rng(seed) and vf.Rng(seed + 1) produce the same SplitMix64 stream shifted by one draw, so consecutive VERIF_SEED
    values would generate almost the same cases; hash the seed first so that different seeds give unrelated streams"""
    import hashlib
    return int.from_bytes(hashlib.sha256(b"C06:%d" % seed).digest()[:8], "big")


def source_threshold():
    txt = open(os.path.join(vf.REPO, "src/kernel/recint/recdefine.h")).read()
    m = re.search(r"#define\s+__RECINT_THRESHOLD_KARA\s+(\d+)", txt)
    return int(m.group(1)) if m else None


def tok(x):
    x = x.strip().lower()
    neg = x.startswith("-")
    x = x.lstrip("-").lstrip("0") or "0"
    return ("-" + x) if neg and x != "0" else x


def fmt_arg(x):
    return hex(x) if x >= 0 else str(x)


def fmt_exp(spec, vals):
    if spec in ("conv_from_ruint", "conv_from_rint", "conv_dec") or spec.startswith("nat:cmp:"):
        return [str(v) for v in vals]
    if spec.startswith("nat:ctor:") and len(vals) == 3 and vals[2] is None:
        return fmt_exp("", vals[:2]) + ["x"]
    if spec.startswith("nat:cast:") and vals[-1] is None:
        return fmt_exp("", vals[:-1]) + ["big"]
    if spec in DEC_RESULTS:
        return [str(v) for v in vals]
    return [tok(hex(v)[2:]) if v >= 0 else "-" + tok(hex(-v)[2:]) for v in vals]


SITES = {"inv_mod": "RecInt::inv_mod", "sinv_mod": "RecInt::inv_mod",
         "conv_to_rint:conv.rint_from_integer": "RecInt::rint<K>::rint(const Givaro::Integer&)",
         "scmp_si": "RecInt::cmp(rint<K>, signed word)", "sadd_si": "RecInt::operator+=(rint<K>, signed word)",
         "ssub_si": "RecInt::operator-=(rint<K>, signed word)", "smul_si": "RecInt::operator*(rint<K>, signed word)",
         "sshr": "RecInt::operator>>(rint<K>, count)", "slsquare": "RecInt::lsquare(rint<K+1>, rint<K>)"}


def site_of(v, spec):
    if v == "conv.rint_from_integer":
        return "RecInt::rint<K>::rint(const Givaro::Integer&)"
    if v in ("nat.subf.dbl", "nat.subo.dbl", "nat.addo.dbl"):
        return "RecInt::sub(ruint<6>, double)"
    if v.startswith("nat.ctor.i") or v == "nat.ctor.ll":
        return "RecInt::ruint<K>::ruint(signed T)"
    if v.startswith("nat.saddf."):
        return "RecInt::add/sub(rint<K>, native word)"
    if v.startswith("nat.sremo."):
        return "RecInt::div_r(rint<K>, rint<K>)"
    return SITES.get(spec, "RecInt::" + v)


def klass_of(v, spec, K, a):
    """input class used to key known findings narrowly"""
    if v == "conv.rint_from_integer":
        return "Integer<0" if a[1] < 0 else "K=%d" % K
    if v in ("nat.subf.dbl", "nat.subo.dbl", "nat.addo.dbl"):
        return "K=6,double" if K == 6 else "K=%d" % K
    if v.startswith("nat.saddf."):
        return "K>=7,word<0" if K >= 7 and a[1] < 0 else "K=%d" % K
    if v == "nat.ctor.i32" or v == "nat.ctor.i64" or v == "nat.ctor.ll":
        return "most-negative" if a[1] == NTYPES[v.split(".")[2]][1] else "K=%d" % K
    if v.startswith("shl.u8") or v.startswith("shr.u8"):
        return "K>=8,count>=2" if K >= 8 and a[1] >= 2 else "K=%d" % K
    if spec == "scmp_si":
        return "both-negative" if sval(a[0], K) < 0 and a[1] < 0 else "K=%d" % K
    if spec in ("sadd_si", "ssub_si", "smul_si"):
        return "K>=7,word<0" if K >= 7 and a[1] < 0 else "K=%d" % K
    if spec == "sshr":
        return "a<0,count>=1" if sval(a[0], K) < 0 and a[1] >= 1 else "K=%d" % K
    if spec == "slsquare":
        return "a<0" if sval(a[0], K) < 0 else "K=%d" % K
    if spec == "exp_mod":
        return "n=1,c=0" if a[2] == 1 and a[1] == 0 else "K=%d" % K
    if spec == "inv_mod":
        return "gcd!=1" if a[1] and math.gcd(a[0], a[1]) != 1 else "K=%d" % K
    if spec == "sinv_mod":
        return "gcd!=1" if math.gcd(sval(a[0], K), sval(a[1], K)) != 1 else "K=%d" % K
    return "K=%d" % K


def case_count(v, info, K, tier):
    q = tier == "quick"
    fl = info["flags"]
    base = 10 if q else 1200
    if K >= 10:
        base = 4 if q else 200
    if "vheavy" in fl:        # exp_mod with a full-size exponent: 2^K modular squarings in the model
        base = {6: 6, 7: 4, 8: 2}.get(K, 0) if q else {6: 60, 7: 40, 8: 20, 9: 2}.get(K, 0)
    elif "heavy" in fl:
        base = {6: 8, 7: 8, 8: 6, 9: 4, 10: 2, 11: 2}[K] if q else {6: 600, 7: 600, 8: 300, 9: 120, 10: 30, 11: 12}[K]
    elif info["gen"] in ("div21", "div32"):
        base = (48 if K <= 8 else 16 if K == 9 else 6) if q else (6000 if K <= 9 else 400)
    elif info["gen"] in ("div", "modn", "sdiv", "sdivr", "divw", "divw63"):
        base = (16 if K <= 9 else 6) if q else (2500 if K <= 9 else 300)
    return base


# ------------------------------------------------------------------------------------------------ branch accounting
# Mirrors of the case splits of the code (and of the proofs), used ONLY to record in the evidence which branches the
# generated cases reached; they never decide a verdict.
def _udiv_half_corr(r, npart, d):
    HBv = 1 << 32
    d1, d0 = d >> 32, d & (HBv - 1)
    q = r // d1
    r1 = (r - q * d1) * HBv + npart
    m = q * d0
    if r1 >= m:
        return 0, (r1 - m)
    r1 += d
    if r1 >= W64:
        return 1, (r1 - m)            # the addition wrapped: one correction, "carry" exit
    if r1 >= m:
        return 1, (r1 - m)
    return 2, (r1 + d - m)


def udiv_branches(n1, n0, d):
    c1, r1 = _udiv_half_corr(n1, n0 >> 32, d)
    c0, _ = _udiv_half_corr(r1 % W64, n0 & 0xFFFFFFFF, d)
    return ["udiv.high-half:%d-corrections" % c1, "udiv.low-half:%d-corrections" % c0]


def div32_branches(beta, a2, a1, a0, b1, b0, limb):
    out = []
    fn = "div_3_2<6>" if limb else "div_3_2<K>"          # two different function bodies (rudiv.h limb specialisation / generic)
    if a2 < b1:
        out.append("div_3_2:estimate-by-2-by-1")
        if limb:
            out += udiv_branches(a2, a1, b1)
    else:
        out.append("div_3_2:q=B-1" + ("+carry" if a1 + b1 >= beta else ""))
    nc = d32_corrections(beta, a2, a1, a0, b1, b0)
    out.append("div_3_2:%d-corrections" % nc)
    out.append("%s:%d-corrections" % (fn, nc))
    return out


def shift_branch(K, d, ext=False):
    if K == 6 and not ext:
        return "limb:d=0" if d == 0 else "limb:d<64" if d < 64 else "limb:d>=64"
    nb = (1 << K) if ext else (1 << (K - 1))
    if d == 0:
        return "d=0"
    if d == 1 and not ext:
        return "d=1"
    if d > 2 * nb:
        return "d>size"
    return "defect>0" if d < nb else "defect<0" if d > nb else "defect=0"


def kara_flags(K, b, c):
    h = 1 << (K - 1)
    Bh = 1 << h
    bl, bh, cl, ch = b % Bh, b >> h, c % Bh, c >> h
    rb, rc = (bh + bl) >= Bh, (ch + cl) >= Bh
    mid = bh * cl + bl * ch
    r = mid >> (2 * h)
    al = bl * cl
    rt5 = ((al >> h) + (mid % Bh)) >= Bh
    return ["kara:rb=%d,rc=%d" % (rb, rc), "kara:r=%d" % r, "kara:rt5=%d" % rt5]


def euclid_steps(a, b):
    n = 0
    while b:
        a, b = b, a % b
        n += 1
    return n


def branches_of(v, spec, K, a):
    n = 1 << K
    Bk = 1 << n
    out = []
    if spec in ("add", "add_wc", "add_w", "add_1"):
        s_ = a[0] + (a[1] if len(a) > 1 else 1) + (1 if spec == "add_wc" and a[2] else 0)
        out.append("carry-out=%d" % (s_ >= Bk))
        if spec == "add_wc" and a[2] and K >= 7 and any(((a[1] >> (128 * j)) & ((1 << 128) - 1)) == (1 << 128) - 1 for j in range(n // 128)):
            out.append("add_wc<7>:carry-in and an all-ones 128-bit block (a == b test)")
        if spec in ("add_1", "add_w") and a[0] % Bk >= Bk - (1 << 64):
            out.append("carry chain through every limb")
    elif spec in ("sub", "sub_wc", "sub_w", "sub_1"):
        s_ = a[0] - (a[1] if len(a) > 1 else 1) - (1 if spec == "sub_wc" and a[2] else 0)
        out.append("borrow-out=%d" % (s_ < 0))
        if spec in ("sub_1", "sub_w") and a[0] < (1 << 64) and s_ < 0:
            out.append("borrow chain through every limb")
    elif spec in ("shl", "shr", "sshr"):
        out.append(shift_branch(K, a[1]))
    elif spec == "shl_ext":
        out.append(shift_branch(K, a[1], ext=True))
    elif spec == "lmul" and K >= 7 and (v.startswith("lmul_kara") or (v.startswith("lmul.") and K >= 10)):
        out += kara_flags(K, a[0], a[1])
    elif spec in ("mul", "square") and K >= 11:
        h = 1 << (K - 1)
        out += kara_flags(K - 1, a[0] % (1 << h), a[-1] % (1 << h))
        if v in ("mul.ab", "mul.op*=", "mul.alias", "mul.alias2", "mul.self"):
            out.append("in-place product through lmul_kara")
    elif spec == "div32":
        out += div32_branches(Bk, *a, limb=(K == 6))
    elif spec == "div21":
        if K == 6:
            out += udiv_branches(a[0], a[1], a[2])
        else:
            hb = 1 << (n // 2)
            b1, b0 = a[2] // hb, a[2] % hb
            hi = a[0] * hb + a[1] // hb
            out += div32_branches(hb, hi // (hb * hb), (hi // hb) % hb, hi % hb, b1, b0, limb=(K == 7))
            s_ = hi % a[2]
            out += ["second:" + x for x in div32_branches(hb, s_ // hb, s_ % hb, a[1] % hb, b1, b0, limb=(K == 7))]
    elif spec in ("div", "divr", "sdiv_q", "sdiv_r", "mod_n") and len(a) > 1 and a[1]:
        bb = a[1] if spec not in ("sdiv_q", "sdiv_r") else abs(sval(a[1], K))
        if bb:
            d = n - bb.bit_length()
            out.append("normalisation shift " + ("0" if d == 0 else "1..63" if d < 64 else ">=64 (zero top limbs)"))
        if spec in ("sdiv_q", "sdiv_r"):
            out.append("signs a%s b%s" % ("<0" if sval(a[0], K) < 0 else ">=0", "<0" if sval(a[1], K) < 0 else ">0"))
    elif spec == "exp_mod":
        if v == "exp_mod.abcn":
            out.append("exponent " + ("with a zero limb below a non-zero limb" if has_interior_zero_limb(a[1]) else
                                      "of one limb" if a[1] < W64 else "with all limbs non-zero up to the top"))
        if a[2] == 1:
            out.append("modulus 1")
        if a[1] == 0:
            out.append("exponent 0")
    elif spec == "gcd":
        st = euclid_steps(a[0], a[1])
        out.append("euclid steps " + ("0" if st == 0 else "1-2" if st <= 2 else "<=2^K" if st <= n else ">2^K"))
    elif spec in ("inv_mod", "bezout_mod", "sinv_mod"):
        out.append("modulus " + (">= B/2 (carry out of the reduction sum possible)" if a[1] >= Bk // 2 else "< B/2"))
    elif spec == "arazi_qi":
        out.append("low limb " + ("= 1" if a[0] % W64 == 1 else "> 1"))
    elif spec in ("lsquare", "slsquare") and K >= 7:
        h = 1 << (K - 1)
        x = a[0] if spec == "lsquare" else abs(sval(a[0], K))
        m = (x >> h) * (x % (1 << h))
        out.append("lsquare:rbb=%d" % (m >> (2 * h - 1)))
    elif spec in ("scmp", "slmul", "sext", "rint_to_mpz", "smod_n", "smod_n1"):
        out.append("a" + ("<0" if sval(a[0], K + (1 if spec in ("smod_n",) else 0)) < 0 else ">=0"))
    elif spec == "norm":
        z = (n - a[0].bit_length()) // 64
        out.append("zero top limbs: " + ("0" if z == 0 else "some" if a[0] else "all"))
    elif spec in ("mpz_to_ruint", "mpz_to_rint"):
        out.append("input " + ("negative" if a[0] < 0 else "wider than 2^K bits" if a[0] >= Bk else "fits"))
    if any(has_interior_zero_limb(x) for x in a if x > 0):
        out.append("some operand has a zero limb below a non-zero limb")
    return out


# branches that every run is expected to reach (reported in the evidence when a run misses one)
EXPECTED_BRANCHES = [
    ("div32", "div_3_2:2-corrections"), ("div32", "div_3_2:1-corrections"), ("div32", "div_3_2:0-corrections"),
    ("div32", "div_3_2<6>:2-corrections"), ("div32", "div_3_2<K>:2-corrections"), ("div32", "div_3_2<6>:1-corrections"),
    ("div32", "div_3_2<K>:1-corrections"), ("div32", "div_3_2:q=B-1"), ("div32", "div_3_2:q=B-1+carry"), ("div32", "udiv.high-half:1-corrections"),
    ("div32", "udiv.low-half:1-corrections"), ("div21", "second:div_3_2:2-corrections"), ("div21", "udiv.high-half:2-corrections"), ("div32", "udiv.high-half:2-corrections"),
    ("exp_mod", "exponent with a zero limb below a non-zero limb"), ("exp_mod", "modulus 1"),
    ("shl", "defect>0"), ("shl", "defect<0"), ("shl", "defect=0"), ("shl", "d>size"), ("shl", "d=1"), ("shl", "limb:d>=64"),
    ("shr", "defect>0"), ("shr", "defect<0"), ("shr", "defect=0"), ("shr", "d>size"), ("shl_ext", "defect=0"),
    ("lmul", "kara:rb=1,rc=1"), ("lmul", "kara:rb=0,rc=1"), ("lmul", "kara:r=1"), ("lmul", "kara:rt5=1"),
    ("mul", "in-place product through lmul_kara"),
    ("add_wc", "add_wc<7>:carry-in and an all-ones 128-bit block (a == b test)"),
    ("add_1", "carry chain through every limb"), ("sub_1", "borrow chain through every limb"),
    ("gcd", "euclid steps >2^K"), ("inv_mod", "modulus >= B/2 (carry out of the reduction sum possible)"),
    ("sdiv_q", "signs a<0 b<0"), ("sshr", "defect>0"), ("arazi_qi", "low limb = 1"), ("lsquare", "lsquare:rbb=1"),
]


def extra_count(v, info, K, tier):
    """additional cases compared with the specification oracle only (the model run would dominate the time): the
    implementation is exercised at every K on many more operands than the model can follow"""
    fl = info["flags"]
    q = tier == "quick"
    if "vheavy" in fl:
        return (12 if K <= 9 else 8) if q else (400 if K <= 9 else 100)
    if "heavy" in fl:
        return (10 if K <= 9 else 6) if q else (300 if K <= 9 else 80)
    return 0


# ------------------------------------------------------------------------------------------------ directed cases
# Deterministic case classes (the same for every seed): limb patterns x native types x native values.
def limb_patterns(K):
    """(label, value): all-ones runs of EVERY length starting at limb 0 (alone / with a small limb above / with a zero limb and
    then ones above), a single set limb at every position (1, 2^63, 2^64-1), the two alternating patterns, boundary values"""
    n = 1 << (K - 6)
    M = W64 - 1
    Bk = 1 << (1 << K)
    core, rest = [], []
    for j in range(1, n + 1):
        run = (1 << (64 * j)) - 1
        (core if j in (1, 2, 3, n // 2, n - 1, n) else rest).append(("ones[0..%d)" % j, run))
        if j < n:
            (core if j in (1, 3) else rest).append(("ones[0..%d)+5" % j, run | (5 << (64 * j))))
            if j + 1 < n:
                rest.append(("ones[0..%d)+gap+ones" % j, run | ((Bk - 1) >> (64 * (j + 1)) << (64 * (j + 1)))))
    for i in range(n):
        for vv in (1, 1 << 63, M):
            (core if (i in (0, n - 1) and vv != M) or (i == 1 and vv == 1) else rest).append(("limb%d=%x" % (i, vv), vv << (64 * i)))
    alt0 = sum(M << (64 * i) for i in range(0, n, 2))
    alt1 = sum(M << (64 * i) for i in range(1, n, 2))
    core += [("alt-even", alt0), ("alt-odd", alt1), ("zero", 0), ("max", Bk - 1)]
    rest += [("one", 1), ("max-1", Bk - 2), ("half", Bk // 2), ("half-1", Bk // 2 - 1)]
    seen, c2, r2 = set(), [], []
    for lst, out in ((core, c2), (rest, r2)):
        for lab, vv in lst:
            if vv not in seen:
                seen.add(vv); out.append((lab, vv))
    return c2, r2


def native_values(ty, op):
    part, lo, hi, sg, bits = NTYPES[ty]
    if ty == "bool":
        return [1] if op in ("divf", "divo", "modo", "sdivo") else [1, 0]
    vals = [1, hi, 2, hi - 1, (hi + 1) // 2, 3, 10, 0]
    if sg:
        neg = [-1, lo + 1, -2, -3, -(hi // 2), -10]
        if op == "ctor" and ty != "dbl":
            neg.append(lo)                               # the most negative value of the type
        if op in ("addo", "subo", "mulo", "divo", "sdivo", "cmp", "ctor", "saddf"):
            vals = [vals[0], neg[0], vals[1], neg[1]] + vals[2:] + neg[2:]
    if op in ("divf", "modo"):
        vals = [x for x in vals if x > 0]
    if op in ("divo", "sdivo"):
        vals = [x for x in vals if x != 0]
    if op == "sremo":
        vals = [x for x in vals if x > DIV_R_MIN[0]]     # documented domain of div_r(rint): b > 1 (negative / 0 / 1 divisors are not generated)
    return vals


def shift_counts(K, ty):
    part, lo, hi, sg, bits = NTYPES[ty]
    nb = 1 << K
    pts = [0, 1, 2, 31, 32, 63, 64, 65, 127, 128, 129, nb // 2 - 1, nb // 2, nb // 2 + 1, nb - 1, nb, nb + 1, 2 * nb - 1, 2 * nb, 2 * nb + 1, hi, hi - 1]
    out = []
    for c in pts:
        if 0 <= c <= hi and c not in out:
            out.append(c)
    return out


def directed_cases(rng, tier):
    """cases of the native-operand and conversion forms.  Everything except the few marked random draws is the same for every seed."""
    out = []            # (variant, K, args, run_model)
    q = tier == "quick"
    types = sorted(NTYPES)
    for K in KS:
        n = 1 << K
        Bk = 1 << n
        core, rest = limb_patterns(K)
        for oi, op in enumerate(sorted(NOPS)):
            tys = [t for t in types if "nat.%s.%s" % (op, t) in VARIANTS]
            heavy = op in ("divf", "divo", "modo", "sdivo", "sremo")
            if op == "ctor":
                for t in tys:
                    for c in native_values(t, op):
                        if t == "dbl" and c < 0 and K == 6:
                            continue                      # ruint<6>(double) is static_cast<limb>(b): undefined for b < 0
                        out.append(("nat.ctor." + t, K, [0, c, 0 if (t == "dbl" and c < 0) else 1], True))
                continue
            if op in ("shl", "shr"):
                xs = [Bk - 1, sum((W64 - 1) << (64 * i) for i in range(0, n // 64, 2)) | (Bk >> 1) | 1]
                for t in tys:
                    for ci, c in enumerate(shift_counts(K, t)):
                        out.append(("nat.%s.%s" % (op, t), K, [xs[ci % 2], c], True))
                        if ci % 4 == 0:
                            out.append(("nat.%s.%s" % (op, t), K, [xs[(ci + 1) % 2], c], True))
                continue
            if op == "expw":
                if K > 10:
                    continue
                mods = [Bk - 1, (Bk >> 1) + 1, 1, (1 << (n // 2)) + 1]
                for ti, t in enumerate(tys):
                    hi = NTYPES[t][2]
                    for ci, c in enumerate([0, 1, 2, hi, (hi + 1) // 2, (hi + 1) // 3, 65537 % (hi + 1)]):
                        out.append(("nat.expw." + t, K, [(3 + ci) if ci % 2 else core[(ci + ti) % len(core)][1], c, mods[(ci + ti) % len(mods)]], K <= 8))
                continue
            for ti, t in enumerate(tys):
                vals = native_values(t, op)
                if t == "dbl" and (op == "bit" or (K == 6 and op == "cmp")):
                    vals = [x for x in vals if x >= 0]   # limb(negative double) / ruint<6>(negative double) are undefined conversions
                pats = list(core)
                # the remaining patterns are dealt round-robin over the types: every pattern meets every operation at every K
                pats += [pt for pi, pt in enumerate(rest) if (pi + oi) % len(tys) == ti]
                for pi, (lab, x) in enumerate(pats):
                    c = vals[(pi + ti) % len(vals)]
                    run_model = not (heavy and K >= 10 and pi % 4)
                    out.append(("nat.%s.%s" % (op, t), K, [x, c], run_model))
                    if pi < 4 and len(vals) > 1:        # the first patterns also with the next value (carry / borrow with 1 and with max)
                        out.append(("nat.%s.%s" % (op, t), K, [x, vals[(pi + ti + 1) % len(vals)]], run_model))
                if op == "cmp":
                    for c in vals:                      # operands equal / adjacent to the native value, with and without high limbs
                        for x in (c, c + 1, c - 1, c + W64, c % Bk, (c - 1) % Bk, (c + 1) % Bk, Bk // 2 + abs(c)):
                            if 0 <= x < Bk:
                                out.append(("nat.cmp." + t, K, [x, c], True))
        for lab, x in core + rest:
            out.append(("nat.cast", K, [x], True))
        for x in [0x80, 0xff7f, 0x8000, 0xffff7fff, 0x80000000, 0x7fffffffffffffff, 1 << 63, (1 << 64) + 0x80,
                  -1, -5, -(1 << 24) + 1, -(1 << 24) - 1, -(1 << 53) + 1, -(1 << 53), -(1 << 63), -(1 << 64) - 3, (1 << 53) - 1]:
            out.append(("nat.cast", K, [x % Bk], True))
        out.append(("nat.consts", K, [0], True))
        # ---- conversions on a used destination: prev = garbage / all ones / the previous LARGER value; sources 0, small, one limb
        # short of full, full, and (to_ruint) wider than the destination
        M = W64 - 1
        prevs = [Bk - 1, int("a5" * (n // 8), 16), Bk >> 1, sum(M << (64 * i) for i in range(1, n // 64, 2)) | 1, 0]
        srcs = [0, 5, M, W64, (1 << (n - 64)) - 1 if n > 64 else 1, Bk >> 1, Bk - 1, (1 << (n // 2)) + 1]
        for pi, pv in enumerate(prevs):
            for si, sv in enumerate(srcs):
                if q and K >= 10 and (pi + si) % 2:
                    continue
                out.append(("conv.to_ruint", K, [pv, sv], True))
                ssv = sval(sv, K)
                out.append(("conv.to_rint", K, [pv, ssv], True))
                out.append(("conv.to_rint", K, [pv, -ssv if ssv > -(Bk >> 1) else ssv], True))
                out.append(("conv.copies", K, [pv, sv % Bk], False))
                out.append(("conv.rint_from_integer", K, [pv, ssv], False))
                out.append(("conv.rint_from_integer", K, [pv, -ssv if ssv > -(Bk >> 1) else ssv], False))
            out.append(("conv.to_ruint", K, [pv, Bk + 5 + pi], True))
            out.append(("conv.to_ruint", K, [pv, (Bk << 70) + (Bk >> 3)], True))
        prevm = [0, 5, -5, Bk * Bk + 12345, -(Bk * Bk) - 7, W64]
        for pi, pm in enumerate(prevm):
            for si, sv in enumerate(srcs):
                if q and K >= 10 and (pi + si) % 2:
                    continue
                out.append(("conv.from_ruint", K, [pm, sv % Bk], True))
                out.append(("conv.from_rint", K, [pm, sv % Bk], True))
                out.append(("conv.from_rint", K, [pm, (-sv) % Bk], True))
        # decimal output: 0, one digit, powers of ten around the limb size, the longest output (all ones), values whose division
        # by 10 leaves zero limbs; the model's digit loop is compared for K >= 7 (operator<< of ruint<6> prints the limb directly)
        for sv in [0, 7, 10, 10**19, 10**20 - 1, Bk - 1, Bk >> 1, (Bk >> 1) - 1, 10 ** (len(str(Bk)) - 1), W64, (1 << (n // 2)) * 10]:
            out.append(("conv.dec", K, [0, sv % Bk], K >= 7 and (K <= 9 or sv < W64 * W64)))
        if K <= 10:
            for sv in srcs + [Bk - 2, (Bk >> 1) + 1]:
                out.append(("conv.widen", K, [0, sv % Bk], True))
        for i in range(4 if q else 200):                # random draws on top
            pv, sv = g_int(rng, K), g_int(rng, K) >> rng.below(n)
            out.append(("conv.to_ruint", K, [pv, sv], True))
            out.append(("conv.to_rint", K, [pv, sval(sv, K)], True))
            out.append(("conv.from_ruint", K, [sval(pv, K), sv], True))
            out.append(("conv.from_rint", K, [sval(pv, K), g_int(rng, K)], True))
    return out


def model_args(v, K, a):
    """argument list of the model line for a case (native forms carry the signedness / width of the native type)"""
    if v.startswith("nat.") and v.count(".") == 2:
        _, op, ty = v.split(".")
        part, lo, hi, sg, bits = NTYPES[ty]
        if op in ("cmp", "ctor", "divo"):
            return [1 if sg else 0] + list(a[:2])
        if op == "expw":
            return [bits] + list(a)
        if op == "sremo":
            return [a[0], a[1] % (1 << (1 << K))]
        return list(a[:2])
    if v == "nat.consts":
        return [SRC_CONST.get("thirtyonepointfive", 0)]
    if v == "conv.widen" or v == "conv.dec":
        return [a[1]]
    if v in ("inv_mod.abc", "s.inv_mod", "exp_mod.abcn", "norm.d"):
        return a
    return a


NO_MODEL = set()        # indices of the cases of the current run that are not given to the model


def build_cases(rng, tier):
    cases = []
    NO_MODEL.clear()
    for v, info in sorted(VARIANTS.items()):
        if info["gen"] is None:
            continue              # generated by directed_cases
        for K in KS:
            fl = info["flags"]
            if "w" in fl and K == 11:
                continue      # needs ruint<12>; covered up to K = 10
            if "k7" in fl and K < 7:
                continue
            if "naive-only" in fl and K >= (source_threshold() or 10):
                continue
            for i in range(case_count(v, info, K, tier)):
                a = gen_args(rng, K, info["gen"], info["spec"])
                if info["spec"] == "add_1" and i < 3:
                    a = [(1 << (1 << K)) - 1 - i]
                if info["spec"] == "sub_1" and i < 3:
                    a = [i]
                if info["spec"] == "inv_mod" and i < 3:       # non-invertible operands on every run: documented result 0
                    a = [[2, 4], [6, 9], [0, 7]][i]
                if info["spec"] == "sinv_mod" and i < 2:
                    a = [[2, 4], [(-6) % (1 << (1 << K)), 9]][i]
                cases.append((v, K, a))
            for i in range(extra_count(v, info, K, tier)):
                NO_MODEL.add(len(cases))
                cases.append((v, K, gen_args(rng, K, info["gen"], info["spec"])))
    for v, K, a, run_model in directed_cases(rng, tier):
        if not run_model:
            NO_MODEL.add(len(cases))
        cases.append((v, K, a))
    return cases


def run_proc(binary, text, wall, cpu=None, env=None, abort=None):
    """one run of a line-protocol binary: (rc, stdout lines, stderr, wall_timed_out).  communicate(timeout=..) bounds the wall
    time; cpu (seconds) is an RLIMIT_CPU on the child (CPU time does not depend on the machine load)."""
    import resource, subprocess

    def pre():
        resource.setrlimit(resource.RLIMIT_CPU, (int(cpu), int(cpu) + 10))
    e = dict(os.environ)
    if env:
        e.update(env)
    p = subprocess.Popen([binary], stdin=subprocess.PIPE, stdout=subprocess.PIPE, stderr=subprocess.PIPE, universal_newlines=True,
                         errors="replace", env=e, preexec_fn=pre if cpu else None)
    # one blocking communicate(timeout=wall): no retry loop.  A stream that must stop early (run-wide hang cap) is killed by the
    # thread that reaches the cap (HANG.kill_streams); the kill shows here as a negative return code with HANG.stopped set.
    if abort:
        with HANG.lock:
            HANG.procs.add(p)
    try:
        out, err = p.communicate(text, timeout=wall)
    except subprocess.TimeoutExpired:
        p.kill()
        out, err = p.communicate()
        return 124, (out or "").splitlines(), (err or "") + "[wall time-out after %ss]" % wall, True
    finally:
        if abort:
            with HANG.lock:
                HANG.procs.discard(p)
    if abort and p.returncode in (-9, -15) and abort():
        ls = (out or "").splitlines()
        if ls and not (out or "").endswith("\n"):
            ls = ls[:-1]                            # a line cut by the kill is not an output
        return -1000, ls, (err or "") + "[stopped: run-wide hang cap]", False
    return p.returncode, out.splitlines(), err, False


NO_RETURN = "DOES-NOT-RETURN"
WD = ("c06_watchdog.h",)       # header shared by the three harness sources (part of their build hash)


import threading

FIRST_BUDGET = 6        # CPU seconds per call in the streams (the operations take microseconds to milliseconds)
CONFIRM_BUDGET = 20     # CPU seconds for the confirmation re-run of one case alone
MAX_CONFIRM = 3         # confirmations per run
MAX_OVERRUN = 6         # first-stage overruns per run; then the streams stop
MAX_CRASH = 4           # crashes of one call form; then the form is not driven any more


class HangState:
    """shared by every stream / chunk of a run (they are threads of this process): one cap for all of them"""
    def __init__(self):
        self.lock = threading.Lock()
        self.overruns = 0
        self.confirmations = 0
        self.confirmed = {}          # call form -> the input line confirmed not to return
        self.confirmed_lines = set()
        self.crashes = {}            # call form -> count
        self.banned = set()          # call forms not driven any more in this run
        self.stopped = False
        self.procs = set()           # running stream processes (killed when the run-wide cap is reached)
        self.log = []

    def kill_streams(self):
        """called with the lock held, when the cap is reached: every running stream process stops now"""
        for q in list(self.procs):
            try:
                q.kill()
            except OSError:
                pass


HANG = HangState()
SKIPPED = "NOT-RUN-AFTER-HANG"


def form_of(line):
    return line.split(" ", 1)[0]


def run_chunk(binary, lines, wall, restart=True, cpu=None):
    """run `lines` through the binary.  The C++ harness ends with status 3 after printing DOES-NOT-RETURN when a case exceeds its
    CPU budget (FIRST_BUDGET), and dies on a crash: the case is marked and the binary is restarted on the remaining lines.
    Bounded cost: an overrun is confirmed at once by running that case alone with CONFIRM_BUDGET (at most MAX_CONFIRM times per
    run); a confirmed call form is not driven any more by ANY chunk of the run; after MAX_OVERRUN overruns in the whole run the
    streams stop.  Returns (outputs, status in ok / wall-timeout / cpu-limit / failed / hang-cap, log)."""
    res = [None] * len(lines)
    todo = list(range(len(lines)))
    log, status, restarts = "", "ok", 0
    while todo:
        if restart:
            with HANG.lock:
                stop = HANG.stopped
                banned = set(HANG.banned)
            keep = []
            for ix in todo:
                if stop or form_of(lines[ix]) in banned:
                    res[ix] = SKIPPED
                else:
                    keep.append(ix)
            if len(keep) != len(todo):
                status = "hang-cap"
            todo = keep
            if not todo:
                break
        rc, o, err, timed_out = run_proc(binary, "".join(lines[ix] for ix in todo), wall, cpu=cpu,
                                         env={"C06_CPU_BUDGET": str(FIRST_BUDGET)} if restart else None,
                                         abort=(lambda: HANG.stopped) if restart else None)
        o = [l for l in o if not l.startswith("#")]
        for ix, l in zip(todo, o):
            res[ix] = l
        if rc == -1000:
            for ix in todo[len(o):]:
                res[ix] = SKIPPED
            status = "hang-cap"
            break
        if timed_out:
            status = "wall-timeout"
            log += err[-500:]
            break
        if rc == 0 and len(o) == len(todo):
            break
        if cpu and rc in (-24, -9, 137, 152):          # SIGXCPU / SIGKILL from RLIMIT_CPU
            status = "cpu-limit"
            log += "stream stopped by its CPU limit of %ss\n" % cpu
            break
        if not restart or restarts > 60 or len(o) > len(todo):
            status = "failed"
            log += "rc=%s, %d/%d lines\n%s\n" % (rc, len(o), len(todo), err[-1500:])
            break
        restarts += 1
        if rc == 3 and o and o[-1] == NO_RETURN:
            ix = todo[len(o) - 1]                      # the last line belongs to the case that did not return
            form = form_of(lines[ix])
            with HANG.lock:
                HANG.overruns += 1
                if HANG.overruns >= MAX_OVERRUN and not HANG.stopped:
                    HANG.stopped = True
                    HANG.kill_streams()
                do_confirm = form not in HANG.banned and HANG.confirmations < MAX_CONFIRM
                if do_confirm:
                    HANG.confirmations += 1
                    HANG.banned.add(form)             # not driven while (and, if confirmed, after) the confirmation runs
            if do_confirm:
                rc1, o1, e1, to1 = run_proc(binary, lines[ix], 600, env={"C06_CPU_BUDGET": str(CONFIRM_BUDGET)})
                o1 = [l for l in o1 if not l.startswith("#")]
                with HANG.lock:
                    if not to1 and rc1 == 0 and o1 and o1[-1] != NO_RETURN:
                        res[ix] = o1[-1]              # slow, but it returns: not a hang
                        HANG.banned.discard(form)
                        HANG.log.append("slow case (over %d s CPU, returned within %d s): %s" % (FIRST_BUDGET, CONFIRM_BUDGET, lines[ix][:120].strip()))
                    elif to1:
                        res[ix] = "MISSING"
                        HANG.banned.discard(form)
                        HANG.log.append("confirmation of %s timed out on the wall clock: unclassified" % form)
                    else:
                        HANG.confirmed[form] = lines[ix]
                        HANG.confirmed_lines.add(lines[ix])
                        HANG.log.append("confirmed: %s does not return within %d s CPU alone; the form is not driven any more" % (form, CONFIRM_BUDGET))
            todo = todo[len(o):]
        else:
            ix = todo[len(o)]                          # the first case without an output line is the one that crashed
            form = form_of(lines[ix])
            res[ix] = "CRASHED(rc=%s)" % rc
            log += "case crashed the harness (rc=%s): %s\n" % (rc, lines[ix][:300].strip())
            with HANG.lock:
                HANG.crashes[form] = HANG.crashes.get(form, 0) + 1
                if HANG.crashes[form] >= MAX_CRASH:
                    HANG.banned.add(form)
                    HANG.log.append("%d crashes of %s: the form is not driven any more" % (MAX_CRASH, form))
            todo = todo[len(o) + 1:]
    out = [r if r is not None else "MISSING" for r in res]
    return out, status, log


def run_split(binary, lines, nproc, timeout, restart=True, cpu=None):
    """run a line-protocol binary on `lines`, split in nproc interleaved chunks (order restored).
    Returns (status, outputs, log): status is ok, or the worst of wall-timeout / cpu-limit / failed over the chunks."""
    if not lines:
        return "ok", [], ""
    nproc = max(1, min(nproc, len(lines)))
    chunks = [lines[i::nproc] for i in range(nproc)]
    with ThreadPoolExecutor(nproc) as ex:
        res = list(ex.map(lambda c: run_chunk(binary, c, timeout, restart=restart, cpu=cpu), chunks))
    out = [None] * len(lines)
    log = ""
    status = "ok"
    for i, (o, st, lg) in enumerate(res):
        if st != "ok":
            status = st if status == "ok" or st == "failed" else status
            log += "chunk %d: %s %s\n" % (i, st, lg)
        elif lg:
            log += lg
        out[i::nproc] = o
    return status, out, log


_orig_load_known = vf.load_known


def _load_known():
    """known_findings.json plus the `known` entries of frag/C06.findings.json that the coordinator has not merged yet
    (an entry that known_findings.json lists as `fixed` is never re-added: fixed entries suppress nothing)"""
    base = _orig_load_known()
    try:
        mine = json.load(open(os.path.join(vf.ROOT, "frag", "C06.findings.json")))
    except (OSError, ValueError):
        mine = []
    have = {(k.get("property"), k.get("site"), k.get("klass")) for k in base}
    return base + [k for k in mine if k.get("status") == "known" and (k.get("property"), k.get("site"), k.get("klass")) not in have]


vf.load_known = _load_known


def read_define(name, text):
    m = re.search(r"#define\s+%s\s+(.*)" % re.escape(name), text)
    return m.group(1).split("//")[0].strip() if m else None


def c_int(txt):
    """integer value of a C literal / limb(0x..) expression of recdefine.h"""
    if txt is None:
        return None
    m = re.search(r"(0x[0-9a-fA-F]+|\d+)", txt)
    return int(m.group(1), 0) if m else None


def source_constants(chk, native_bin, drv):
    """Constants the theorems depend on are taken from /repo on EVERY run, twice: from the text of recdefine.h and from what the
    compiled implementation prints (harness '#' lines); both must agree with each other and with the model's own size
    recursion (nlimbs / nbits) and with the hypotheses of the theorems that mention them."""
    txt = open(os.path.join(vf.REPO, "src/kernel/recint/recdefine.h")).read()
    rc, out, err = vf.run_lines(native_bin, "", timeout=600)
    printed = {}
    sizes = {}
    for l in out:
        t = l.split()
        if l.startswith("#size"):
            sizes[int(t[1])] = tuple(int(x) for x in t[2:])
        elif l.startswith("#"):
            t[0] = t[0][1:]
            for i in range(0, len(t) - 1, 2):
                printed[t[i]] = t[i + 1]
    src = {"thr": c_int(read_define("__RECINT_THRESHOLD_KARA", txt)), "limb_bits": c_int(read_define("__RECINT_LIMB_BITS", txt)),
           "limb_size": c_int(read_define("__RECINT_LIMB_SIZE", txt)), "minusone": c_int(read_define("__RECINT_MINUSONE", txt)),
           "maxpowtwo": c_int(read_define("__RECINT_MAXPOWTWO", txt)),
           "thirtyonepointfive": c_int(read_define("__RECINT_THIRTYONEPOINTFIVE", txt))}
    comp = {}
    try:
        comp = {"thr": int(printed["thr"]), "limb_bits": int(printed["limb_bits"]), "limb_size": int(printed["limb_size"]),
                "minusone": int(printed["minusone"], 16), "maxpowtwo": int(printed["maxpowtwo"], 16),
                "thirtyonepointfive": int(printed["thirtyonepointfive"]), "sizeof_limb": int(printed["sizeof_limb"]),
                "fast128": int(printed["fast128"])}
    except (KeyError, ValueError):
        chk.broke("the compiled harness did not print the RecInt constants", "\n".join(out[:20]) + err[-500:])
        return
    SRC_CONST.update(comp)
    chk.cov["constants_from_source_text"] = src
    chk.cov["constants_from_compiled_implementation"] = dict(comp, sizes={str(k): list(v) for k, v in sizes.items()})
    for k in src:
        if src[k] is not None and src[k] != comp.get(k):
            chk.broke("constant %s: recdefine.h text says %s, the compiled implementation uses %s (the model is fed the compiled value; "
                      "a second definition or a build flag overrides the header)" % (k, src[k], comp.get(k)))
    # what the model and the theorems assume of these constants
    want = {"limb_bits": 64, "limb_size": 6, "minusone": 2**64 - 1, "maxpowtwo": 2**63, "sizeof_limb": 8, "fast128": 0}
    for k, w in want.items():
        if comp.get(k) != w:
            chk.broke("constant %s = %s: the model (Model.v: W = 2^64, Wm1, the ruint<7> clauses written with add_ssaaaa) assumes %s" % (k, comp.get(k), w))
    c31 = comp["thirtyonepointfive"]
    if not (0 <= c31 < 2**32 and 2 * c31 * c31 < 2**64):
        chk.broke("__RECINT_THIRTYONEPOINTFIVE = %d does not satisfy the hypotheses of C06_max_constants_exact (0 <= c < 2^32, 2*c*c < 2^64)" % c31)
    # three more literals of the model that the source states as expressions: read their text on every run
    def src_text(rel):
        try:
            return re.sub(r"\s+", "", open(os.path.join(vf.REPO, "src/kernel/recint", rel)).read())
        except OSError:
            return ""
    shape = {
        "reclonglong.h recint__ll_B = 1 << (W_TYPE_SIZE / 2)   [Model.HB = 2^32]":
            "#definerecint__ll_B((UWtype)1<<(W_TYPE_SIZE/2))" in src_text("reclonglong.h") and "#defineW_TYPE_SIZE64" in src_text("recdefine.h"),
        "rmgmodule.h Newton loop for (i = 2; i < __RECINT_LIMB_BITS; i <<= 1)   [Model.arazi0: five steps]":
            "for(size_ti=2;i<__RECINT_LIMB_BITS;i<<=1)" in src_text("rmgmodule.h"),
        "rudisplay.h char result[(size_t(1) << K) / 3 + 2]   [ModelNative.dec_size = nbits/3 + 2]":
            "charresult[(size_t(1)<<K)/3+2]" in src_text("rudisplay.h")}
    chk.cov["source_expressions_the_model_copies"] = shape
    for what, ok in shape.items():
        if not ok:
            # a rewording of the source is not a defect of it: recorded (the value itself is exercised by the correspondence run:
            # udiv / arazi_qi / conv.dec), and listed so that the model is re-read against the new text
            chk.notes.append("source text changed where the model copies a literal: " + what)
    # NBLIMB<K> / NBBITS<K> / sizeof of the compiled templates against the model's recursion
    if drv:
        rc2, mo, e2 = vf.run_lines(drv, "".join("sizes %d %d\n" % (K, comp["thr"]) for K in range(6, 13)), timeout=600)
        for K, l in zip(range(6, 13), mo):
            t = l.split()
            ms = (int(t[0], 16), int(t[1], 16)) if len(t) == 2 else None
            if K not in sizes or ms is None or ms != sizes[K][:2] or sizes[K][2] != 8 * ms[0] or sizes[K][3] != 8 * ms[0]:
                chk.broke("size constants of ruint<%d>: compiled NBLIMB/NBBITS/sizeof(ruint)/sizeof(rint) = %s, model nlimbs/nbits = %s"
                          % (K, sizes.get(K), ms))


def check_props_parallel(area, propfiles, timeout):
    """vf.coq_check_props for several property files of one area: ONE build of the area, then the Print Assumptions runs of the
    files side by side (each is a single-threaded coqc).  Returns {propfile: result dict as vf.coq_check_props returns it}."""
    d = vf.coq_dir(area)
    forbidden = vf.forbidden_scan(d)
    ok, out = vf.coq_make(area, timeout=timeout)
    args = vf.coqproject_args(d)

    def one(pf):
        r1 = {"ok": False, "theorems": vf.coq_theorems(os.path.join(d, pf)), "assumptions": {}, "log": out[-6000:], "forbidden": forbidden}
        vo = os.path.join(d, pf[:-2] + ".vo")
        if ok and os.path.exists(vo) and not forbidden:
            r1["ok"] = True
        if os.path.exists(vo):
            rc, o = vf.sh(["coqc"] + args + [pf], cwd=d, timeout=timeout)
            r1["assumptions"] = vf.parse_assumptions(o, r1["theorems"])
            if rc != 0:
                r1["ok"] = False
                r1["log"] += "\n" + o[-3000:]
        return r1
    with ThreadPoolExecutor(len(propfiles)) as ex:
        return dict(zip(propfiles, ex.map(one, propfiles)))


def main(tier, replay=None):
    chk = vf.Check("C06", tier, "proof")
    import time as _time
    _t0 = _time.time()
    tm = {}
    rng = vf.Rng(spread_seed(chk.seed))
    DIV_R_MIN[0], how = div_r_lower_bound()
    chk.cov["div_r_rint_documented_domain"] = "b > %d (%s); divisors outside it are not generated and not checked" % (DIV_R_MIN[0], how)
    thr = source_threshold()
    chk.cov["trusted_base"] = [
        "Coq 8.16.1 kernel + vm_compute (no native_compute)",
        "extraction: ExtrOcamlBasic only; Z/positive/nat kept as extracted inductives; OCaml 4.13.1; zarith only for text I/O in harness/zio.ml",
        "limb primitives of reclonglong.h: add_ssaaaa, sub_ddmmss, umul_ppmm are specified in Model.v (Z arithmetic mod 2^64), "
        "__udiv_qrnnd_c is modelled step by step; validated by the correspondence run",
        "harness/c06_recint.C, checks/C06.py (case generators, python big-integer oracle)",
        "g++ 12 / x86-64 for the implementation side",
    ]
    chk.assumptions = ["model is hand-written after the templates; tie = correspondence on generated cases, K=6..11",
                       "__RECINT_THRESHOLD_KARA read from recdefine.h = %s and passed to the model" % thr]
    ncpu = max(2, min(12, vf.NCPU - 2))
    # 1. proofs + executables, built concurrently (the Coq build dominates)
    with ThreadPoolExecutor(7) as ex:
        f_coq = ex.submit(check_props_parallel, AREA, ("Properties.v", "PropertiesNative.v"), 2400)
        f_h1 = ex.submit(vf.build_harness, "c06_recint.C", ("-DC06_PART=1",), False, WD, 1800, "c06_recint_p1")
        f_h2 = ex.submit(vf.build_harness, "c06_recint.C", ("-DC06_PART=2",), False, WD, 1800, "c06_recint_p2")
        f_n = [ex.submit(vf.build_harness, "c06_native.C", ("-DC06_NPART=%d" % i,), False, WD, 1800, "c06_native_p%d" % i) for i in (1, 2, 3)]
        f_cv = ex.submit(vf.build_harness, "c06_conv.C", (), False, WD, 1800, "c06_conv")
        res = f_coq.result()
        h1, l1 = f_h1.result()
        h2, l2 = f_h2.result()
        hn = [f.result() for f in f_n]
        hcv, lcv = f_cv.result()
    inconclusive = []
    for pf, r1 in res.items():
        if not r1["ok"] and not r1["forbidden"] and "[timeout after" in (r1.get("log") or ""):
            # our own tooling ran out of time (machine load): recorded, not a statement about the property
            inconclusive.append("the Coq build of coq/C06 (%s) timed out; these proofs were not re-checked in this run" % pf)
            chk.cov["obligations"] += len(r1["theorems"])
        else:
            chk.proof_result(r1, AREA, pf)
    binaries = {1: h1, 2: h2, 3: hn[0][0], 4: hn[1][0], 5: hn[2][0], 6: hcv}
    tm["build_coq_and_harness_s"] = round(_time.time() - _t0, 1)
    coq_built = all(r1["ok"] for r1 in res.values())
    if not coq_built:
        # model.ml is a product of the Coq build: when that build did not complete, whatever model.ml lies in the tree may be
        # stale; the correspondence stream is then NOT evaluated (reported as inconclusive / as the broken obligation above)
        drv, l0 = None, "the Coq build did not complete: the extracted model is not trusted in this run"
        inconclusive.append("correspondence stream not evaluated: " + l0)
    else:
        drv, l0 = vf.ocaml_build(AREA) if os.path.exists(os.path.join(vf.coq_dir(AREA), "ocaml", "model.ml")) else (None, "extraction did not run")
        if drv is None and "[timeout after" in (l0 or ""):
            inconclusive.append("compiling the extracted model driver timed out (machine load): correspondence stream not evaluated")
        elif drv is None:
            chk.broke("extracted model driver does not build", l0)
    if any(b is None for b in binaries.values()):
        logs = [l1, l2, hn[0][1], hn[1][1], hn[2][1], lcv]
        failed = [(p, l or "") for (p, b), l in zip(sorted(binaries.items()), logs) if b is None]
        if all("[timeout after" in l for p, l in failed):
            inconclusive.append("compiling harness part(s) %s timed out (machine load); nothing was run" % [p for p, l in failed])
            chk.notes.append("INCONCLUSIVE: " + inconclusive[-1])
            return chk.finish()
        chk.broke("implementation harness does not compile against /repo", "\n".join(l for p, l in failed)[-6000:])
        return chk.finish()
    source_constants(chk, binaries[3], drv)
    if thr is None:
        chk.broke("cannot read __RECINT_THRESHOLD_KARA from recdefine.h")
        thr = 10
    if SRC_CONST.get("thr") not in (None, thr):
        thr = SRC_CONST["thr"]          # (already reported by source_constants) the model follows what was compiled
    # 2. cases
    if replay:
        rp = json.load(open(replay))
        cases = [(f["case"]["variant"], f["case"]["K"], [int(x, 0) for x in f["case"]["args"]]) for f in rp.get("failing_inputs", [])
                 if f.get("case", {}).get("variant") in VARIANTS]
        if not cases:
            cases = build_cases(vf.Rng(spread_seed(rp.get("seed", chk.seed))), tier)
    else:
        cases = build_cases(rng, tier)
    line = lambda name, K, a: "%s %d %d %s\n" % (name, K, thr, " ".join(fmt_arg(x) for x in a))
    idx = {p: [] for p in binaries}
    for i, (v, K, a) in enumerate(cases):
        idx[VARIANTS[v]["part"]].append(i)
    iout = [None] * len(cases)
    with ThreadPoolExecutor(len(binaries)) as ex:
        futs = {p: ex.submit(run_split, binaries[p], [line(cases[i][0], cases[i][1], cases[i][2]) for i in idx[p]],
                             max(1, ncpu // 3), 600) for p in binaries}
        for p in binaries:
            st, out, err = futs[p].result()
            if st == "hang-cap":
                chk.notes.append("implementation harness part %d: %s" % (p, err.strip()[:300]))
            elif st in ("wall-timeout", "cpu-limit"):
                # the whole stream ran out of WALL time (load): inconclusive for the cases without an output; a call that does
                # not return is caught per case by the CPU watchdog of the harness, not here
                inconclusive.append("implementation harness part %d: stream %s; %d of %d cases have no output and were not compared"
                                    % (p, st, sum(1 for x in out if x == "MISSING"), len(out)))
            elif st != "ok":
                chk.broke("implementation harness part %d failed" % p, err)
            for j, i in enumerate(idx[p]):
                iout[i] = out[j]
    # cases over the CPU budget were confirmed inside the streams (run_chunk); classify what is left
    confirmed = set()
    for i in range(len(cases)):
        if iout[i] == NO_RETURN:
            ln = line(*cases[i])
            if ln in HANG.confirmed_lines or form_of(ln) in HANG.confirmed:
                confirmed.add(i)             # this input, or another input of the same call form, was confirmed alone
            else:
                iout[i] = "MISSING"          # over the first-stage budget, no confirmation left: unclassified, not a failure
    chk.cov["hang_handling"] = {"first_stage_cpu_s": FIRST_BUDGET, "confirmation_cpu_s": CONFIRM_BUDGET, "overruns": HANG.overruns,
                                "confirmations": HANG.confirmations, "forms_not_driven_any_more": sorted(HANG.banned),
                                "cases_not_run_after_a_hang": sum(1 for x in iout if x == SKIPPED), "log": HANG.log[:20]}
    tm["implementation_run_s"] = round(_time.time() - _t0, 1)
    midx = [i for i, (v, K, a) in enumerate(cases) if VARIANTS[v]["model"] and i not in NO_MODEL]
    mout = {}
    if drv:
        st, out, err = run_split(drv, [line(VARIANTS[cases[i][0]]["model"], cases[i][1], model_args(*cases[i])) for i in midx], ncpu, 1200,
                                 restart=False, cpu=2400)
        if st in ("wall-timeout", "cpu-limit"):
            inconclusive.append("the extracted model driver: stream %s; %d of %d model results are missing and those cases were not "
                                "compared with the model" % (st, sum(1 for x in out if x == "MISSING"), len(out)))
            mout = {i: o for i, o in zip(midx, out) if o != "MISSING"}
        elif st != "ok":
            chk.broke("model driver failed", err)
        else:
            mout = dict(zip(midx, out))
    # the python mirror that labels the quotient-correction branches (evidence only) is itself tied to the model: the traced limb
    # div_3_2 of ModelAudit.v (proved to return Model.div32_0's result) reports how many corrections it took
    if drv:
        d32 = [cases[i][2] for i in range(len(cases)) if VARIANTS[cases[i][0]]["spec"] == "div32" and cases[i][1] == 6
               and oracle("div32", 6, cases[i][2]) is not None]
        st, o, e = run_split(drv, ["div32_tr 6 %d %s\n" % (thr, " ".join(fmt_arg(x) for x in a)) for a in d32], 2, 900, restart=False, cpu=600)
        if st == "ok":
            bad = [(a, l) for a, l in zip(d32, o) if tok(l) != "%x" % d32_corrections(1 << 64, *a)]
            chk.cov["div_3_2_limb_corrections_by_model_trace"] = {str(n): sum(1 for l in o if tok(l) == "%x" % n) for n in (0, 1, 2)}
            if bad:
                chk.broke("the branch-accounting mirror d32_corrections disagrees with the model's traced div_3_2 on %s: model %s"
                          % ([fmt_arg(x) for x in bad[0][0]], bad[0][1]))
        else:
            inconclusive.append("model trace of the div_3_2 corrections: stream " + st)
    tm["model_run_s"] = round(_time.time() - _t0, 1)
    # 3. three-way comparison
    ncorr = 0
    nspec = 0
    n_missing = 0
    dist = {}
    hits = {}
    for i, (v, K, a) in enumerate(cases):
        info = VARIANTS[v]
        spec, nres = info["spec"], info["nres"]
        ev = oracle(spec, K, a)
        exp = fmt_exp(spec, ev)[:nres] if ev is not None else None
        got = [tok(t) for t in (iout[i] or "MISSING").split()]
        extra = got[nres:]
        got = got[:nres]
        dist[spec] = dist.get(spec, 0) + 1
        for lab in branches_of(v, spec, K, a):
            hits.setdefault(spec, {})
            hits[spec][lab] = hits[spec].get(lab, 0) + 1
        chk.count((v, K, tuple(a)), nontrivial=any(abs(x) > 1 for x in a))
        if i % max(1, len(cases) // 12) == 0:
            chk.sample({"variant": v, "K": K, "args": [fmt_arg(x) for x in a], "impl": iout[i], "spec": exp})
        case = {"variant": v, "K": K, "args": [fmt_arg(x) for x in a]}
        bad_spec = False
        if iout[i] == "MISSING" or iout[i] == SKIPPED:
            n_missing += 1                     # no output because of a tooling time-out: not compared, counted against the floor
            continue
        if iout[i] == NO_RETURN or (iout[i] or "").startswith("CRASHED("):
            chk.fail_input(site_of(v, spec), "does-not-return" if iout[i] == NO_RETURN else "crash", case, exp, iout[i],
                           ("the call did not return within %d s of CPU time when run alone, or (first-stage budget %d s) another input of the "
                            "same call form was confirmed so" % (CONFIRM_BUDGET, FIRST_BUDGET)) if iout[i] == NO_RETURN else
                           "the call crashed the harness process")
            continue
        if exp is not None:
            nspec += 1
            if got != exp or extra:
                bad_spec = True
                kl = klass_of(v, spec, K, a)
                if spec == "bezout_mod" and len(got) == 2 and got[1] == exp[1]:
                    kl = "lastx"        # only the first coefficient is wrong
                chk.fail_input(site_of(v, spec), kl, case, exp, iout[i],
                               "implementation differs from integer arithmetic reduced to 2^K bits")
        if exp is None and spec.startswith("nat:"):
            continue                        # outside the documented domain of the native form (e.g. a divisor that wraps to -1): nothing to compare
        if i in mout and not bad_spec:      # a failing input is reported once, not again as a correspondence break
            mres = info.get("mres", nres)
            mg = [tok(t) for t in mout[i].split()][MODEL_PICK.get(spec, 0):][:mres]
            ncorr += 1
            skip = info.get("mskip", 0)
            gotm, expm = got[skip:skip + mres], (exp[skip:skip + mres] if exp is not None else None)
            if info.get("mboth"):               # two model results (with / without the reset): each must be the implementation's
                mg = [tok(t) for t in mout[i].split()]
                gotm, expm = got[:1] * len(mg), (exp[:1] * len(mg) if exp is not None else None)
            if mg != gotm:
                chk.broke("correspondence model/implementation differs on %s K=%d args=%s: model=%s impl=%s"
                          % (v, K, [fmt_arg(x) for x in a], mout[i], iout[i]))
            if exp is not None and mg != expm:
                chk.broke("extracted model differs from the specification oracle on %s (%s) K=%d args=%s: model=%s spec=%s"
                          % (info["model"], v, K, [fmt_arg(x) for x in a], mout[i], exp))
    if len(chk.broken) > 20:
        chk.broken = chk.broken[:20] + [{"what": "... %d more" % (len(chk.broken) - 20), "detail": ""}]
    chk.cov["rule"] = ("every call form (variant) x K=6..11 x operands with limbs from {0,1,2^63,2^64-1,random} / boundary values / "
                       "division-directed (a = q*b + r, divisors 100..0|11..1) / shift counts around 0,1,64,2^(K-1),2^K,2^(K+1),2^64-1; "
                       "non-trivial = some operand > 1; distinct = (variant,K,operands)")
    # FLOOR on what was actually compared: an inconclusive stream never counts as a pass of that stream
    planned_spec = sum(1 for (v, K, a) in cases if oracle(VARIANTS[v]["spec"], K, a) is not None)
    planned_corr = len([i for i in midx if not (VARIANTS[cases[i][0]]["spec"].startswith("nat:") and oracle(VARIANTS[cases[i][0]]["spec"], cases[i][1], cases[i][2]) is None)])
    floor = {"oracle_comparisons": max(int(0.98 * planned_spec), 40000 if tier == "quick" and not replay else 0),
             "correspondence_comparisons": max(int(0.95 * planned_corr), 35000 if tier == "quick" and not replay else 0),
             "theorems_rechecked": sum(len(r1["theorems"]) for r1 in res.values())}
    done = {"oracle_comparisons": nspec, "correspondence_comparisons": ncorr + len(chk.failing), "theorems_rechecked": chk.cov["discharged"]}
    missed = ["%s: %d < floor %d" % (k, done[k], floor[k]) for k in floor if done[k] < floor[k]]
    chk.cov["floor"] = floor
    chk.cov["compared"] = done
    chk.cov["cases_without_output"] = n_missing
    chk.cov["inconclusive"] = inconclusive
    chk.cov["floor_missed"] = missed
    if missed or inconclusive:
        chk.notes.append("INCONCLUSIVE RUN: %s; floor missed: %s.  The streams named here were NOT evaluated and do not count as passed."
                         % ("; ".join(inconclusive) or "-", "; ".join(missed) or "-"))
        print("INCONCLUSIVE: property=C06 " + ("; ".join(inconclusive + missed))[:600])
    chk.cov["traces_validated_against_impl"] = ncorr
    chk.cov["cases_checked_against_spec_oracle"] = nspec
    chk.cov["variants"] = len(VARIANTS)
    chk.cov["variants_with_model"] = len([v for v in VARIANTS.values() if v["model"]])
    chk.cov["kara_threshold_from_source"] = thr
    chk.cov["distribution_by_op"] = dist
    chk.cov["branch_hits"] = hits
    chk.cov["expected_branches_not_hit"] = ["%s: %s" % (sp, lab) for sp, lab in EXPECTED_BRANCHES if not hits.get(sp, {}).get(lab)]
    chk.cov["cases_without_model_run"] = len(NO_MODEL)
    tm["compare_s"] = round(_time.time() - _t0, 1)
    chk.cov["cumulative_timings"] = tm
    per_form = {}
    for v, K, a in cases:
        per_form[v] = per_form.get(v, 0) + 1
    chk.cov["cases_per_call_form"] = per_form
    chk.cov["call_forms_inside_one_native_case"] = NAT_FORMS
    chk.cov["native_types"] = sorted(NTYPES)
    chk.cov["directed_case_classes"] = ("deterministic for every seed: per K, all-ones runs of every length from limb 0 (alone / +small limb above / "
                                        "+zero limb then ones), a single set limb (1, 2^63, 2^64-1) at every position, both alternating patterns, 0, 1, max, "
                                        "max-1, 2^(n-1), 2^(n-1)-1; x every native type x native values {1, max, 2, max-1, (max+1)/2, 3, 10, 0, -1, min+1, ..}; "
                                        "conversions with previous destination in {all ones, 0xa5.., 2^(n-1), alternating, 0} x sources {0, 5, 2^64-1, 2^64, "
                                        "2^(n-64)-1, 2^(n-1), 2^n-1, 2^(n/2)+1, wider than the destination}")
    return chk.finish()
