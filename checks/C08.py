# C08 -- univariate polynomial arithmetic (Poly1Dom<Domain,Dense>, Interpolation, Poly1CRT) satisfies its defining identities.
# proof:  coq/C08 (list model written after src/library/poly1/*.inl; theorems over an abstract field record)
# tie:    correspondence: extracted model instantiated at Z/pZ  vs  Poly1Dom<Field,Dense> compiled from /repo's current
#         headers for Field in {Modular<int32_t>, Modular<int64_t>, Modular<double>, Modular<Integer>, ModularBalanced<int32_t>,
#         GFqDom<int32_t>(p,1)}, with -DKARA_THRESHOLD=2 -DSQR_THRESHOLD=2 and (Modular<int32_t>, Modular<Integer>) the real thresholds
# search: independent python schoolbook arithmetic mod p (values and defining identities)
import json, os, re, sys
from concurrent.futures import ThreadPoolExecutor
import vf

AREA = "C08"
EXPECTED_THEOREMS = 19
PROBE_INCONCLUSIVE = []
P100 = 2 ** 100 + 277
# (field key of the harness, characteristic)
FIELDS_SMALLTHR = [("mi32", 2), ("mi32", 3), ("mi32", 7), ("mi32", 65521), ("mi64", 2147483647), ("md", 5), ("md", 67108859),
                   ("mI", P100), ("mI", 3), ("mb32", 7), ("mb32", 32749), ("gfq", 7), ("gfq", 251)]
FIELDS_REAL = [("mi32", 2), ("mi32", 3), ("mi32", 7), ("mi32", 65521), ("mI", P100)]
FIELD_NAMES = {"mi32": "Modular<int32_t>", "mi64": "Modular<int64_t>", "md": "Modular<double>", "mI": "Modular<Integer>",
               "mb32": "ModularBalanced<int32_t>", "gfq": "GFqDom<int32_t>(p,1)"}

# variant (call form of the implementation) -> model operation; arguments are given in the model's order
VARIANTS = {
    "setdegree": "setdegree", "setDegree": "setdegree", "degree.d": "degree", "degree.v": "degree",
    "leadcoef": "leadcoef", "isZero": "isZero", "areEqual": "areEqual", "areNEqual": "areEqual",
    "assign": "assign", "monomial": "monomial", "monomial.init": "monomial",
    "eval": "eval", "diff": "diff", "reverse": "reverse", "reversein": "reverse",
    "add.rpq": "add", "add.alias": "add", "addin": "addin", "add.rps": "add_s", "add.rsp": "add_s", "addin.s": "addin_s",
    "add.rps.Dzero": "add_s", "add.rsp.Dzero": "add_s", "sub.rps.Dzero": "sub_s",
    "sub.rpq": "sub", "subin": "subin", "sub.rps": "sub_s", "sub.rsp": "s_sub", "subin.s": "subin_s",
    "neg": "neg", "negin": "neg",
    "mul.rpq": "mul", "mul.empty": "mul", "mulin": "mulin", "stdmul": "stdmul", "karamul": "karamul",
    "mul.rps": "mul_s", "mul.rsp": "mul_s", "mulin.s": "mul_s", "sqr": "sqr",
    "mul.trunc": "mul_trunc", "midmul": "midmul", "stdmidmul": "midmul", "karamidmul": "midmul", "power_compose": "power_compose",
    "div.rps": "div_s", "divin.s": "div_s", "div.rsp": "div_sp", "mod.rsp": "mod_sp", "mod.rps": "mod_ps", "modin.s": "mod_ps",
    "invmodpowx": "invmodpowx", "modpowx": "modpowx", "modpowxin": "modpowx",
    "div.rpq": "div", "divin": "div", "divmod": "divmod", "divmodin": "divmodin", "mod.rpq": "mod", "modin": "modin",
    "pdivmod": "pdivmod", "pmod": "pmod", "isDivisor": "isDivisor",
    "gcd.2": "gcd", "gcd.5": "gcdext", "invmod": "invmod", "invmodunit": "invmodunit", "lcm": "lcm",
    "pow": "pow", "powmod": "powmod", "powmod.u64": "powmod", "powmod.i64": "powmod", "powmod.u32": "powmod",
    "axpy": "axpy", "axpy.s": "axpy_s", "axpyin": "axpyin", "axpyin.s": "axpy_s",
    "maxpy": "maxpy", "maxpy.s": "maxpy_s", "maxpyin": "maxpyin", "maxpyin.s": "maxpyin_s",
    "axmy": "axmy", "axmy.s": "axmy_s", "axmyin": "axmyin", "axmyin.s": "axmyin_s",
    "shiftin": "shift", "shift": "shift", "getEntry": "getEntry", "setEntry": "setEntry", "val": "val",
    "interp": "interpolate", "crt.torns": "crt_torns", "crt.toring": "crt_toring", "crt.toring.copy": "crt_toring",
}
# ---- call forms added in phase 3: variant -> (base variant whose generator is used, model operation,
#      [(i, j)]: argument i is the same OBJECT as argument j in the C++ call, so the generated argument i is a copy of j)
ALIAS_FORMS = {
    "assign.self": ("assign", "assign", []), "diff.alias": ("diff", "diff", []), "reverse.alias": ("reverse", "reverse", []),
    "add.alias2": ("add.rpq", "add", []), "add.self": ("add.rpq", "add", [(1, 0)]), "addin.self": ("addin", "addin", [(1, 0)]),
    "add.rps.alias": ("add.rps", "add_s", []), "add.rsp.alias": ("add.rsp", "add_s", []),
    "sub.alias1": ("sub.rpq", "sub", []), "sub.alias2": ("sub.rpq", "sub", []), "sub.self": ("sub.rpq", "sub", [(1, 0)]),
    "subin.self": ("subin", "subin", [(1, 0)]), "sub.rps.alias": ("sub.rps", "sub_s", []), "sub.rsp.alias": ("sub.rsp", "s_sub", []),
    "neg.alias": ("neg", "neg", []),
    "mul.alias1": ("mul.rpq", "mul", []), "mul.alias2": ("mul.rpq", "mul", []), "mul.self": ("mul.rpq", "mul", [(1, 0)]),
    "mul.aliasself": ("mul.rpq", "mul", [(1, 0)]), "mulin.self": ("mulin", "mulin", [(1, 0)]),
    "stdmul.alias1": ("stdmul", "stdmul", []), "stdmul.alias2": ("stdmul", "stdmul", []),
    "karamul.alias1": ("karamul", "karamul", []), "karamul.alias2": ("karamul", "karamul", []), "karamul.self": ("karamul", "karamul", [(1, 0)]),
    "mul.rps.alias": ("mul.rps", "mul_s", []), "mul.rsp.alias": ("mul.rsp", "mul_s", []), "sqr.alias": ("sqr", "sqr", []),
    "mul.trunc.alias1": ("mul.trunc", "mul_trunc", []), "mul.trunc.alias2": ("mul.trunc", "mul_trunc", []),
    "midmul.alias1": ("midmul", "midmul", []), "midmul.alias2": ("midmul", "midmul", []),
    "stdmidmul.alias1": ("stdmidmul", "midmul", []), "stdmidmul.alias2": ("stdmidmul", "midmul", []),
    "karamidmul.alias1": ("karamidmul", "midmul", []), "karamidmul.alias2": ("karamidmul", "midmul", []),
    "div.alias1": ("div.rpq", "div", []), "div.alias2": ("div.rpq", "div", []), "div.rps.alias": ("div.rps", "div_s", []),
    "mod.alias1": ("mod.rpq", "mod", []), "mod.alias2": ("mod.rpq", "mod", []),
    "divmod.aliasQA": ("divmod", "divmod", []), "divmod.aliasQB": ("divmod", "divmod", []),
    "divmod.aliasRA": ("divmod", "divmod", []), "divmod.aliasRB": ("divmod", "divmod", []),
    "divmodin.aliasQB": ("divmodin", "divmodin", []),
    "pdivmod.aliasQA": ("pdivmod", "pdivmod", []), "pdivmod.aliasQB": ("pdivmod", "pdivmod", []),
    "pdivmod.aliasRA": ("pdivmod", "pdivmod", []), "pdivmod.aliasRB": ("pdivmod", "pdivmod", []),
    "pmod.aliasRA": ("pmod", "pmod", []), "pmod.aliasRB": ("pmod", "pmod", []),
    "invmodpowx.alias": ("invmodpowx", "invmodpowx", []), "modpowx.alias": ("modpowx", "modpowx", []),
    "gcd.2.alias1": ("gcd.2", "gcd", []), "gcd.2.alias2": ("gcd.2", "gcd", []),
    "gcd.5.aliasFA": ("gcd.5", "gcdext", []), "gcd.5.aliasFB": ("gcd.5", "gcdext", []), "gcd.5.aliasSA": ("gcd.5", "gcdext", []),
    "gcd.5.aliasSB": ("gcd.5", "gcdext", []), "gcd.5.aliasTA": ("gcd.5", "gcdext", []), "gcd.5.aliasTB": ("gcd.5", "gcdext", []),
    "lcm.aliasA": ("lcm", "lcm", []), "lcm.aliasB": ("lcm", "lcm", []),
    "invmod.alias1": ("invmod", "invmod", []), "invmod.alias2": ("invmod", "invmod", []),
    "invmodunit.alias1": ("invmodunit", "invmodunit", []), "invmodunit.alias2": ("invmodunit", "invmodunit", []),
    "pow.alias": ("pow", "pow", []), "powmod.i32": ("powmod.u32", "powmod", []),
    "powmod.aliasWU": ("powmod", "powmod", []), "powmod.aliasWP": ("powmod", "powmod", []),
    "axpy.aliasA": ("axpy", "axpy", []), "axpy.aliasX": ("axpy", "axpy", []), "axpy.aliasY": ("axpy", "axpy", []),
    "axpy.s.aliasX": ("axpy.s", "axpy_s", []), "axpy.s.aliasY": ("axpy.s", "axpy_s", []),
    "axpyin.aliasA": ("axpyin", "axpyin", [(1, 0)]),
    "maxpy.aliasA": ("maxpy", "maxpy", []), "maxpy.aliasC": ("maxpy", "maxpy", []),
    "maxpy.s.aliasB": ("maxpy.s", "maxpy_s", []), "maxpy.s.aliasC": ("maxpy.s", "maxpy_s", []),
    "maxpyin.aliasA": ("maxpyin", "maxpyin", [(1, 0)]),
    "axmy.aliasA": ("axmy", "axmy", []), "axmy.aliasY": ("axmy", "axmy", []),
    "axmy.s.aliasX": ("axmy.s", "axmy_s", []), "axmy.s.aliasY": ("axmy.s", "axmy_s", []),
    "axmyin.aliasA": ("axmyin", "axmyin", [(1, 0)]),
    "interp.copy": ("interp", "interpolate", []), "interp.assign": ("interp", "interpolate", []), "interp.noreduce": ("interp", "interpolate", []),
    "crt.toring.copy0": ("crt.toring", "crt_toring", []), "crt.toring.twice": ("crt.toring", "crt_toring", []),
    "crt.torns.copy": ("crt.torns", "crt_torns", []),
}
# the same call made through a COPY-CONSTRUCTED Poly1Dom ("@c") and through a default-constructed, then ASSIGNED one ("@a")
DOMAIN_COPY_BASES = ["mul.rpq", "karamul", "sqr", "midmul", "div.rpq", "divmod", "modin", "gcd.2", "gcd.5", "lcm", "invmod", "pow", "powmod",
                     "invmodpowx", "axpy", "maxpyin", "add.rps", "sub.rsp", "eval", "monomial", "add.rps.Dzero", "mul.trunc", "pdivmod"]
for _b in DOMAIN_COPY_BASES:
    for _sfx in ("@c", "@a"):
        ALIAS_FORMS[_b + _sfx] = (_b, VARIANTS[_b], [])
# forms with a generator of their own (gen_new_form)
NEW_FORMS = {
    "init.empty": "assign", "init.cst": "init_cst", "init.deg": "monomial", "init.list": "init_list",
    "assign.cst": "monomial", "assign.toval": "eval", "convert.val": "eval", "isOne": "isOne", "isMOne": "isMOne", "isUnit": "isUnit",
    "inv": "div", "invin": "div", "newtoninviter": "newton_iter", "crt.recip": "crt_recip",
}
# the protected iterator-range helpers driven through struct Open of the harness on sub-ranges of padded containers
RANGE_FORMS = {
    "r.mul": "mul_r", "r.stdmul": "stdmul_r", "r.karamul": "karamul_r", "r.sqr": "sqr_r", "r.stdsqr": "stdsqr_r", "r.sqrrec": "sqrrec_r",
    "r.subin3": "subin_range", "r.subin2": "subin_grow", "r.subin1": "subin_at",
    "r.midmul": "midmul_r", "r.stdmidmul": "midmul_r", "r.karamidmul": "midmul_r",
}
# the two anchor files that no Poly1Dom operation reaches (phase 4): Poly1PadicDom::eval / radix (givpoly1padic.h) over the Modular
# domains with canonical non-negative residues, NewtonInterpGeom (givinterpgeom.h) over GFqDom (it needs a generator); oracle only
ANCHOR_FORMS = {"padic.eval": "padic_eval", "padic.eval.u64": "padic_eval", "padic.radix": "padic_radix", "interpgeom": "interpgeom"}
for _v, (_b, _o, _c) in ALIAS_FORMS.items():
    VARIANTS[_v] = _o
VARIANTS.update(ANCHOR_FORMS)
VARIANTS.update(NEW_FORMS)
VARIANTS.update(RANGE_FORMS)
# call forms that exist only when the corresponding template member instantiates (see compile probes)
OPTIONAL_VARIANTS = {"maxpy.s": "C08_HAVE_MAXPY_S", "shift": "C08_HAVE_SHIFT", "maxpy.s.aliasB": "C08_HAVE_MAXPY_S", "maxpy.s.aliasC": "C08_HAVE_MAXPY_S"}
# public declarations of givpoly1dense.h / givinterp.h / givpoly1crt.h that no variant drives, with the reason
CALL_FORMS_NOT_DRIVEN = [
    "Poly1Dom::pdiv(Rep&,Type_t&,const Rep&,const Rep&), pdiv(Rep&,const Rep&,const Rep&), pmod(Rep&,const Rep&,const Rep&): declared, defined nowhere (do not link)",
    "Poly1Dom::convert(Vect<UU>&,const Rep&): template-template parameter Vect<XX> with one argument; std::vector<T,A> matches only with P0522 matching, not used by the library",
    "Poly1Dom::modin(A,A) (divisor the same object as the dividend): reads the divisor while overwriting it, not a meaningful call",
    "Poly1Dom::characteristic/cardinality/operator==/operator!=/getIndeter/setIndeter/subdomain/getdomain/setdomain/...: accessors, no arithmetic",
    "Poly1Dom::read/write: text I/O, outside the property", "Poly1Dom::random/nonzerorandom: generators, outside the property",
    "Poly1Dom::ratrecon/ratreconcheck, sqrfree, cyclotomic, factor/proot layers: not named by the property",
    "Poly1CRT::Poly1CRT(): cannot be instantiated (value-initialises the reference member _F)",
    "Poly1CRT::read/write/getdomain/getpolydom: accessors and text I/O",
    "NewtonInterpGeom (givinterpgeom.h), Poly1PadicDom (givpoly1padic.h): other classes, not run by this check",
]
# argument kinds of each model operation: P polynomial, S scalar (field element), N natural number, L list of field elements
SIG = {
    "setdegree": "P", "degree": "P", "leadcoef": "P", "isZero": "P", "areEqual": "PP", "assign": "P", "monomial": "NS",
    "eval": "PS", "diff": "P", "reverse": "P", "add": "PP", "addin": "PP", "neg": "P", "sub": "PP", "subin": "PP",
    "add_s": "PS", "addin_s": "PS", "sub_s": "PS", "subin_s": "PS", "s_sub": "SP", "mul_s": "PS", "div_s": "PS",
    "mul": "PP", "stdmul": "PP", "karamul": "PP", "mulin": "PP", "sqr": "P", "invmodpowx": "PN",
    "div": "PP", "divmod": "PP", "divmodin": "PP", "mod": "PP", "modin": "PP", "pdivmod": "PP", "pmod": "PP",
    "gcd": "PP", "gcdext": "PP", "invmod": "PP", "invmodunit": "PP", "lcm": "PP", "pow": "PN", "powmod": "PNP",
    "axpy": "PPP", "axpy_s": "SPP", "axpyin": "PPP", "maxpy": "PPP", "maxpyin": "PPP", "maxpyin_s": "PSP",
    "axmy": "PPP", "axmy_s": "SPP", "axmyin": "PPP", "axmyin_s": "PSP",
    "mul_trunc": "PPNN", "midmul": "PP", "power_compose": "PN", "div_sp": "SP", "mod_sp": "SP", "mod_ps": "PS", "modpowx": "PN",
    "isDivisor": "PP", "maxpy_s": "SPP", "shift": "PN", "getEntry": "PN", "setEntry": "PSN", "val": "P",
    "interpolate": "LL", "crt_torns": "LP", "crt_toring": "LL",
    # phase 3.  Range helpers: (n, P, Q, a, b) = result range of n entries, operand ranges P and Q, a junk entries before
    # and b junk entries after every range inside its container
    "mul_r": "NPPNN", "stdmul_r": "NPPNN", "karamul_r": "NPPNN", "sqr_r": "PNN", "stdsqr_r": "PNN", "sqrrec_r": "PNN",
    "subin_range": "PPNN", "subin_grow": "PPNN", "subin_at": "PPNNN", "midmul_r": "PPNN",
    "padic_eval": "P", "padic_radix": "NN", "interpgeom": "PN",
    "init_cst": "S", "init_list": "P", "isOne": "P", "isMOne": "P", "isUnit": "P", "newton_iter": "PPN", "crt_recip": "LN",
}
# operations without a Gallina model: judged by the specification oracle only (labelled in the evidence)
NO_MODEL = {"padic_eval", "padic_radix", "interpgeom", "init_cst", "init_list", "isOne", "isMOne", "isUnit", "newton_iter", "crt_recip"}
# (the middle product, shift, getEntry/setEntry/val, maxpy(scalar), mod by a scalar and the protected range helpers all have
#  Gallina models and driver.ml entries since phase 3)


def model_line_op(variant, op):
    """name of the driver.ml entry for a case: the three middle-product forms share one oracle but have their own model"""
    if op == "midmul":
        return "karamidmul" if "karamidmul" in variant else "stdmidmul" if "stdmidmul" in variant else "midmul"
    if op == "midmul_r":
        return {"r.midmul": "midmul_raw", "r.stdmidmul": "stdmidmul_raw", "r.karamidmul": "karamidmul_raw"}[variant]
    return op


# how the source initialises W in powmod (exponent 0): read from givpoly1misc.inl on every run and passed to the model
E0RED = [None]


def source_powmod_e0red():
    """True: `mod(W, one, U)` (fix-12), False: `assign(W,one)` (1 also for a non-zero constant modulus), None: unreadable"""
    try:
        txt = open(os.path.join(vf.REPO, "src/library/poly1/givpoly1misc.inl")).read()
    except OSError:
        return None
    m = re.search(r"::powmod\s*\(.*?\bwhile\s*\(", txt, flags=re.S)
    if not m:
        return None
    body = re.sub(r"//[^\n]*", "", m.group(0))
    red = re.search(r"\bmod\s*\(\s*W\s*,\s*one\s*,\s*U\s*\)", body) is not None
    raw = re.search(r"\bassign\s*\(\s*W\s*,\s*one\s*\)", body) is not None
    if red == raw:
        return None
    return red
# operations whose result is a RAW vector (range helpers: no normalisation promised) or a documented unnormalised form
# (init(P, 0) = [0], init(P, {..}) keeps the list as given): value compared entry by entry, normal form not required
RAW_RESULT = {"mul_r", "stdmul_r", "karamul_r", "sqr_r", "stdsqr_r", "sqrrec_r", "subin_range", "subin_grow", "subin_at", "midmul_r",
              "init_cst", "init_list", "crt_recip", "interpgeom"}
# Normal form of results: with operands in normal form EVERY polynomial result must carry no leading zero coefficient
# (the property's last sentence).  STRICT_NORMAL lists the operations whose body always ended in setdegree / assign; the
# others (add, sub, scalar forms, scalar products, diff, scalar fused forms) were repaired by fix-10 / fix-11 and report
# under class "unnormalised-result".  With operands that carry leading zeros themselves the result is only counted.
STRICT_NORMAL = {"setdegree", "assign", "monomial", "reverse", "subin", "div_s", "mul", "stdmul", "karamul", "mulin", "sqr",
                 "div", "modin", "gcd", "gcdext", "invmod", "invmodunit", "lcm", "pow", "powmod", "invmodpowx",
                 "maxpyin", "axmy", "pdivmod", "pmod", "mul_trunc", "midmul", "power_compose", "modpowx",
                 "div_sp", "mod_ps"}


# ------------------------------------------------------------------ python specification (schoolbook, mod p)
def norm(P):
    P = list(P)
    while P and P[-1] == 0:
        P.pop()
    return P


def padd(P, Q, p):
    n = max(len(P), len(Q))
    return norm([((P[i] if i < len(P) else 0) + (Q[i] if i < len(Q) else 0)) % p for i in range(n)])


def pneg(P, p):
    return norm([(-c) % p for c in P])


def psub(P, Q, p):
    return padd(P, pneg(Q, p), p)


def pscale(P, c, p):
    return norm([(a * c) % p for a in P])


def pmul(P, Q, p):
    P, Q = norm(P), norm(Q)
    if not P or not Q:
        return []
    R = [0] * (len(P) + len(Q) - 1)
    for i, a in enumerate(P):
        if a:
            for j, b in enumerate(Q):
                R[i + j] += a * b
    return norm([c % p for c in R])


def conv_raw(P, Q, p):
    """all sP+sQ-1 coefficients of the product of the raw vectors"""
    if not P or not Q:
        return []
    R = [0] * (len(P) + len(Q) - 1)
    for i, a in enumerate(P):
        if a:
            for j, b in enumerate(Q):
                R[i + j] += a * b
    return [c % p for c in R]


def inv(a, p):
    return pow(a % p, p - 2, p) if p > 2 else a % p


def pdivmod(A, B, p):
    A, B = norm([c % p for c in A]), norm([c % p for c in B])
    assert B
    R = list(A)
    db = len(B) - 1
    il = inv(B[-1], p)
    Q = [0] * max(0, len(A) - db)
    for k in range(len(A) - 1 - db, -1, -1):
        c = (R[k + db] * il) % p
        Q[k] = c
        if c:
            for j in range(db + 1):
                R[k + j] = (R[k + j] - c * B[j]) % p
    return norm(Q), norm(R)


def pseudo_steps(A, B, p):
    """number of elimination steps of the pseudo-remainder loop (R <- lc(B)*R - lc(R)*X^d*B while deg R >= deg B)"""
    R, n = list(A), 0
    while len(R) >= len(B) and len(B) > 1:
        d = len(R) - len(B)
        lr = R[-1]
        R = [(c * B[-1]) % p for c in R]
        for j, b in enumerate(B):
            R[j + d] = (R[j + d] - lr * b) % p
        R = norm(R)
        n += 1
    return n


def monic(P, p):
    P = norm(P)
    return pscale(P, inv(P[-1], p), p) if P else []


def pgcd(A, B, p):
    A, B = norm([c % p for c in A]), norm([c % p for c in B])
    while B:
        A, B = B, pdivmod(A, B, p)[1]
    return monic(A, p)


def ppow(P, n, p, U=None):
    R = [1 % p] if p > 1 else []
    R = norm(R)
    B = norm([c % p for c in P])
    if U is not None:
        B = pdivmod(B, U, p)[1]
        R = pdivmod(R, U, p)[1]
    while n:
        if n & 1:
            R = pmul(R, B, p)
            if U is not None:
                R = pdivmod(R, U, p)[1]
        n >>= 1
        if n:
            B = pmul(B, B, p)
            if U is not None:
                B = pdivmod(B, U, p)[1]
    return R


def peval(P, v, p):
    r = 0
    for c in reversed(P):
        r = (r * v + c) % p
    return r


def parse_poly(tok):
    return [] if tok == "-" else [int(x) for x in tok.split(",")]


def fmt_poly(P):
    return "-" if not P else ",".join(str(c) for c in P)


def spec_check(op, p, args, out):
    """returns (ok, expected-description, klass-if-failing) for the output tokens `out` (list of str) of model operation op.
    Values are compared after normalisation; normal form of the raw vectors is judged separately (normal_check)."""
    a = args

    def val(i):
        return norm(parse_poly(out[i]))

    def eq(exp, i=0, klass="value"):
        return (val(i) == norm(exp), fmt_poly(norm(exp)), klass)

    if op in ("setdegree", "assign"):
        return eq(a[0])
    if op == "degree":
        return (int(out[0]) == len(norm(a[0])) - 1, str(len(norm(a[0])) - 1), "value")
    if op == "leadcoef":
        e = norm(a[0])[-1] if norm(a[0]) else 0
        return (int(out[0]) == e, str(e), "value")
    if op == "isZero":
        e = 0 if norm(a[0]) else 1
        return (int(out[0]) == e, str(e), "value")
    if op == "areEqual":
        e = 1 if norm(a[0]) == norm(a[1]) else 0
        return (int(out[0]) == e, str(e), "value")
    if op == "monomial":
        return eq([0] * a[0] + [a[1] % p])
    if op == "eval":
        e = peval(a[0], a[1], p)
        return (int(out[0]) == e, str(e), "value")
    if op == "diff":
        return eq([(i * c) % p for i, c in enumerate(a[0])][1:])
    if op == "reverse":
        return eq(list(reversed(a[0])))
    if op in ("add", "addin"):
        return eq(padd(a[0], a[1], p))
    if op == "neg":
        return eq(pneg(a[0], p))
    if op in ("sub", "subin"):
        return eq(psub(a[0], a[1], p))
    if op in ("add_s", "addin_s"):
        return eq(padd(a[0], [a[1]], p), klass="unnormalised-zero-operand" if (a[0] and not norm(a[0])) else "value")
    if op in ("sub_s", "subin_s"):
        return eq(psub(a[0], [a[1]], p), klass="unnormalised-zero-operand" if (a[0] and not norm(a[0])) else "value")
    if op == "s_sub":
        return eq(psub([a[0]], a[1], p), klass="empty-polynomial" if not a[1] else "value")
    if op == "mul_s":
        return eq(pscale(a[0], a[1], p))
    if op == "div_s":
        return eq(pscale(a[0], inv(a[1], p), p))
    if op in ("mul", "stdmul", "karamul", "mulin"):
        return eq(pmul(a[0], a[1], p))
    if op == "sqr":
        return eq(pmul(a[0], a[0], p))
    if op == "invmodpowx":
        G = val(0)
        prod = pmul(G, a[0], p)[:a[1]]
        return (norm(prod) == norm([1 % p]) and len(G) <= max(a[1], 1), "G*A = 1 mod X^%d, deg G < %d" % (a[1], a[1]), "value")
    if op in ("div", "divmod", "divmodin", "mod", "modin"):
        klass = "value"
        if op == "modin" and a[1] and a[1][-1] % p == 0:
            klass = "divisor-with-leading-zeros"
        Q, R = pdivmod(a[0], a[1], p)
        if op == "div":
            return eq(Q, 0, klass)
        if op in ("mod", "modin"):
            return eq(R, 0, klass)
        return (val(0) == Q and val(1) == R, fmt_poly(Q) + " " + fmt_poly(R), klass)
    if op in ("pdivmod", "pmod"):
        A, B = norm(a[0]), norm(a[1])
        if op == "pdivmod":
            Q, R, m = val(0), val(1), int(out[2])
        else:
            Q, R, m = None, val(0), int(out[1])
        steps = pseudo_steps(A, B, p)
        klass = "value"
        if len(A) == 1 and len(B) > 1:
            klass = "degA=0<degB"
        elif op == "pdivmod" and B[-1] != 1 and len(A) > len(B):
            klass = "non-monic-B-and-degA>degB"
        elif op == "pmod" and B[-1] != 1 and len(A) >= len(B) and steps < len(A) - len(B) + 1:
            klass = "non-monic-B-and-a-step-lowers-the-degree-by-2-or-more"
        ok = len(R) < len(B)
        mA = pscale(A, m, p)
        if Q is not None:
            ok = ok and mA == padd(pmul(Q, B, p), R, p)
        else:
            ok = ok and not pdivmod(psub(mA, R, p), B, p)[1]
        if len(A) >= len(B) and len(B) > 1:
            ok = ok and any(m % p == pow(B[-1], k, p) for k in range(len(A) - len(B) + 2))
        return (ok, "m*A = Q*B + R, deg R < deg B, m a power lc(B)^k, k <= degA-degB+1", klass)
    if op == "gcd":
        G = val(0)
        e = pgcd(a[0], a[1], p)
        return (monic(G, p) == e, "unit * " + fmt_poly(e), "value")
    if op == "gcdext":
        F, U, V = val(0), val(1), val(2)
        e = pgcd(a[0], a[1], p)
        comb = padd(pmul(U, a[0], p), pmul(V, a[1], p), p)
        return (F == e and comb == F, "F = monic gcd = %s = U*A + V*B" % fmt_poly(e), "value")
    if op in ("invmod", "invmodunit"):
        U = val(0)
        A, B = norm(a[0]), norm(a[1])
        r = pdivmod(pmul(U, A, p), B, p)[1]
        if op == "invmod":
            return (r == norm([1 % p]), "U*A = 1 mod B", "value")
        return (len(r) == 1, "U*A = nonzero constant mod B", "value")
    if op == "lcm":
        A, B = norm(a[0]), norm(a[1])
        if not A or not B:
            return (val(0) == [], "-", "value")
        e = monic(pdivmod(pmul(A, B, p), pgcd(A, B, p), p)[0], p)
        return (monic(val(0), p) == e, "unit * " + fmt_poly(e), "degA<degB" if len(A) < len(B) else "value")
    if op == "pow":
        return eq(ppow(a[0], a[1], p))
    if op == "powmod":
        return eq(ppow(a[0], a[1], p, norm(a[2])), klass="exponent-0-constant-modulus" if (a[1] == 0 and len(norm(a[2])) == 1) else "value")
    if op in ("axpy", "axpyin"):
        if op == "axpy":
            return eq(padd(pmul(a[0], a[1], p), a[2], p))
        return eq(padd(pmul(a[1], a[2], p), a[0], p))
    if op == "axpy_s":
        return eq(padd(pscale(a[1], a[0], p), a[2], p))
    if op == "maxpy":
        return eq(psub(a[2], pmul(a[0], a[1], p), p))
    if op == "maxpyin":
        return eq(psub(a[0], pmul(a[1], a[2], p), p))
    if op == "maxpyin_s":
        return eq(psub(a[0], pscale(a[2], a[1], p), p))
    if op == "axmy":
        return eq(psub(pmul(a[0], a[1], p), a[2], p))
    if op == "axmy_s":
        return eq(psub(pscale(a[1], a[0], p), a[2], p))
    if op == "axmyin":
        return eq(psub(pmul(a[1], a[2], p), a[0], p))
    if op == "axmyin_s":
        return eq(psub(pscale(a[2], a[1], p), a[0], p))
    if op == "mul_trunc":
        full = conv_raw(a[0], a[1], p)
        return eq([full[i] if i < len(full) else 0 for i in range(a[2], a[3] + 1)])
    if op == "midmul":
        n = len(a[1]); m = len(a[0]) - n + 1
        full = conv_raw(a[0], a[1], p)
        return eq(full[n - 1:n - 1 + m])
    if op == "power_compose":
        P = norm(a[0]); b = a[1]
        W = [0] * (b * (len(P) - 1) + 1) if P else []
        for i, c in enumerate(P):
            W[i * b] = c
        return eq(W, klass="zero-polynomial" if not P else "value")
    if op == "div_sp":
        P = norm(a[1])
        return eq([] if len(P) > 1 else [(a[0] * inv(P[0], p)) % p])
    if op == "mod_sp":
        return eq([a[0] % p] if len(norm(a[1])) > 1 else [])
    if op == "mod_ps":
        return eq([])
    if op == "modpowx":
        return eq(a[0][:a[1]])
    if op == "isDivisor":
        P, Q = norm(a[0]), norm(a[1])
        e = (0 if P else 1) if not Q else (0 if pdivmod(P, Q, p)[1] else 1)
        return (int(out[0]) == e, str(e), "value")
    if op == "maxpy_s":
        return eq(psub(a[2], pscale(a[1], a[0], p), p))
    if op == "shift":
        return eq([0] * a[1] + list(a[0]))
    if op == "getEntry":
        P = norm(a[0])
        e = P[a[1]] if a[1] < len(P) else 0
        return (int(out[0]) == e, str(e), "value")
    if op == "setEntry":
        P = list(a[0]) + [0] * max(0, a[2] + 1 - len(a[0]))
        P[a[2]] = a[1] % p
        return eq(P)
    if op == "val":
        e = min(i for i, c in enumerate(a[0]) if c)
        return (int(out[0]) == e, str(e), "value")
    if op in ("interpolate", "crt_toring"):
        R = val(0)
        ok = len(R) <= len(a[0]) and all(peval(R, x, p) == f % p for x, f in zip(a[0], a[1]))
        return (ok, "the polynomial of degree < %d with P(x_i) = f_i" % len(a[0]), "value")
    if op == "crt_torns":
        e = [peval(a[1], x, p) for x in a[0]]
        return ([int(t) for t in out[0].split(",")] == e, ",".join(str(c) for c in e), "value")
    # ---- phase 3
    def raw(exp, klass="value"):
        if out[0] in ("PADBROKEN", "SRCBROKEN"):
            return (False, fmt_poly(exp) + " and untouched neighbours", "writes-outside-its-range")
        return (parse_poly(out[0]) == list(exp), fmt_poly(exp), klass)
    if op in ("mul_r", "stdmul_r", "karamul_r"):
        full = conv_raw(a[1], a[2], p)
        return raw([full[i] if i < len(full) else 0 for i in range(a[0])])
    if op in ("sqr_r", "stdsqr_r", "sqrrec_r"):
        return raw(conv_raw(a[0], a[0], p))
    if op == "midmul_r":
        n = len(a[1]); m = len(a[0]) - n + 1
        return raw(conv_raw(a[0], a[1], p)[n - 1:n - 1 + m])
    if op in ("subin_range", "subin_grow"):
        R, P = a[0], a[1]
        if op == "subin_range" and not P:
            return raw(list(R))
        d = [((R[i] if i < len(R) else 0) - (P[i] if i < len(P) else 0)) % p for i in range(max(len(R), len(P)))]
        if op == "subin_grow" or len(R) < len(P):
            return raw(norm(d))          # the growing form ends in setdegree
        return raw(d)                    # the in-place form keeps the size of R
    if op == "subin_at":
        R = list(a[0])
        for j, c in enumerate(a[1]):
            R[a[2] + j] = (R[a[2] + j] - c) % p
        return raw(R)
    if op == "init_cst":
        return raw([a[0] % p])
    if op == "init_list":
        return raw([c % p for c in a[0]])
    if op in ("isOne", "isMOne", "isUnit"):
        P = norm(a[0])
        e = {"isOne": P == [1 % p], "isMOne": P == [(p - 1) % p], "isUnit": len(P) == 1}[op]
        return (int(out[0]) == int(e), str(int(e)), "value")
    if op == "padic_eval":
        e = sum(c * p ** i for i, c in enumerate(a[0]))
        return (int(out[0]) == e, str(e), "value")
    if op == "padic_radix":
        E, digits = a[0], []
        while E:
            digits.append(E % p)
            E //= p
        return eq(digits)
    if op == "interpgeom":
        g, R, P, n = int(out[0]), norm(parse_poly(out[1])), a[0], a[1]
        pts = [pow(g, i, p) for i in range(n + 1)]
        ok = len(set(pts)) == n + 1 and len(R) <= n + 1 and all(peval(R, x, p) == peval(P, x, p) for x in pts)
        return (ok, "g a generator, deg R <= %d, R(g^i) = P(g^i) for i = 0..%d" % (n, n), "value")
    if op == "newton_iter":
        G, A, i = a[0], a[1], a[2]
        t = conv_raw(A[:i], conv_raw(G, G, p), p)
        t = [t[k] if k < len(t) else 0 for k in range(i)]
        return eq(psub(padd(G, G, p), t, p))
    if op == "crt_recip":
        pts, k = a[0], a[1]
        prod = [1 % p]
        den = 1
        for j in range(k):
            prod = conv_raw(prod, [(-pts[j]) % p, 1], p)
            den = (den * (pts[k] - pts[j])) % p
        e = [(c * inv(den, p)) % p for c in prod]
        ok = (parse_poly(out[0]) == e and int(out[1]) == len(pts) and int(out[2]) == pts[k] % p
              and parse_poly(out[3]) == [x % p for x in pts] and int(out[4]) == len(pts) + 1)
        return (ok, "%s %d %d %s %d" % (fmt_poly(e), len(pts), pts[k] % p, fmt_poly(pts), len(pts) + 1), "value")
    raise KeyError(op)


POLY_RESULT_POS = {"divmod": [0, 1], "divmodin": [0, 1], "pdivmod": [0, 1], "pmod": [0], "gcdext": [0, 1, 2]}
SCALAR_RESULT = {"padic_eval", "degree", "leadcoef", "isZero", "areEqual", "eval", "isDivisor", "getEntry", "val", "crt_torns", "isOne", "isMOne", "isUnit"}


def normal_check(op, out):
    """True when every polynomial in the raw output is in normal form (no leading zero coefficient)"""
    if op in SCALAR_RESULT or op in RAW_RESULT:
        return True
    for i in POLY_RESULT_POS.get(op, [0]):
        P = parse_poly(out[i])
        if P and P[-1] == 0:
            return False
    return True


# ------------------------------------------------------------------ generators
def rand_poly(rng, p, n, shape=None):
    """n coefficients, leading one non-zero (n = 0: the empty vector)"""
    if n <= 0:
        return []
    shape = shape if shape is not None else rng.below(6)
    if shape == 0:      # dense
        P = [rng.below(p) for _ in range(n)]
    elif shape == 1:    # sparse
        P = [rng.below(p) if rng.chance(1, 4) else 0 for _ in range(n)]
    elif shape == 2:    # monomial
        P = [0] * n
    elif shape == 3:    # all coefficients p-1 / 1
        c = rng.choice([1, p - 1])
        P = [c] * n
    elif shape == 4:    # zero low half
        P = [0] * (n // 2) + [rng.below(p) for _ in range(n - n // 2)]
    else:               # zero constant term, dense otherwise
        P = [0] + [rng.below(p) for _ in range(n - 1)]
    P[-1] = 1 + rng.below(p - 1)
    return P


def sizes_for(rng, thr, big):
    """sizes aimed at the switch points: 0,1,2, thr-1..thr+2, 2thr.., powers of two +-1, and (big) 48..52 / ~300"""
    c = [0, 1, 1, 2, 2, 3, 4, 5, 6, 7, 8, 9, 12, 15, 16, 17, thr, thr + 1, thr + 2, 2 * thr, 2 * thr + 1, 2 * thr + 2, 2 * thr + 3, 4 * thr + 1]
    if big:
        c += [48, 49, 50, 51, 52, 53, 63, 64, 65, 99, 100, 101, 102, 103, 104, 105, 127, 128, 129, 150, 201, 203, 205, 207, 299, 300, 301]
    return rng.choice(c)


def gen_new_form(rng, variant, op, p, thr, big):
    """generators of the phase-3 call forms that have no base variant"""
    c = lambda: rng.choice([0, 1, p - 1, rng.below(p)])
    if variant == "init.empty":
        return [[]]
    if variant == "init.cst":
        return [c()]
    if variant == "init.deg":
        return [rng.choice([0, 1, 2, 5, 9]), 1]
    if variant == "init.list":
        return [[c() for _ in range(rng.below(6))]]
    if variant == "assign.cst":
        return [0, c()]
    if variant in ("assign.toval", "convert.val"):
        A = rand_poly(rng, p, rng.choice([0, 1, 2, 5]))
        if A and rng.chance(1, 3):
            A[0] = 0
        return [A if (A and A[-1]) or not A else [1], 0]
    if variant in ("isOne", "isMOne", "isUnit"):
        return [rng.choice([[], [1], [p - 1], [c()], [1, 0], [p - 1, 0, 0], [1, 1], [0], [0, 0], rand_poly(rng, p, 3)])]
    if variant in ("inv", "invin"):
        B = rng.choice([[1], [p - 1], [1 + rng.below(p - 1)], [1 + rng.below(p - 1), 0], rand_poly(rng, p, 2), rand_poly(rng, p, 4)])
        return [[1], B]
    if variant == "newtoninviter":
        G = rand_poly(rng, p, rng.choice([0, 1, 1, 2, 3, 5, thr + 1 if thr < 10 else 4]), 0)
        A = rand_poly(rng, p, rng.choice([1, 2, 3, 5, 8, 9, 2 * thr + 2 if thr < 10 else 7]), rng.choice([0, 0, 1, 4]))
        return [G, A, rng.choice([0, 1, 2, 3, 4, len(A), len(A) + 2, 8, 9])]
    if variant == "crt.recip":
        n = min(p, rng.choice([2, 3, 4, 6]))
        return [distinct_points(rng, p, n), rng.range(1, n - 1)]
    raise KeyError(variant)


def gen_any(rng, variant, p, thr, big):
    """one generated case (variant, op, args) for any call form except the range helpers"""
    op = VARIANTS[variant]
    if variant in NEW_FORMS:
        return (variant, op, gen_new_form(rng, variant, op, p, thr, big))
    if variant in ALIAS_FORMS:
        base, op, same = ALIAS_FORMS[variant]
        _, _, _, a = gen_case(rng, base, op, SIG[op], p, thr, big)
        for i, j in same:
            a[i] = list(a[j])
        if variant == "powmod.i32":
            a[1] %= 1 << 31
        return (variant, op, a)
    _, _, _, a = gen_case(rng, variant, op, SIG[op], p, thr, big)
    return (variant, op, a)


def gen_cases(rng, tier, thr, big, per, fields, have):
    cases = []
    for variant, op in sorted(VARIANTS.items()):
        if variant in OPTIONAL_VARIANTS and not have.get(OPTIONAL_VARIANTS[variant]):
            continue
        if variant in RANGE_FORMS or variant in ANCHOR_FORMS:
            continue                      # deterministic streams of their own (range_cases, anchor_cases)
        secondary = variant in ALIAS_FORMS or variant in NEW_FORMS
        n = per if not secondary else max(len(fields), per // 2 if not big else per // 3)
        for i in range(n):
            fk, p = fields[i % len(fields)] if i < len(fields) else rng.choice(fields)
            if p >= 2 ** 40:
                # multi-word coefficients: the extracted model does its modular reductions bit by bit on the inductive Z;
                # keep the operands small, except for a few products across the real switch point
                if thr > 2 and op in ("mul", "stdmul", "karamul", "mulin", "sqr") and i % 3 == 0 and not secondary:
                    a = [rand_poly(rng, p, rng.choice([thr, thr + 1, thr + 2, thr + 3])) for ch in SIG[op]]
                    v, o = variant, op
                else:
                    v, o, a = gen_any(rng, variant, p, 2, False)
            else:
                v, o, a = gen_any(rng, variant, p, thr, big)
            cases.append((v, o, fk, p, a))
    return cases


def small(rng, big):
    return rng.choice([1, 2, 2, 3, 4, 5, 7, 9, 12] + ([20, 40, 60] if big else []))


def distinct_points(rng, p, n):
    pts = []
    while len(pts) < n:
        x = rng.below(p) if (p > 64 or rng.chance(1, 2)) else len(pts)
        if p <= 64:
            x = [c for c in range(p) if c not in pts][rng.below(p - len(pts))]
        if x not in pts:
            pts.append(x)
    return pts


def gen_special(rng, variant, op, p, thr, big):
    """generators of the operations added after the first version; None = use the generic generator"""
    if op == "mul_trunc":
        A = rand_poly(rng, p, max(1, sizes_for(rng, thr, False))); B = rand_poly(rng, p, max(1, sizes_for(rng, thr, False)))
        top = len(A) + len(B) - 2
        v = rng.choice([0, 0, 1, len(B) - 1, len(B), min(len(A), len(B)), rng.below(top + 1)])
        v = min(v, top + 1)
        d = rng.choice([v, top, top + 1, top + 3, v + rng.below(top + 2 - min(v, top + 1) + 1), max(v, len(B) - 1), max(v, len(A) - 1)])
        return [A, B, v, max(v, d)]
    if op == "midmul":
        if variant == "karamidmul":
            n = rng.choice([1, 1, 2, 3, 4, 5, 6, 7, 8, 9, 13, 16, 17] + ([51, 52, 64, 101, 103] if big else []))
            sP = 2 * n - 1
        else:
            n = rng.choice([1, 2, 3, 4, 5, 6, 7, 9, 12, 16] + ([50, 51, 52, 60, 101, 103, 110] if big else []))
            m = rng.choice([1, 2, 3, 4, 5, n, n, n + 1, max(1, n - 1), 2 * n, 2 * n + 1, 3 * n + 2, max(1, n // 2), max(1, n // 3)] + ([50, 51, 52, 105, 160] if big else []))
            sP = m + n - 1
        A = rand_poly(rng, p, sP, rng.below(5)); B = rand_poly(rng, p, n, rng.below(5))
        if rng.chance(1, 3):      # zero coefficients inside / at the ends of the operands (raw sizes are what counts)
            A[rng.below(len(A))] = 0; B[rng.below(len(B))] = 0
            if rng.chance(1, 2):
                A[-1] = 0
            if rng.chance(1, 2):
                B[-1] = 0
        return [A, B]
    if op == "power_compose":
        return [rand_poly(rng, p, rng.choice([1, 1, 2, 3, 4, 5, 8, 13]) if not rng.chance(1, 12) else 0), rng.choice([1, 1, 2, 3, 4, 7])]
    if op in ("div_sp", "mod_sp"):
        return [rng.choice([0, 1, p - 1, rng.below(p)]), rand_poly(rng, p, rng.choice([1, 1, 2, 3, 5]))]
    if op == "mod_ps":
        return [rand_poly(rng, p, rng.choice([0, 1, 2, 5])), 1 + rng.below(p - 1)]
    if op == "modpowx":
        A = rand_poly(rng, p, sizes_for(rng, thr, False))
        return [A, rng.choice([0, 1, 2, 3, len(A), max(0, len(A) - 1), len(A) + 1, len(A) + 4])]
    if op == "isDivisor":
        B = rand_poly(rng, p, rng.choice([0, 1, 2, 3, 4, 6, 9]))
        A = rand_poly(rng, p, rng.choice([0, 1, 2, 3, 5, 8, 12]))
        if rng.chance(1, 2) and A and B:
            A = pmul(A, B, p)
        return [A, B]
    if op == "maxpy_s":
        x = rand_poly(rng, p, sizes_for(rng, thr, False)); y = rand_poly(rng, p, rng.choice([len(x), len(x), max(0, len(x) - 1), len(x) + 2, 0, 1]))
        a = rng.choice([0, 1, p - 1, rng.below(p)])
        if rng.chance(1, 4) and len(y) == len(x) and a:
            y = pscale(x, a, p); y = y + [0] * (len(x) - len(y))
        return [a, x, y]
    if op == "shift":
        return [rand_poly(rng, p, rng.choice([0, 1, 2, 5])), rng.choice([0, 1, 2, 5])]
    if op == "getEntry":
        A = rand_poly(rng, p, rng.choice([0, 1, 2, 5, 9]))
        return [A, rng.choice([0, 1, max(0, len(A) - 1), len(A), len(A) + 3])]
    if op == "setEntry":
        A = rand_poly(rng, p, rng.choice([0, 1, 2, 5, 9]))
        i = rng.choice([0, 1, max(0, len(A) - 1), max(0, len(A) - 1), len(A), len(A) + 3])
        return [A, rng.choice([0, 0, 1, rng.below(p)]), i]
    if op == "val":
        A = rand_poly(rng, p, rng.choice([1, 2, 5, 9]), rng.choice([0, 2, 4, 5]))
        return [A]
    if op in ("interpolate", "crt_toring", "crt_torns"):
        n = rng.choice([1, 2, 3, 4, 5, 6, 8, 11])
        n = min(n, p)
        pts = distinct_points(rng, p, n)
        if op == "crt_torns":
            return [pts, rand_poly(rng, p, rng.choice([0, 1, 2, n - 1, n, n + 3]))]
        k = rng.below(4)
        if k == 0:      # values of a polynomial of lower degree (some divided difference / correction is zero)
            Pl = rand_poly(rng, p, rng.choice([0, 1, max(1, n // 2)]))
            vals = [peval(Pl, x, p) for x in pts]
        elif k == 1:
            vals = [rng.choice([0, 1, p - 1]) for _ in pts]
        else:
            vals = [rng.below(p) for _ in pts]
        return [pts, vals]
    return None


def gen_case(rng, variant, op, sig, p, thr, big):
    sp = gen_special(rng, variant, op, p, thr, big)
    if sp is not None:
        return (variant, op, p, sp)
    if op in ("s_sub", "add_s", "sub_s", "addin_s", "subin_s") and not variant.endswith(".Dzero") and rng.chance(1, 6):
        # the empty vector as polynomial operand of a scalar form
        s = rng.choice([1, p - 1, rng.below(p)])
        return (variant, op, p, [s, []] if op == "s_sub" else [[], s])
    if variant.endswith(".Dzero"):
        return (variant, op, p, [[0], rng.choice([1, p - 1, 1 + rng.below(p - 1)])])
    heavy = op in ("gcd", "gcdext", "invmod", "invmodunit", "lcm", "powmod", "pow", "pdivmod", "pmod")
    n1 = sizes_for(rng, thr, big and not heavy)
    n2 = sizes_for(rng, thr, big and not heavy)
    if heavy and big:
        n1, n2 = rng.choice([min(n1, 110), 55, 60, 104]), rng.choice([min(n2, 110), 52, 57, 101])
    r = rng.below(10)
    if r == 0:
        n2 = n1                               # equal degree
    elif r == 1 and n1 > 0:
        n2 = max(1, n1 - rng.choice([1, 2, 3, 4, 5, 7, 8, 9, 15, 16, 17, 31, 32, 33]))   # difference around powers of two
    elif r == 2:
        n2 = 1                                # divisor of degree 0
    args = []
    if op in ("div", "divmod", "divmodin", "mod", "modin", "pdivmod", "pmod", "gcd", "gcdext", "invmod", "invmodunit", "lcm", "powmod"):
        if op == "powmod":
            n2 = max(2, min(n2, 40)); n1 = min(n1, 60)
        if op in ("div", "divmod", "divmodin", "mod", "modin", "pdivmod", "pmod", "powmod"):
            n2 = max(n2, 1)                   # divisor non-zero
        A = rand_poly(rng, p, n1)
        B = rand_poly(rng, p, n2)
        k = rng.below(8)
        if k == 0 and n2 > 1 and op not in ("invmod", "invmodunit"):     # operands sharing a large common factor
            C = rand_poly(rng, p, small(rng, big))
            A = pmul(A, C, p) if A else A
            B = pmul(B, C, p)
        elif k == 1 and op not in ("invmod", "invmodunit"):               # exact multiple
            A = pmul(A, B, p) if A else A
        elif k == 2 and B:
            B[-1] = 1                                                     # monic divisor
        if op == "gcdext" and not A and not B:
            B = [1 + rng.below(p - 1)]                                   # gcd(0,0) with cofactors: inverse of 0, excluded
        if op in ("invmod", "invmodunit"):
            n2 = max(n2, 2); B = rand_poly(rng, p, n2); A = rand_poly(rng, p, max(n1, 1))
            g = pgcd(A, B, p)
            tries = 0
            while len(g) != 1 and tries < 20:
                A = rand_poly(rng, p, max(1, len(A) + (tries % 3) - 1), 0); g = pgcd(A, B, p); tries += 1
            if len(g) != 1:
                A, B = [1], [1, 1]
        if op == "powmod":
            e = rng.choice([0, 1, 2, 3, 5, 8, 13, 255, 256, 1000003, p, p * p, 2 ** 70 + 1])
            if len(B) > 12:
                e = rng.choice([0, 1, 2, 3, 5, 8, 13, 255, 256])
            if p >= 2 ** 40:
                e = rng.choice([0, 1, 2, 3, 5, 8, 13, 255, 256, 2 ** 70 + 1])
                A, B = A[:12], B[:8]
                if A:
                    A[-1] = 1
                B[-1] = 1 if len(B) < 8 else B[-1] or 1
                if len(B) < 2:
                    B = [1, 1]
            lim = {"powmod": None, "powmod.u64": 1 << 64, "powmod.i64": 1 << 63, "powmod.u32": 1 << 32}.get(variant)
            return (variant, op, p, [A, e if lim is None else e % lim, B])
        return (variant, op, p, [A, B])
    for ch in sig:
        if ch == "P":
            n = sizes_for(rng, thr, big) if len(args) == 0 else (n2 if sig.count("P") > 1 else n1)
            if len(args) == 0:
                n = n1
            P = rand_poly(rng, p, n)
            if op in ("add", "sub", "subin", "areEqual", "axpy_s", "maxpyin_s", "axmy_s", "axmyin_s") and args and isinstance(args[-1], list) and rng.chance(1, 4):
                # leading terms cancel / equal polynomials
                prev = args[-1]
                P = list(prev) if op in ("sub", "subin", "areEqual") else [(-c) % p for c in prev]
                if P and rng.chance(1, 2):
                    P[0] = (P[0] + 1) % p
                    if len(P) == 1 and P[0] == 0:
                        P = [1]
            args.append(P)
        elif ch == "S":
            args.append(rng.choice([0, 1, p - 1, rng.below(p)]) if op != "div_s" else 1 + rng.below(p - 1))
        elif ch == "N":
            if op == "pow":
                args.append(rng.choice([0, 1, 2, 3, 4, 5, 6, 7, 8, 9, 15, 16, 17]))
                if len(args[0]) > 12:
                    args[-1] = min(args[-1], 5)
            elif op == "invmodpowx":
                args.append(rng.choice([1, 2, 3, 4, 5, 7, 8, 9, 15, 16, 17, 31, 32, 33, 63, 64, 65] + ([100, 128, 129, 200] if big else [])))
            else:
                args.append(rng.below(12))
    if op == "invmodpowx":
        if not args[0]:
            args[0] = [1]
        if args[0][0] == 0:
            args[0][0] = 1
    if op == "pow" and len(args[0]) > 40:
        args[0] = args[0][:40]; args[0][-1] = 1
    if op in ("axpy", "axpyin", "maxpy", "maxpyin", "axmy", "axmyin") and rng.chance(1, 5):
        # c = a*b: the fused result cancels completely
        a_, b_ = (args[0], args[1]) if op in ("axpy", "maxpy", "axmy") else (args[1], args[2])
        prod = pmul(a_, b_, p)
        tgt = 2 if op in ("axpy", "maxpy", "axmy") else 0
        args[tgt] = prod if op not in ("axpy", "axpyin") else pneg(prod, p)
    return (variant, op, p, args)


def unnormalised_cases(rng, per, fields):
    """operands carrying leading zero coefficients (as add/sub/mod/diff of the library return them)"""
    cases = []
    ops = ["setdegree", "setDegree", "degree.d", "degree.v", "leadcoef", "isZero", "areEqual", "areNEqual", "assign", "eval",
           "mul.rpq", "mulin", "stdmul", "div.rpq", "divmod", "mod.rpq", "gcd.2", "gcd.5", "sqr", "add.rpq", "sub.rpq", "subin",
           "add.rps", "add.rsp", "sub.rps", "diff", "modin", "lcm", "invmod", "pow", "axpy", "maxpy", "addin", "isDivisor",
           "power_compose", "modpowx", "pdivmod", "pmod", "divmodin", "mod.rpq", "powmod"]
    for variant in ops:
        op = VARIANTS[variant]
        for _ in range(per):
            fk, p = rng.choice(fields)
            _, _, _, args = gen_case(rng, variant, op, SIG[op], p, 2, False)
            which = rng.below(3)
            pos = [i for i, ch in enumerate(SIG[op]) if ch == "P"]
            for j, i in enumerate(pos):
                if which == 2 or which == j % 2:
                    if op in ("modin",) and j == 1:
                        continue          # precondition of modin: the divisor is in normal form (B.size() = deg B + 1)
                    args[i] = list(args[i]) + [0] * rng.choice([1, 1, 2, 3])
            if rng.chance(1, 6):
                args[pos[0]] = [0] * rng.choice([1, 2])       # unnormalised zero (e.g. the domain's `zero` member is [0])
                if op in ("add_s", "sub_s") and args[1] % p == 0:
                    args[1] = 1                               # 0 + 0: the out-of-bounds write of the unrepaired code would go unseen
            if op in ("div", "divmod", "divmodin", "mod", "modin", "pdivmod", "pmod") and not norm(args[1]):
                args[1] = [1, 1] + ([0] if op != "modin" else [])
            if op == "powmod" and not norm(args[2]):
                args[2] = [1, 1, 0]
            if op == "invmod" and not norm(args[0]):
                args[0] = [1, 0]
            cases.append((variant, op, fk, p, args))
    return cases


def exhaustive_cases(fk, p, maxdeg, variants):
    """all pairs of polynomials of degree <= maxdeg over GF(p) (normalised vectors, including the zero polynomial)"""
    polys = [[]]
    for n in range(1, maxdeg + 2):
        def rec(k, cur):
            if k == n - 1:
                for c in range(1, p):
                    polys.append(cur + [c])
                return
            for c in range(p):
                rec(k + 1, cur + [c])
        rec(0, [])
    cases = []
    for v in variants:
        op = VARIANTS[v]
        for A in polys:
            for B in polys:
                if op in ("div", "divmod", "mod", "modin", "divmodin", "pdivmod", "pmod") and not B:
                    continue
                if op in ("invmod",):
                    if len(B) < 2 or not A or len(pgcd(A, B, p)) != 1:
                        continue
                if op in ("gcdext",) and not A and not B:
                    continue
                cases.append((v, op, fk, p, [A, B]))
    return cases


def structured_poly(rng, p, n, kind=None):
    """operands that make an algorithm take its rare branches: equal / negated halves (Ph - Pl or Ph + Pl vanishes at some
    recursion level), all coefficients equal, (1 + X^h) * U, periodic blocks, alternating, one coefficient off a symmetric shape"""
    if n <= 0:
        return []
    kind = rng.below(9) if kind is None else kind
    h = max(1, n // 2)
    nz = lambda: 1 + rng.below(p - 1)
    if kind == 0:                                   # c * (1 + X + ... + X^(n-1))
        P = [nz()] * n
    elif kind == 1:                                 # halves equal (n even) / equal up to the extra top coefficient (n odd)
        U = [rng.below(p) for _ in range(h)]; U[-1] = nz()
        P = (U + U + [nz()])[:n] if n > 1 else [nz()]
    elif kind == 2:                                 # halves negated
        U = [rng.below(p) for _ in range(h)]; U[-1] = nz()
        P = (U + [(-x) % p for x in U] + [nz()])[:n] if n > 1 else [nz()]
    elif kind == 3:                                 # (1 + X^h) * U with deg U < h - 1
        k = max(1, h - rng.choice([1, 2, 3]))
        U = [rng.below(p) for _ in range(k)]; U[-1] = nz()
        P = (U + [0] * (h - k) + U)
    elif kind == 4:                                 # four equal blocks (halves equal again one level down)
        q = max(1, n // 4)
        U = [rng.below(p) for _ in range(q)]; U[-1] = nz()
        P = (U * 4 + [nz()] * 3)[:max(n, 1)]
    elif kind == 5:                                 # alternating a, b, a, b
        a, b = nz(), rng.below(p)
        P = [a if i % 2 == 0 else b for i in range(n)]
    elif kind == 6:                                 # symmetric shape with one coefficient changed
        U = [rng.below(p) for _ in range(h)]; U[-1] = nz()
        P = (U + U + [nz()])[:n] if n > 1 else [nz()]
        j = rng.below(len(P)); P[j] = (P[j] + 1) % p
    elif kind == 7:                                 # 1 + X^(n-1) and neighbours (binomials / trinomials)
        P = [0] * n; P[0] = nz()
        if n > 2 and rng.chance(1, 2):
            P[n // 2] = nz()
    else:                                           # dense
        P = [rng.below(p) for _ in range(n)]
    P = (P + [0] * n)[:n]                             # exactly n entries
    if P[-1] % p == 0:
        P[-1] = nz()
    return P


def switch_sizes(rng, thr):
    if thr >= 50:
        return rng.choice([50, 51, 52, 53, 63, 64, 65, 75, 99, 100, 101, 102, 103, 104, 127, 128, 129, 150, 200, 202, 204, 206])
    return rng.choice([thr + 1, thr + 2, 2 * thr, 2 * thr + 1, 2 * thr + 2, 4 * thr, 4 * thr + 1, 4 * thr + 3, 7, 8, 9, 12, 15, 16, 17, 31, 32, 33])


def structured_cases(rng, tier, thr, fields):
    """structured operands at the algorithm switch points: products (every public product, squares, middle and truncated
    products), the divisions built on them, and equal-degree / associated operands for the gcd family"""
    cases = []
    per = 5 if tier == "quick" else 40
    flds = [f for f in fields if f[1] < 2 ** 40]

    def partner(n):
        m = rng.choice([n, n, n + 1, max(1, n - 1), 2 * n, 2 * n + 1, max(1, n // 2), thr + 1, thr + 2, switch_sizes(rng, thr)])
        return m
    for v in ["mul.rpq", "karamul", "mulin", "stdmul", "mul.empty", "axpy", "maxpy"]:
        op = VARIANTS[v]
        for _ in range(per):
            fk, p = rng.choice(flds)
            n = switch_sizes(rng, thr)
            A = structured_poly(rng, p, n)
            B = structured_poly(rng, p, partner(n), rng.choice([None, 8, 8]))
            if rng.chance(1, 2):
                A, B = B, A
            a = [A, B] if SIG[op] == "PP" else [A, B, rand_poly(rng, p, rng.choice([0, 1, n, len(A) + len(B) - 1]))]
            cases.append((v, op, fk, p, a))
    for _ in range(2 * per):
        fk, p = rng.choice(flds)
        cases.append(("sqr", "sqr", fk, p, [structured_poly(rng, p, switch_sizes(rng, thr))]))
    for _ in range(per):                                     # (P, P) through the general product
        fk, p = rng.choice(flds)
        A = structured_poly(rng, p, switch_sizes(rng, thr))
        cases.append(("mul.rpq", "mul", fk, p, [A, list(A)]))
    for v in ["midmul", "stdmidmul", "karamidmul"]:
        for _ in range(2 * per):
            fk, p = rng.choice(flds)
            n = switch_sizes(rng, thr) if not rng.chance(1, 3) else rng.choice([thr + 1, thr + 3, 2 * thr + 1, 2 * thr + 3, 75 if thr >= 50 else 5])
            if thr >= 50 and v != "stdmidmul":
                n = min(n, 129)
            if v == "karamidmul":
                m = n
            else:
                m = rng.choice([n, n, n + 1, max(1, n - 1), 2 * n, 2 * n + 1, 3 * n + 2, max(1, n // 2), max(1, n // 3), thr + 1, 1])
            A = structured_poly(rng, p, m + n - 1, rng.choice([None, 8]))
            B = structured_poly(rng, p, n)
            if rng.chance(1, 4):
                A[-1] = 0
            cases.append((v, "midmul", fk, p, [A, B]))
    for _ in range(2 * per):
        fk, p = rng.choice(flds)
        A = structured_poly(rng, p, switch_sizes(rng, thr)); B = structured_poly(rng, p, partner(len(A)))
        top = len(A) + len(B) - 2
        v0 = rng.choice([0, 1, len(B) - 1, len(B), len(A) - 1, len(A), top // 2, top])
        d0 = rng.choice([v0, top, top + 1, max(v0, len(A) - 1), max(v0, len(B)), max(v0, top // 2)])
        cases.append(("mul.trunc", "mul_trunc", fk, p, [A, B, v0, max(v0, d0)]))
    for v in ["div.rpq", "divmod", "mod.rpq", "modin", "divmodin", "pdivmod", "pmod", "isDivisor"]:
        op = VARIANTS[v]
        for _ in range(per):
            fk, p = rng.choice(flds)
            nb = switch_sizes(rng, thr) if not rng.chance(1, 3) else rng.choice([2, 3, thr + 1, 60 if thr >= 50 else 6])
            if op in ("pdivmod", "pmod"):
                nb = min(nb, 64)
            B = structured_poly(rng, p, nb)
            na = nb + rng.choice([0, 1, 2, 3, 7, 8, 9, 15, 16, 17, 31, 32, 33, nb - 1, nb, nb + 1, 2 * nb])
            A = structured_poly(rng, p, min(na, 330), rng.choice([None, 8, 8]))
            if rng.chance(1, 5):
                A = pmul(B, structured_poly(rng, p, max(1, len(A) - len(B) + 1)), p)      # exact multiple
            cases.append((v, op, fk, p, [A, B]))
    for v in ["gcd.2", "gcd.5", "lcm", "invmod", "invmodunit", "isDivisor"]:
        op = VARIANTS[v]
        for _ in range(2 * per):
            fk, p = rng.choice(flds)
            n = rng.choice([2, 2, 3, 4, 5, 7, 9, 12, 17, 20, 33] + ([52, 57] if thr >= 50 else []))
            k = rng.below(7)
            A = rand_poly(rng, p, n, rng.choice([0, 0, 1, 3]))
            if k == 0:                               # equal degree, unrelated
                B = rand_poly(rng, p, n, 0)
            elif k == 1:                             # associated: B = c * A
                B = pscale(A, 1 + rng.below(p - 1), p)
            elif k == 2:                             # B = -A / B = A
                B = pneg(A, p) if rng.chance(1, 2) else list(A)
            elif k == 3:                             # common factor, cofactors of equal degree
                C = rand_poly(rng, p, rng.choice([2, 3, 6, 12]), 0)
                U = rand_poly(rng, p, rng.choice([1, 2, 4]), 0); V = rand_poly(rng, p, len(U), 0)
                A, B = pmul(C, U, p), pmul(C, V, p)
            elif k == 4:                             # degrees differ by one, both orders
                B = rand_poly(rng, p, n + 1, 0)
                if rng.chance(1, 2):
                    A, B = B, A
            elif k == 5:                             # one divides the other
                B = pmul(A, rand_poly(rng, p, rng.choice([1, 2, 3]), 0), p)
                if rng.chance(1, 2):
                    A, B = B, A
            else:                                    # equal degree, leading coefficients equal (the difference drops in degree)
                B = rand_poly(rng, p, n, 0); B[-1] = A[-1]
            if op in ("invmod", "invmodunit"):
                if len(norm(B)) < 2 or len(pgcd(A, B, p)) != 1:
                    B = rand_poly(rng, p, max(2, n), 0)
                    t = 0
                    while len(pgcd(A, B, p)) != 1 and t < 30:
                        B = rand_poly(rng, p, max(2, n), 0); t += 1
                    if len(pgcd(A, B, p)) != 1:
                        continue
            cases.append((v, op, fk, p, [A, B]))
    return cases


# ------------------------------------------------------------------ deterministic streams (phase 3)
# Every CLASS below (size, shape, partner, pad, call form, field, threshold setting) is enumerated on every run and for
# every seed; only the coefficient VALUES inside a shape come from the seeded generator.
SHAPES = ["1+X^h, #A=h (equal halves)", "1+X^h, #A<h", "1-X^h, #A=h (negated halves)", "1-X^h, #A<h", "low half zero",
          "high half zero except the leading coefficient", "middle block zero", "palindrome", "monomial", "1+X^(n-1)",
          "all coefficients equal", "four equal blocks", "dense"]


def shape_poly(rng, p, n, shape):
    """exactly n coefficients (n >= 1) of the given shape, leading coefficient non-zero"""
    nz = lambda: 1 + rng.below(p - 1)
    dense = lambda k: [rng.below(p) for _ in range(k - 1)] + [nz()] if k > 0 else []
    h = n // 2
    if n == 1:
        return [nz()]
    if shape in (0, 2):
        U = dense(h)
        V = U if shape == 0 else [(-c) % p for c in U]
        P = U + V + ([nz()] if n % 2 else [])
    elif shape in (1, 3):
        k = max(1, h - 1)
        U = dense(k)
        V = U if shape == 1 else [(-c) % p for c in U]
        P = U + [0] * (n - 2 * k) + V
    elif shape == 4:
        P = [0] * h + dense(n - h)
    elif shape == 5:
        P = dense(h) + [0] * (n - h - 1) + [nz()]
    elif shape == 6:
        q = max(1, n // 3)
        P = dense(q) + [0] * (n - 2 * q) + dense(q)
    elif shape == 7:
        U = dense(n - h)
        U[0] = nz()
        P = U + list(reversed(U[:h]))
    elif shape == 8:
        P = [0] * (n - 1) + [nz()]
    elif shape == 9:
        P = [nz()] + [0] * (n - 2) + [nz()]
    elif shape == 10:
        P = [nz()] * n
    elif shape == 11:
        q = max(1, n // 4)
        P = (dense(q) * 4 + [nz()] * 3)[:n]
    else:
        P = dense(n)
    P = (list(P) + [0] * n)[:n]
    if P[-1] % p == 0:
        P[-1] = nz()
    return P


PADS = [(0, 0), (1, 0), (0, 2), (3, 1)]
HALF_SHAPES = [12, 0, 4, 2, 5]      # dense, equal halves, one half zero (low / high), negated halves


def range_cases(rng, thr, fields, real):
    """the protected range helpers on sub-ranges of padded containers (struct Open of the harness)"""
    cases = []
    add = lambda v, fk, p, a: cases.append((v, RANGE_FORMS[v], fk, p, a))
    if real:
        sizes = [thr - 1, thr, thr + 1, thr + 2, 2 * thr - 1, 2 * thr, 2 * thr + 1, 2 * thr + 3]
    else:
        sizes = list(range(1, 10))
    for fi, (fk, p) in enumerate(fields):
        bigp = p >= 2 ** 40
        # ---- products on ranges
        if bigp:
            pairs = [(3, 3), (4, 5), (5, 2)] if not real else [(thr + 1, thr + 2)]
        elif real:
            pairs = [(sP, sQ) for sP in sizes for sQ in (sP, thr + 1, 2 * thr + 3)]
        else:
            pairs = [(sP, sQ) for sP in sizes for sQ in sizes if fi < 2 or (sP + 2 * sQ + fi) % 3 == 0]
        for k, (sP, sQ) in enumerate(pairs):
            half = min(sP // 2, sQ // 2)
            ns = sorted(set(n for n in [1, half, 2 * half - 1, 2 * half, 2 * half + 1, sP + sQ - 2, sP + sQ - 1, sP + sQ + 1] if n >= 1))
            if bigp:
                ns = [ns[0], ns[len(ns) // 2], sP + sQ - 1]
            for j, n in enumerate(ns):
                a, b = PADS[(k + j + fi) % 4]
                P = shape_poly(rng, p, sP, HALF_SHAPES[(k + j) % 5]); Q = shape_poly(rng, p, sQ, HALF_SHAPES[(k + 2 * j + 1) % 5])
                add("r.mul", fk, p, [n, P, Q, a, b])
                # forcing the first Karatsuba level on a size-1 operand with a truncated result is outside the helper's domain
                # (half = 0: PHQH is never computed although `rrems < highs`); public callers never do that
                kara_ok = min(sP, sQ) >= 2 or n >= sP + sQ - 1
                if (k + j) % 2 == 0 and kara_ok:
                    add("r.karamul", fk, p, [n, P, Q, PADS[(k + j + fi + 1) % 4][0], PADS[(k + j + fi + 1) % 4][1]])
                else:
                    add("r.stdmul", fk, p, [n, P, Q, a, b])
        # ---- squares on ranges: result range of exactly 2 len - 1 entries
        lens = ([2, 3] if not real else [thr + 1]) if bigp else (sizes if real else sizes + [12, 17])
        for k, n in enumerate(lens):
            for j, (a, b) in enumerate(PADS):
                if bigp and j not in (0, 3):
                    continue
                P = shape_poly(rng, p, n, HALF_SHAPES[(k + j + fi) % 5])
                add("r.sqr", fk, p, [P, a, b])
                add("r.stdsqr", fk, p, [P, a, b])
                if n >= 2:
                    add("r.sqrrec", fk, p, [P, a, b])
        # ---- middle products on ranges: P of m + n - 1 entries, Q of n, result m; karamidmul balanced (m = n)
        if not bigp:
            qs = [thr - 1, thr, thr + 1, thr + 2, thr + 3, 75, 2 * thr + 1, 2 * thr + 3] if real else sizes
            for k, n in enumerate(qs):
                ms = [n, thr + 1, n + 1] + ([2 * n + 1] if n <= thr + 3 else []) if real else [1, 2, 3, max(1, n - 1), n, n + 1, 2 * n, 2 * n + 1, 3 * n + 2]
                for j, m in enumerate(sorted(set(ms))):
                    a, b = PADS[(k + j + fi) % 4]
                    P = shape_poly(rng, p, m + n - 1, HALF_SHAPES[(k + j) % 5]); Q = shape_poly(rng, p, n, HALF_SHAPES[(j + fi) % 5])
                    if (k + j) % 3 == 0:
                        P[-1] = 0           # raw sizes are what counts
                    add("r.midmul", fk, p, [P, Q, a, b])
                    add("r.stdmidmul", fk, p, [P, Q, a, b])
                    if m == n:
                        add("r.karamidmul", fk, p, [P, Q, PADS[(k + fi + 1) % 4][0], PADS[(k + fi + 1) % 4][1]])
        # ---- the three range forms of subin
        if not real or fi < 2:
            for sR in [0, 1, 2, 3, 5]:
                for sPp in [0, 1, 2, 3, 5, 6]:
                    for j, (a, b) in enumerate(PADS):
                        kind = (sR + sPp + j + fi) % 4
                        R = [rng.below(p) for _ in range(sR)]; P = [rng.below(p) for _ in range(sPp)]
                        if R:
                            R[-1] = 1 + rng.below(p - 1)
                        if P:
                            P[-1] = 1 + rng.below(p - 1)
                        if kind == 1:              # the common part cancels
                            for i in range(min(sR, sPp)):
                                P[i] = R[i]
                        elif kind == 2 and P:      # P with zero top entries: the growing form must strip
                            P[-1] = 0
                            if sPp > 2:
                                P[-2] = 0
                        elif kind == 3 and R:
                            R[-1] = 0
                        add("r.subin3", fk, p, [R, P, a, b])
                        if sPp >= sR:
                            add("r.subin2", fk, p, [R, P, a, b])
                        for off in sorted(set([0, 1, sR - sPp])):
                            if 0 <= off and off + sPp <= sR:
                                add("r.subin1", fk, p, [R, P, off, a, b])
    return cases


def det_sizes(thr):
    if thr >= 10:
        return [thr - 1, thr, thr + 1, thr + 2, 2 * thr, 2 * thr + 1, 2 * thr + 2, 2 * thr + 4]
    return sorted(set([thr - 1, thr, thr + 1, thr + 2, 2 * thr, 2 * thr + 1, 2 * thr + 2, 4 * thr, 4 * thr + 1]))


def partner_poly(rng, p, n, shape, kind, thr):
    """partners: same size dense, same shape, size - 1, size + 1, twice the size, thr + 1"""
    if kind == 0:
        return shape_poly(rng, p, n, 12)
    if kind == 1:
        return shape_poly(rng, p, n, shape)
    if kind == 2:
        return shape_poly(rng, p, max(1, n - 1), 12)
    if kind == 3:
        return shape_poly(rng, p, n + 1, 12)
    if kind == 4:
        return shape_poly(rng, p, 2 * n, 12)
    return shape_poly(rng, p, thr + 1, 12)


def det_product_cases(rng, thr, fields):
    """structured operands x sizes around the switch points x partners, for every product algorithm, every field"""
    cases = []
    sizes = det_sizes(thr)
    real = thr >= 10
    second = ["karamul", "mulin", "stdmul", "mul.empty", "mul.alias1", "karamul.alias2"]
    squares = ["sqr", "sqr.alias", "mul.self", "karamul.self", "mulin.self", "mul.aliasself"]
    fused = ["axpy", "maxpy", "axmy", "axpyin", "maxpyin", "axmyin"]
    mids = ["midmul", "stdmidmul", "karamidmul"]
    for fi, (fk, p) in enumerate(fields):
        if p >= 2 ** 40:
            # multi-word coefficients: a few small cases only (the extracted model is slow on them)
            for shi in (0, 2, 6):
                n = thr + 2 if not real else thr + 1
                A = shape_poly(rng, p, n, shi); B = shape_poly(rng, p, n, 12)
                cases.append(("mul.rpq", "mul", fk, p, [A, B]))
                cases.append(("sqr", "sqr", fk, p, [A]))
            continue
        for si, n in enumerate(sizes):
            for shi in range(len(SHAPES)):
                A = shape_poly(rng, p, n, shi)
                pk = (si + shi + fi) % 6
                B = partner_poly(rng, p, n, shi, pk, thr)
                a = [A, B] if (si + shi) % 2 == 0 else [B, A]
                cases.append(("mul.rpq", "mul", fk, p, a))
                v = second[(si + 2 * shi + fi) % 6]
                B2 = partner_poly(rng, p, n, shi, (pk + 1 + si) % 6, thr)
                cases.append((v, VARIANTS[v], fk, p, [A, B2] if shi % 2 else [B2, A]))
                v = squares[(si + shi + fi) % 6]
                cases.append((v, VARIANTS[v], fk, p, [A] if SIG[VARIANTS[v]] == "P" else [A, list(A)]))
                if real and (si + shi + fi) % 2:
                    continue                      # real thresholds: the remaining forms on every second combination
                v = fused[(si + shi) % 6]
                y = [[], shape_poly(rng, p, n, 12), shape_poly(rng, p, len(A) + len(B) - 1, 12)][(si + shi + fi) % 3]
                cases.append((v, VARIANTS[v], fk, p, [A, B, y] if v in ("axpy", "maxpy", "axmy") else [y, A, B]))
                top = len(A) + len(B) - 2
                v0 = [0, 1, len(B) - 1, len(A), top // 2, top][(si + shi) % 6]
                d0 = [top, top + 1, max(v0, len(A) - 1), v0][(shi + fi) % 4]
                cases.append(("mul.trunc", "mul_trunc", fk, p, [A, B, min(v0, top + 1), max(v0, d0)]))
                v = mids[(si + shi + fi) % 3]
                m = n if v == "karamidmul" else [n, n + 1, max(1, n - 1), 2 * n + 1, max(1, n // 2), thr + 1][(si + shi) % 6]
                if real and v != "stdmidmul":
                    m = min(m, 2 * thr + 5)
                Pm = shape_poly(rng, p, m + n - 1, [12, shi][(si + fi) % 2])
                cases.append((v, "midmul", fk, p, [Pm, A]))
                if n <= thr + 2 and (not real or shi % 4 == 0):
                    cases.append(("pow", "pow", fk, p, [A, [2, 3, 5, 4][(si + shi) % 4] if not real else 2 + shi % 2]))
    return cases


def det_trivial_cases(rng, fields):
    """every call form whose arguments are polynomials / scalars only, on ALL tuples of trivial operands (zero, constants,
    X, degree-1 non-monic, degree 3 monic / non-monic; scalars 0, 1, -1, c): the early-exit branches of every operation,
    in particular of the forms whose destination is one of the operands"""
    cases = []
    flds = [f for f in fields if f[1] < 2 ** 40]
    nz = lambda p: 1 + rng.below(p - 1)
    vi = 0
    for variant, op in sorted(VARIANTS.items()):
        sig = SIG[op]
        if variant in NEW_FORMS or variant in RANGE_FORMS or variant in ANCHOR_FORMS or variant.endswith(".Dzero") or variant.startswith("add.rps.Dzero") or set(sig) - set("PS"):
            continue
        if op in ("midmul", "val", "pow", "powmod"):
            continue
        vi += 1
        same = ALIAS_FORMS[variant][2] if variant in ALIAS_FORMS else []
        npoly = sig.count("P")
        tuples = [[]]
        for ch in sig:
            tuples = [t + [k] for t in tuples for k in range(7 if ch == "P" else 4)]
        if len(tuples) > 400:
            tuples = [t for i, t in enumerate(tuples) if (i + vi) % 3 == 0 or 0 in t or 1 in t]
        for ti, t in enumerate(tuples):
            fk, p = flds[(vi + ti) % len(flds)]
            c = nz(p) if p == 2 else 2 + rng.below(p - 2)
            polys = [[], [1], [c], [0, 1], [rng.below(p), c], [rng.below(p), rng.below(p), rng.below(p), 1], [rng.below(p), rng.below(p), rng.below(p), c]]
            scal = [0, 1, p - 1, c]
            a = [list(polys[k]) if ch == "P" else scal[k] for ch, k in zip(sig, t)]
            for i, j in same:
                a[i] = list(a[j])
            if op in ("div", "divmod", "divmodin", "mod", "modin", "pdivmod", "pmod") and not a[1]:
                continue
            if op == "gcdext" and not a[0] and not a[1]:
                continue
            if op in ("invmod", "invmodunit") and (len(a[1]) < 2 or not a[0] or len(pgcd(a[0], a[1], p)) != 1):
                continue
            if op == "div_s" and a[1] % p == 0:
                continue
            if op in ("div_sp", "mod_sp") and not a[1]:
                continue
            cases.append((variant, op, fk, p, a))
    return cases


Q_KINDS = ["constant term 0", "X^k", "c*X", "zero low block", "zero middle block", "all coefficients equal", "dense"]
R_KINDS = ["0", "full degree deg B - 1", "low degree", "zero low block"]
B_KINDS = ["monic", "non-monic", "X^k+1", "zero constant term", "X^k"]


def det_division_cases(rng, thr, fields):
    """A = B*Q + R from structured Q and R, deg A - deg B + 1 around powers of two and around the threshold, for every
    division form and the gcd family (through its first quotient), every field"""
    cases = []
    real = thr >= 10
    qsizes = [1, 2, 3, 4, 5, 7, 8, 9, 15, 16, 17, 31, 32, 33] + ([thr - 1, thr, thr + 1, thr + 2, 64, 65] if real else [6])
    bsizes = [2, 7, thr + 1, thr + 2, thr + 10] if real else [2, 3, 4, 6, 9]
    rot1 = ["div.rpq", "divin", "mod.rpq", "divmodin", "isDivisor", "div.alias1", "mod.alias2", "divmod.aliasRA", "divmod.aliasQB", "divmodin.aliasQB"]
    rot2 = ["pdivmod", "pmod", "pdivmod.aliasQA", "pmod.aliasRB"]
    rot3 = ["gcd.2", "gcd.5", "lcm", "invmod", "invmodunit", "gcd.5.aliasFA", "lcm.aliasB"]
    nz = lambda p: 1 + rng.below(p - 1)
    for fi, (fk, p) in enumerate(fields):
        bigp = p >= 2 ** 40
        for qi, nq in enumerate(qsizes):
            if bigp and nq not in (2, 5, 9):
                continue
            for qk in range(len(Q_KINDS)):
                if bigp and qk not in (0, 1, 4):
                    continue
                if real and qk in (2, 5) and (qi + fi) % 2:
                    continue
                rk = (qi + qk + fi) % 4
                bk = (qi + 2 * qk + fi) % 5
                nb = bsizes[(qi + qk) % 5] if not bigp else [2, 3, 4][(qi + qk) % 3]
                # ---- Q
                if qk == 1 or (qk == 2 and nq != 2 and qi % 2):
                    Q = [0] * (nq - 1) + [1]
                elif qk == 2 and nq == 2:
                    Q = [0, nz(p)]
                elif qk in (0, 2):
                    Q = [0] + [rng.below(p) for _ in range(nq - 2)] + [nz(p)] if nq > 1 else [nz(p)]
                elif qk == 3:
                    Q = shape_poly(rng, p, nq, 4)
                elif qk == 4:
                    Q = shape_poly(rng, p, nq, 6)
                elif qk == 5:
                    Q = shape_poly(rng, p, nq, 10)
                else:
                    Q = shape_poly(rng, p, nq, 12)
                # ---- B (nb coefficients, nb >= 2)
                if bk == 0:
                    B = [rng.below(p) for _ in range(nb - 1)] + [1]
                elif bk == 1:
                    B = [rng.below(p) for _ in range(nb - 1)] + [nz(p) if p == 2 else 2 + rng.below(p - 2)]
                elif bk == 2:
                    B = [1] + [0] * (nb - 2) + [1]
                elif bk == 3:
                    B = [0] + [rng.below(p) for _ in range(nb - 2)] + [nz(p)]
                else:
                    B = [0] * (nb - 1) + [1]
                # ---- R (fewer than nb - 1 + 1 coefficients)
                if rk == 0:
                    R = []
                elif rk == 1:
                    R = [rng.below(p) for _ in range(nb - 2)] + [nz(p)]
                elif rk == 2:
                    R = [nz(p)] if nb < 4 else [rng.below(p), nz(p)]
                else:
                    R = norm([0] * ((nb - 1) // 2) + [rng.below(p) for _ in range(nb - 2 - (nb - 1) // 2)] + [nz(p)])[:nb - 1]
                A = padd(pmul(B, Q, p), R, p)
                if not A:
                    continue
                k = qi + qk + fi
                cases.append(("divmod", "divmod", fk, p, [A, B]))
                cases.append(("modin", "modin", fk, p, [A, B]))
                v = rot1[k % len(rot1)]
                cases.append((v, VARIANTS[v], fk, p, [A, B]))
                if nq <= 17 or (k % 3 == 0 and not bigp):
                    v = rot2[k % len(rot2)]
                    cases.append((v, VARIANTS[v], fk, p, [A, B]))
                if (nb <= 9 or (qi + qk) % 4 == 0) and not bigp:
                    v = rot3[k % len(rot3)]
                    if VARIANTS[v] in ("invmod", "invmodunit") and len(pgcd(A, B, p)) != 1:
                        v = "gcd.5"
                    a = [A, B] if k % 2 == 0 or VARIANTS[v] in ("invmod", "invmodunit") else [B, A]
                    cases.append((v, VARIANTS[v], fk, p, a))
    return cases


# exponents across the word boundaries of every integer type an exponent may travel through
def boundary_exponents(rng):
    sparse = (1 << 128) + (1 << 64) + 1
    dense = rng.bits(150) | (1 << 149) | 1
    return [2 ** 31 - 1, 2 ** 31, 2 ** 32 - 1, 2 ** 32, 2 ** 32 + 1, 2 ** 63 - 1, 2 ** 63, 2 ** 63 + 1, 2 ** 64 - 1, 2 ** 64,
            2 ** 64 + 5, 101 ** 12 - 1, 2 ** 127, sparse, dense, (1 << 192) - 1]


def exponent_cases(rng, tier):
    """powmod / pow with exponents at 2^31, 2^32, 2^63, 2^64, multi-limb sparse and dense; moduli of degree <= 9 so that
    the ~130..200 squarings stay cheap for the extracted model"""
    cases = []
    fields = [("mi32", 2), ("mi32", 3), ("mi32", 7), ("mi32", 65521), ("mi64", 2147483647), ("md", 5), ("md", 67108859),
              ("mb32", 7), ("mb32", 32749), ("gfq", 7), ("gfq", 251), ("mI", 3)]
    reps = 1 if tier == "quick" else 6
    for _ in range(reps):
        for fk, p in fields:
            for e in boundary_exponents(rng):
                # multi-limb exponents: 130..200 squarings in the extracted model, so the modulus stays small there
                U = rand_poly(rng, p, rng.range(2, 10) if e < 1 << 64 else rng.range(2, 6), rng.choice([0, 0, 1, 3]))
                A = rand_poly(rng, p, rng.range(1, 10) if e < 1 << 64 else rng.range(1, 6), 0)
                if p > 2 and len(U) == 2 and rng.chance(1, 2):
                    U = rand_poly(rng, p, 3, 0)
                cases.append(("powmod", "powmod", fk, p, [A, e, U]))
                if e < 1 << 64 and rng.chance(1, 2):
                    cases.append(("powmod.u64", "powmod", fk, p, [A, e, U]))
                if e < 1 << 63 and rng.chance(1, 2):
                    cases.append(("powmod.i64", "powmod", fk, p, [A, e, U]))
                if e < 1 << 32 and rng.chance(1, 2):
                    cases.append(("powmod.u32", "powmod", fk, p, [A, e, U]))
        # multi-word coefficients: a few exponents, tiny modulus polynomial
        for e in [2 ** 63 - 1, 2 ** 63, 2 ** 64 + 5, 101 ** 12 - 1]:
            cases.append(("powmod", "powmod", "mI", P100, [rand_poly(rng, P100, 3, 0), e, rand_poly(rng, P100, 3, 0)]))
        # pow(W,P,uint64_t): constants only (the result of a non-constant P has degree e*deg P)
        for fk, p in fields:
            for e in [2 ** 31, 2 ** 32, 2 ** 32 + 1, 2 ** 63 - 1, 2 ** 63, 2 ** 64 - 1]:
                c0 = rng.choice([p - 1, 1 + rng.below(p - 1), 2 % p or 1])
                cases.append(("pow", "pow", fk, p, [[c0], e]))
            cases.append(("pow", "pow", fk, p, [[], 2 ** 63]))
    return cases


def tok_args(op, args):
    out = []
    for ch, x in zip(SIG[op], args):
        out.append(fmt_poly(x) if ch in "PL" else str(x))
    return " ".join(out)


def anchor_cases(rng, fields):
    """Poly1PadicDom::eval / radix over Modular<int32_t/int64_t/Integer> and NewtonInterpGeom over GFqDom, deterministic sizes"""
    cases = []
    for fk, p in fields:
        if fk in ("mi32", "mi64", "mI"):
            for n in (0, 1, 2, 3, 5, 8, 13):
                A = [rng.below(p) for _ in range(n)]
                if A:
                    A[-1] = 1 + rng.below(p - 1)
                cases.append(("padic.eval", "padic_eval", fk, p, [A]))
                if fk != "mI" and p ** max(n, 1) < 1 << 63:
                    cases.append(("padic.eval.u64", "padic_eval", fk, p, [list(A)]))
                E = sum(c * p ** i for i, c in enumerate(A))
                if E:
                    for nn in (0, n, n + 1, n + 4):
                        cases.append(("padic.radix", "padic_radix", fk, p, [E, nn]))
                    cases.append(("padic.radix", "padic_radix", fk, p, [p ** n, 0]))          # a power of p: digits 0,..,0,1
                    cases.append(("padic.radix", "padic_radix", fk, p, [p ** (n + 1) - 1, 0]))   # all digits p-1
        if fk == "gfq":
            for n in (1, 2, 3, 4, 5):
                if n > p - 2:
                    continue
                for d in (0, 1, n, n + 1):          # black box of degree < , = number of points - 1, and one more (the interpolant differs)
                    P = [rng.below(p) for _ in range(d)] + [1 + rng.below(p - 1)]
                    cases.append(("interpgeom", "interpgeom", fk, p, [P, n]))
    return cases


def powmod_e0_cases(rng, fields):
    """powmod with exponent 0 (and 1, 2, 5 for comparison) for moduli of degree 0 (the class of fix-12: every remainder modulo a
    non-zero constant is 0), 1 and 3, through every call form of powmod, every field, deterministically"""
    cases = []
    flds = [f for f in fields if f[1] < 2 ** 40]
    forms = sorted(v for v, o in VARIANTS.items() if o == "powmod" and v not in OPTIONAL_VARIANTS)
    for fi, (fk, p) in enumerate(flds):
        c = 1 + rng.below(p - 1)
        mods = [[c], [1], [c, 0], [rng.below(p), 1], [rng.below(p), rng.below(p), rng.below(p), c]]
        ops = [[], [1], [c], [rng.below(p), rng.below(p), c], [rng.below(p) for _ in range(5)] + [1]]
        for vi, v in enumerate(forms):
            for ui, U in enumerate(mods):
                for ai, A in enumerate(ops):
                    for e in (0, 1, 2, 5):
                        if e and (ui + ai + vi + fi) % 3:
                            continue                      # e = 0: every combination; the others: a third
                        cases.append((v, "powmod", fk, p, [list(A), e, list(U)]))
    return cases


def source_thresholds():
    txt = open(os.path.join(vf.REPO, "src/library/poly1/givpoly1kara.inl")).read()
    k = re.search(r"#define\s+KARA_THRESHOLD\s+(\d+)", txt)
    s = re.search(r"#define\s+SQR_THRESHOLD\s+(\d+)", txt)
    return (int(k.group(1)) if k else None, int(s.group(1)) if s else None)


def compile_probe(name, body):
    """does a call form instantiate at all?  (template members that cannot compile are defects of a public form)"""
    d = vf.mkdir(os.path.join(vf.BUILD, "c08-probe"))
    src = os.path.join(d, name + ".C")
    vf.write_if_changed(src, '#include "modular.h"\n#include "givpoly1.h"\nusing namespace Givaro;\n'
                        'typedef Poly1Dom<Modular<int32_t>,Dense> PD;\nvoid f(const PD& D, PD::Element& r, const PD::Element& a, int32_t s) { %s }\n' % body)
    rc, out = vf.sh([vf.CXX] + vf.BASE_FLAGS + vf.inc_flags() + ["-fsyntax-only", src], timeout=900)
    if rc != 0 and (rc == 124 or rc < 0 or rc > 128 or "error:" not in out or "internal compiler error" in out or "Killed" in out):
        return None, out        # time-out / killed / compiler trouble: tooling, not a statement about the call form
    return rc == 0, out


PROBES = [("maxpy_s", "D.maxpy(r, s, a, a);", "Poly1Dom::maxpy(Rep&,const Type_t&,const Rep&,const Rep&)", "C08_HAVE_MAXPY_S"),
          ("shift", "D.shift(r, a, 2);", "Poly1Dom::shift(Rep&,const Rep&,int)", "C08_HAVE_SHIFT")]


def build_all(fieldkeys_small, fieldkeys_real, have, extra_thr=None):
    """one binary per (threshold setting, field), compiled in parallel; returns {(tag, fieldkey): binary} and the logs of failures"""
    opt = ["-D" + f for f, ok in sorted(have.items()) if ok]
    jobs = [("t2", fk, ["-DKARA_THRESHOLD=2", "-DSQR_THRESHOLD=2"]) for fk in fieldkeys_small]
    jobs += [("real", fk, []) for fk in fieldkeys_real]
    if extra_thr:
        jobs += [(extra_thr[0], fk, extra_thr[1]) for fk in fieldkeys_small]
    # the library is built once, before the parallel part; the lock keeps the threads of this process from racing on
    # vf.build_repo_lib's per-process temporary directory should /repo change between the two calls
    import threading
    lock = threading.Lock()
    if not getattr(vf.build_repo_lib, "_c08_locked", False):
        orig = vf.build_repo_lib

        def locked(*a, **k):
            with lock:
                return orig(*a, **k)
        locked._c08_locked = True
        vf.build_repo_lib = locked
    vf.build_repo_lib()

    def one(job):
        tag, fk, flags = job
        b, log = vf.build_harness("c08_poly.C", extra_flags=flags + opt + ["-DC08_FIELD_" + fk], link_lib=True, name="c08_%s_%s" % (tag, fk))
        return (tag, fk), b, log
    bins, logs = {}, []
    with ThreadPoolExecutor(max_workers=min(8, len(jobs))) as ex:
        for key, b, log in ex.map(one, jobs):
            bins[key] = b
            if b is None:
                logs.append("%s: %s" % (key, log[-3000:]))
    return bins, logs


HANGS = [0]      # confirmed hangs seen so far in this run (all binaries)
INCONCLUSIVE = []  # tooling time-outs and slow answers: recorded in the evidence, never a verdict


KILLED = (-9, -15, 137, 143)      # SIGKILL / SIGTERM from outside (OOM killer, another agent's kill): tooling, not the library
# bounded cost of hang / crash handling, shared by every stream, binary and worker thread of the run
import threading
HLOCK = threading.Lock()
BANNED = set()                    # call forms (variants) not driven any more in this run: confirmed "does not return", or 4 crashes
FIRST_STAGE = [0]                 # first-stage CPU-budget overruns (5 s of CPU time per call) seen in this run: at most 6
CONFIRMED = [0]                   # confirmed "does not return" (the case alone, 20 s of CPU time): at most 3
CRASHES = {}                      # variant -> confirmed crashes
STOP = [False]                    # caps reached: nothing more is driven in this run (recorded as not run, never as a pass)


def run_binary(binary, lines, timeout=300):
    """run the implementation harness on the lines; the case a batch dies on is looked at ALONE before any verdict.
    * does not return: the harness has a per-case CPU-time watchdog (5 s of CPU time, load independent; exit code 97 and the line
      CPU-BUDGET-EXCEEDED).  The case is re-run alone with a budget of 20 s CPU: only if that is exceeded too is it a failing input
      of class `does-not-return`; its call form is then BANNED for the rest of the run (every stream, binary and thread).  At most 3
      confirmations and 6 first-stage overruns per run, then nothing more is driven (STOP).  Confirmations are serialised under a lock
      shared by all worker threads, so a hang costs one budget, not one per worker.
    * wall-clock time-out of a batch or of the single re-run (machine overloaded), or a process killed from outside (SIGKILL/SIGTERM:
      OOM killer): tooling -> the case is `inconclusive` (listed in the evidence, counted against the floor), never a violation.
    * crash of the process by its own fault (SIGSEGV, SIGABRT, ...): confirmed by the single re-run, then class `crash`; after 4
      confirmed crashes of a call form it is banned as well.
    returns (outputs or None for a lost case, [(index, verdict)], thr header)"""
    outs = [None] * len(lines)
    crashed = []
    hdr = None
    form = [l.split(None, 1)[0] if l.strip() else "" for l in lines]
    todo = list(range(len(lines)))

    def clean(o):
        return [l for l in o if not l.startswith("#") and l != "CPU-BUDGET-EXCEEDED"]
    while todo:
        keep = []
        for j in todo:
            if STOP[0]:
                crashed.append((j, "not-run-caps-of-hang-handling-reached"))
            elif form[j] in BANNED:
                crashed.append((j, "not-run-call-form-banned-after-does-not-return-or-crashes"))
            else:
                keep.append(j)
        todo = keep
        if not todo:
            break
        rc, o, err = vf.run_lines(binary, "".join(lines[j] for j in todo), timeout=timeout)
        h = [l for l in o if l.startswith("#thr")]
        if h:
            hdr = h[0]
        o = clean(o)                                    # lines are flushed one by one: every line in o is complete
        for j, l in zip(todo, o):
            outs[j] = l
        if rc == 0 and len(o) >= len(todo):
            break
        if len(o) >= len(todo):
            if rc == 124 or rc in KILLED:
                INCONCLUSIVE.append("harness ended with rc=%s after its last case" % rc)
            break
        k = todo[len(o)]
        todo = todo[len(o) + 1:]
        with HLOCK:                                      # one confirmation at a time in the whole run
            if rc == 97:
                FIRST_STAGE[0] += 1
            if STOP[0]:
                crashed.append((k, "not-run-caps-of-hang-handling-reached"))
            elif form[k] in BANNED:
                crashed.append((k, "not-run-call-form-banned-after-does-not-return-or-crashes"))
            elif rc == 97 and (CONFIRMED[0] >= 3 or FIRST_STAGE[0] > 6):
                STOP[0] = True
                crashed.append((k, "not-run-caps-of-hang-handling-reached"))
                INCONCLUSIVE.append("caps of the hang handling reached (%d confirmed, %d first-stage overruns): nothing more is driven in this run" % (CONFIRMED[0], FIRST_STAGE[0]))
            else:
                # the case the batch died on, alone: CPU budget 20 s (a hang) / 5 s (a crash), wall-clock 600 s
                rc1, o1, _ = vf.run_lines(binary, lines[k], timeout=600, args=("20",) if rc == 97 else ())
                o1c = clean(o1)
                if rc1 == 0 and len(o1c) == 1:
                    outs[k] = o1c[0]
                    if rc != 97:
                        INCONCLUSIVE.append("a batch ended with rc=%s; the case it was on answered when run alone: %s" % (rc, lines[k][:120].strip()))
                elif rc1 == 97:
                    crashed.append((k, "hang"))          # 20 s of CPU time for one call, alone
                    CONFIRMED[0] += 1
                    BANNED.add(form[k])
                elif rc1 == 124 or rc1 in KILLED:
                    crashed.append((k, "inconclusive:%s" % ("wall-clock time-out of the single re-run" if rc1 == 124 else "killed from outside (rc=%s)" % rc1)))
                else:
                    crashed.append((k, rc1))
                    CRASHES[form[k]] = CRASHES.get(form[k], 0) + 1
                    if CRASHES[form[k]] >= 4:
                        BANNED.add(form[k])
    return outs, crashed, hdr


def isolate(case):
    v, op, fk, p, a = case
    if op in ("add_s", "sub_s") and a[0] and not norm(a[0]):
        return True
    if op == "power_compose" and not norm(a[0]):
        return True
    return False


def run_model_parallel(drv, lines, nproc=10):
    """the cases are independent: deal them round-robin to nproc model processes"""
    if len(lines) < 200:
        nproc = 1
    chunks = [lines[k::nproc] for k in range(nproc)]

    def one(ch):
        return vf.run_lines(drv, "".join(ch), timeout=1500)
    with ThreadPoolExecutor(max_workers=nproc) as ex:
        res = list(ex.map(one, chunks))
    out = [None] * len(lines)
    err = ""
    rc = 0
    for k, (r, o, e) in enumerate(res):
        if r != 0 or len(o) != len(chunks[k]):
            rc = r or 1
            err += e
            continue
        out[k::nproc] = o
    if rc != 0:
        out = [x for x in out if x is not None]
    return rc, out, err


def model_line(case, kthr, sthr):
    return "%s %d %d %d %s%s\n" % (model_line_op(case[0], case[1]), case[3], kthr, sthr, tok_args(case[1], case[4]),
                                   " e0red" if (case[1] == "powmod" and E0RED[0]) else "")


def model_cost(case):
    """rough cost of a case for the extracted model (coefficient operations), used only to balance the model processes"""
    v, op, fk, p, a = case
    ls = sorted([len(x) for x in a if isinstance(x, list)], reverse=True) + [0, 0]
    n, m = ls[0] + 1, ls[1] + 1
    c = n * m
    if op in ("gcd", "gcdext", "lcm", "invmod", "invmodunit"):
        c += c * min(n, m) // 2
    elif op == "powmod":
        c += max(a[1], 1).bit_length() * (len(a[2]) + 1) ** 2 * 4
    elif op == "pow":
        c = (n * max(1, min(a[1], 64))) ** 2
    elif op in ("div", "divmod", "divmodin", "mod", "isDivisor", "invmodpowx", "interpolate", "crt_toring"):
        c *= 4
    if p >= 2 ** 40:
        c *= 40
    return c + 5


MODEL_PRE = {}      # stream label -> model outputs aligned with the stream's modelled cases (filled by precompute_models)


def precompute_models(drv, streams, nproc=12):
    """all modelled cases of all streams in ONE balanced batch (longest-processing-time-first over nproc driver processes): the
    per-stream batches left most processes idle while one finished a heavy case.  A chunk that fails only costs the streams
    that had lines in it: they fall back to running the model on their own in run_stream."""
    import heapq
    items = []
    for si, (label, tag, cases, k, s2) in enumerate(streams):
        pos = 0
        for c in cases:
            if c[1] not in NO_MODEL:
                items.append((model_cost(c), si, pos, model_line(c, k, s2)))
                pos += 1
        MODEL_PRE[label] = [None] * pos
    if not drv or not items:
        MODEL_PRE.clear()
        return
    # dynamic distribution: the (estimated) heaviest cases first, every driver process pulls the next small batch when it is done
    import subprocess, threading, time
    items.sort(key=lambda t: -t[0])
    total = sum(t[0] for t in items)
    target = max(1, total // (nproc * 60))
    lock = threading.Lock()
    nxt = [0]
    out = [None] * len(items)
    failed = [False]
    deadline = time.time() + 1500
    procs = []

    def take():
        with lock:
            i = nxt[0]
            if i >= len(items):
                return None
            j, c = i, 0
            while j < len(items) and j - i < 200 and (j == i or c + items[j][0] <= target):
                c += items[j][0]
                j += 1
            nxt[0] = j
            return i, j

    def work(_k):
        try:
            pr = subprocess.Popen([drv], stdin=subprocess.PIPE, stdout=subprocess.PIPE, stderr=subprocess.DEVNULL, universal_newlines=True, bufsize=1 << 16)
        except OSError:
            failed[0] = True
            return
        procs.append(pr)
        try:
            while not failed[0]:
                r = take()
                if r is None:
                    break
                i, j = r
                pr.stdin.write("".join(items[t][3] for t in range(i, j)))
                pr.stdin.flush()
                for t in range(i, j):
                    line = pr.stdout.readline()
                    if not line:
                        failed[0] = True
                        return
                    out[t] = line.rstrip("\n")
            pr.stdin.close()
            pr.wait(timeout=60)
        except Exception:
            failed[0] = True

    threads = [threading.Thread(target=work, args=(k,), daemon=True) for k in range(nproc)]
    for t in threads:
        t.start()
    for t in threads:
        t.join(max(1.0, deadline - time.time()))
    timed_out = any(t.is_alive() for t in threads)
    if timed_out:
        failed[0] = True
    for pr in procs:
        try:
            if pr.poll() is None:
                pr.kill()
        except OSError:
            pass
    if timed_out:
        INCONCLUSIVE.append("extracted-model driver: the batch of all streams timed out (1500 s); streams without a complete model answer run it on their own")
    for t, line in zip(items, out):
        if line is not None:
            MODEL_PRE[streams[t[1]][0]][t[2]] = line
    for label in list(MODEL_PRE):
        if any(x is None for x in MODEL_PRE[label]):
            MODEL_PRE.pop(label)


def run_stream(chk, label, bins, tag, drv, cases, kthr, sthr, stats):
    """run implementation (one binary per field) and model on the cases, three-way compare"""
    if not cases:
        return
    import time
    t0 = time.time()
    iout = [None] * len(cases)
    crashed_all = []
    byfield = {}
    for i, c in enumerate(cases):
        byfield.setdefault(c[2], []).append(i)

    def run_field(fk):
        idx = byfield[fk]
        b = bins.get((tag, fk))
        if b is None:
            return fk, None, [], None
        lines = ["%s %s %d %d %d %s\n" % (cases[i][0], fk, cases[i][3], kthr, sthr, tok_args(cases[i][1], cases[i][4])) for i in idx]
        # cases on which the unrepaired code has undefined behaviour (out-of-bounds write) run in a process of their own,
        # so that a corrupted heap cannot falsify the verdict of a later case
        iso = [j for j, i in enumerate(idx) if isolate(cases[i])]
        rest = [j for j in range(len(idx)) if j not in set(iso)]
        outs = [None] * len(idx)
        crashed = []
        o2, cr2, hdr = run_binary(b, [lines[j] for j in rest])
        for k, j in enumerate(rest):
            outs[j] = o2[k]
        crashed += [(rest[k], rc) for k, rc in cr2]
        for j in iso:
            o1, cr1, _ = run_binary(b, [lines[j]], timeout=300)
            outs[j] = o1[0]
            crashed += [(j, rc) for _, rc in cr1]
        return fk, outs, crashed, hdr
    with ThreadPoolExecutor(max_workers=6) as ex:
        for fk, outs, crashed, hdr in ex.map(run_field, sorted(byfield)):
            if outs is None:
                chk.broke("%s: no implementation harness for field %s with thresholds %d/%d" % (label, fk, kthr, sthr))
                crashed_all += [(i, "not-run-no-binary") for i in byfield[fk]]
                continue
            if hdr:
                t = hdr.split()
                if (int(t[1]), int(t[2])) != (kthr, sthr):
                    chk.broke("%s: harness compiled with thresholds %s, model run with (%d,%d)" % (label, t[1:], kthr, sthr))
            for j, i in enumerate(byfield[fk]):
                iout[i] = outs[j]
            for j, rc in crashed:
                crashed_all.append((byfield[fk][j], rc))
    t1 = time.time()
    # model
    mout = None
    midx = [i for i, c in enumerate(cases) if c[1] not in NO_MODEL]
    pre = MODEL_PRE.get(label)
    if drv and midx and pre is not None and len(pre) == len(midx) and all(x is not None for x in pre):
        mout = dict(zip(midx, pre))
    elif drv and midx:
        lines_m = [model_line(cases[i], kthr, sthr) for i in midx]
        rc, mo, merr = run_model_parallel(drv, lines_m)
        if rc == 124:
            # a time-out of our own tooling (1500 s) is not a verdict about the property: oracle only for this stream
            INCONCLUSIVE.append("%s: extracted-model driver timed out; %d cases judged by the oracle only" % (label, len(midx)))
        elif rc != 0 or len(mo) != len(midx):
            chk.broke("%s: model driver failed (rc=%s, %d/%d lines)" % (label, rc, len(mo), len(midx)), merr)
        else:
            mout = dict(zip(midx, mo))
    t2 = time.time()
    crashed_set = dict(crashed_all)
    for i, (v, op, fk, p, a) in enumerate(cases):
        key = (v, fk, p, tok_args(op, a))
        nontrivial = sum(len(norm(x)) for x in a if isinstance(x, list)) >= 2
        chk.count(key, nontrivial)
        stats["by_op"][op] = stats["by_op"].get(op, 0) + 1
        stats["by_variant"][v] = stats["by_variant"].get(v, 0) + 1
        bs = stats["by_stream"].setdefault(label, {})
        fkey = "%s p=%s" % (fk, p if p < 2 ** 40 else "2^100+277")
        bs[fkey] = bs.get(fkey, 0) + 1
        fn = "%s p=%d" % (FIELD_NAMES[fk], p) if p < 2 ** 40 else "%s p=2^100+277" % FIELD_NAMES[fk]
        stats["by_field"][fn] = stats["by_field"].get(fn, 0) + 1
        mx = max([len(x) for x in a if isinstance(x, list)] + [0])
        b = "0" if mx == 0 else "1" if mx == 1 else "2-8" if mx <= 8 else "9-47" if mx <= 47 else "48-53" if mx <= 53 else "54-199" if mx <= 199 else ">=200"
        stats["by_size"][b] = stats["by_size"].get(b, 0) + 1
        case = {"variant": v, "op": op, "field": fk, "p": p, "kthr": kthr, "sthr": sthr, "args": tok_args(op, a), "stream": label}
        inputs_normal = all((not x) or x[-1] % p != 0 for ch, x in zip(SIG[op], a) if ch == "P")
        if str(crashed_set.get(i, "")).startswith("not-run"):
            stats["not_run"] += 1
            continue
        if str(crashed_set.get(i, "")).startswith("inconclusive"):
            stats["inconclusive_cases"] += 1
            INCONCLUSIVE.append("%s %s: %s" % (label, crashed_set[i], tok_args(op, a)[:100]))
            continue
        if i in crashed_set or iout[i] is None:
            if iout[i] is None and i not in crashed_set:
                stats["inconclusive_cases"] += 1      # no answer and no verdict (e.g. no binary): tooling
                continue
            klass = "does-not-return" if crashed_set.get(i) == "hang" else "crash"
            if op == "power_compose" and not norm(a[0]):
                klass = "zero-polynomial"
            if op in ("add_s", "sub_s") and a[0] and not norm(a[0]):
                klass = "unnormalised-zero-operand"
            chk.fail_input("Poly1Dom::" + op, klass, case, "a result",
                           "does not return within 20 s of CPU time when run alone (5 s in its batch)" if klass == "does-not-return" else "no answer (%s)" % crashed_set.get(i, "?"),
                           "the implementation harness died or did not return on this case, also when the case was run alone")
            continue
        if i % 211 == 0:
            chk.sample({"stream": label, "variant": v, "field": FIELD_NAMES[fk], "p": p, "args": tok_args(op, a)[:300], "impl": iout[i][:300]}, limit=16)
        out = iout[i].split()
        try:
            ok, exp, klass = spec_check(op, p, a, out)
        except Exception as ex:      # malformed output
            ok, exp, klass = False, "well-formed output", "malformed:" + type(ex).__name__
        if not ok:
            chk.fail_input("Poly1Dom::" + op, klass, case, exp, iout[i][:2000], "implementation differs from the schoolbook specification mod p")
            continue      # a failing input is reported once; no correspondence verdict for the same case
        try:
            nf = normal_check(op, out)
        except Exception:
            nf = True
        if not nf:
            if inputs_normal:
                # the property: results are normalised.  STRICT_NORMAL = operations that always ended in setdegree;
                # the others (add/sub/scalar/fused forms, diff, ...) normalised lazily before fix-10/fix-11
                chk.fail_input("Poly1Dom::" + op, "leading-zero-in-result" if op in STRICT_NORMAL else "unnormalised-result", case,
                               "normal form (no leading zero coefficient)", iout[i][:2000],
                               "operands in normal form, value correct, but the result vector carries leading zero coefficients")
                continue
            stats["lazy_unnormalised"][op] = stats["lazy_unnormalised"].get(op, 0) + 1
        # (no known-finding shortcut: every repair is in /repo, the model describes the code as it is NOW and the comparison is
        #  unconditional; a listed finding only relabels a FAILING input in vf.finish, it never switches the correspondence off)
        sc = stats["per_stream"].setdefault(label, {"cases": 0, "oracle_compared": 0, "modelled": 0, "model_compared": 0})
        sc["oracle_compared"] += 1
        if op not in NO_MODEL:
            sc["modelled"] += 1
        if mout is not None and i in mout:
            stats["corr"] += 1
            sc["model_compared"] += 1
            if mout[i].split() != out:
                chk.broke("correspondence model/implementation differs [%s] %s %s p=%d kthr=%d sthr=%d args=%s: model=%s impl=%s"
                          % (label, v, fk, p, kthr, sthr, tok_args(op, a)[:1500], mout[i][:1500], iout[i][:1500]))
        elif op in NO_MODEL:
            stats["oracle_only"] += 1
    stats["per_stream"].setdefault(label, {"cases": 0, "oracle_compared": 0, "modelled": 0, "model_compared": 0})["cases"] += len(cases)
    vf.log("C08 %s: %d cases, impl %.1fs, model %.1fs, oracle %.1fs" % (label, len(cases), t1 - t0, t2 - t1, time.time() - t2))


def main(tier, replay=None):
    chk = vf.Check("C08", tier, "proof")
    rng = vf.Rng(chk.seed)
    kth, sth = source_thresholds()
    E0RED[0] = source_powmod_e0red()
    chk.cov["trusted_base"] = [
        "Coq 8.16.1 kernel",
        "extraction: ExtrOcamlBasic only; Z/positive/nat kept as extracted inductives; OCaml 4.13.1; zarith only for text I/O in harness/zio.ml",
        "the coefficient domain is a record of operations; theorems assume the field laws stated in coq/C08/Spec.v (FieldOK) with Leibniz equality and "
        "a zero test that decides equality with 0; the coefficient rings themselves are the subject of C03/C05, here their operations are "
        "modelled by Z arithmetic mod p (ZpDom in Model.v)",
        "harness/c08_poly.C, checks/C08.py (case generator, python schoolbook oracle)",
        "g++ / x86-64 for the implementation side; -DKARA_THRESHOLD/-DSQR_THRESHOLD override the #ifndef defaults of givpoly1kara.inl",
    ]
    chk.assumptions = ["model is hand-written after src/library/poly1/*.inl; tie = correspondence on generated cases over prime fields in six "
                       "coefficient-domain implementations; extension fields GF(p^k), k>1, and QField are not run",
                       "KARA_THRESHOLD/SQR_THRESHOLD read from givpoly1kara.inl = %s/%s and passed to the model; second harness forced to 2/2" % (kth, sth),
                       "powmod's exponent-0 initialisation read from givpoly1misc.inl = %s and passed to the model (parameter e0red)"
                       % {True: "mod(W,one,U)", False: "assign(W,one)", None: "UNREADABLE"}[E0RED[0]],
                       "oracle only (no Gallina model): init(P,scalar), init(P,{list}), isOne/isMOne/isUnit, the public newtoninviter, Poly1CRT accessors"]
    # 1. proofs (the extraction output is git-ignored: if it is missing while Extract.vo exists, force the extraction to run again)
    if not os.path.exists(os.path.join(vf.coq_dir(AREA), "ocaml", "model.ml")):
        for ext in (".vo", ".vos", ".vok", ".glob"):
            try:
                os.remove(os.path.join(vf.coq_dir(AREA), "Extract" + ext))
            except OSError:
                pass
    res = vf.coq_check_props(AREA)
    chk.proof_result(res, AREA)
    # 2. executables
    drv, l1 = vf.ocaml_build(AREA) if os.path.exists(os.path.join(vf.coq_dir(AREA), "ocaml", "model.ml")) else (None, "extraction did not run")
    if drv is None:
        chk.broke("extracted model driver does not build", l1)
    if kth is None or sth is None:
        chk.broke("cannot read KARA_THRESHOLD / SQR_THRESHOLD from givpoly1kara.inl")
        kth, sth = kth or 50, sth or 50
    if E0RED[0] is None:
        chk.broke("cannot read the initialisation of W in Poly1Dom::powmod from givpoly1misc.inl (expected `mod(W, one, U)` or `assign(W,one)`)")
        E0RED[0] = True
    stats = {"by_stream": {}, "by_op": {}, "by_variant": {}, "by_field": {}, "by_size": {}, "corr": 0, "lazy_unnormalised": {}, "oracle_only": 0,
             "in_known_defect_class_oracle_only": 0, "not_run": 0, "inconclusive_cases": 0, "per_stream": {},
             "known_classes": set((k.get("site"), k.get("klass")) for k in vf.load_known()
                                  if k.get("property") == "C08" and k.get("status") == "known")}
    # 3. call forms that must at least instantiate
    have = {}
    for nm, body, site, flag in PROBES:
        ok, out = compile_probe(nm, body)
        chk.count(("compile", nm), True)
        have[flag] = bool(ok)
        if ok is None:
            PROBE_INCONCLUSIVE.append((nm, "g++ -fsyntax-only did not finish normally"))
            INCONCLUSIVE.append("compile probe %s: %s" % (nm, out[-200:]))
        elif not ok:
            chk.fail_input(site, "does-not-compile", {"probe": body}, "the call form instantiates", out[-600:])
    small_keys = sorted(set(k for k, _ in FIELDS_SMALLTHR))
    real_keys = sorted(set(k for k, _ in FIELDS_REAL))
    bins, blogs = build_all(small_keys, real_keys, have, ("t13", ["-DKARA_THRESHOLD=1", "-DSQR_THRESHOLD=3"]) if tier != "quick" else None)
    if blogs:
        chk.broke("implementation harness does not compile against /repo", "\n".join(blogs))
        return chk.finish()
    # 4. cases
    if replay:
        rp = json.load(open(replay))
        for f in rp.get("failing_inputs", []):
            c = f.get("case", {})
            if "variant" in c:
                op = c["op"]
                toks = c["args"].split()
                a = [parse_poly(t) if ch in "PL" else int(t) for ch, t in zip(SIG[op], toks)]
                k, s = c.get("kthr", kth), c.get("sthr", sth)
                tag = "real" if (k, s) == (kth, sth) else "t2" if (k, s) == (2, 2) else "t13"
                run_stream(chk, "replay", bins, tag, drv, [(c["variant"], op, c.get("field", "mi32"), c["p"], a)], k, s, stats)
    else:
        per = 24 if tier == "quick" else 150
        S = []       # (label, binary tag, cases, kthr, sthr)
        S.append(("thr2", "t2", gen_cases(rng, tier, 2, False, per, FIELDS_SMALLTHR, have), 2, 2))
        S.append(("real", "real", gen_cases(rng, tier, kth, True, per, FIELDS_REAL, have), kth, sth))
        S.append(("exponent-boundaries", "t2", exponent_cases(rng, tier), 2, 2))
        S.append(("structured thr2", "t2", structured_cases(rng, tier, 2, FIELDS_SMALLTHR), 2, 2))
        S.append(("structured real", "real", structured_cases(rng, tier, kth, FIELDS_REAL), kth, sth))
        S.append(("range-helpers thr2", "t2", range_cases(rng, 2, FIELDS_SMALLTHR, False), 2, 2))
        S.append(("range-helpers real", "real", range_cases(rng, kth, FIELDS_REAL, True), kth, sth))
        S.append(("det-products thr2", "t2", det_product_cases(rng, 2, FIELDS_SMALLTHR), 2, 2))
        S.append(("det-products real", "real", det_product_cases(rng, kth, FIELDS_REAL), kth, sth))
        S.append(("det-division thr2", "t2", det_division_cases(rng, 2, FIELDS_SMALLTHR), 2, 2))
        S.append(("det-division real", "real", det_division_cases(rng, kth, FIELDS_REAL), kth, sth))
        S.append(("det-trivial-operands", "t2", det_trivial_cases(rng, FIELDS_SMALLTHR), 2, 2))
        S.append(("anchors padic/interpgeom", "t2", anchor_cases(rng, FIELDS_SMALLTHR), 2, 2))
        S.append(("powmod-exponent-0", "t2", powmod_e0_cases(rng, FIELDS_SMALLTHR), 2, 2))      # the class of fix-12, on every run
        S.append(("unnormalised-operands", "t2", unnormalised_cases(rng, 6 if tier == "quick" else 60, FIELDS_SMALLTHR), 2, 2))
        exv = ["mul.rpq", "karamul", "sqr", "divmod", "modin", "gcd.2", "gcd.5", "sub.rpq", "add.rpq", "lcm", "invmod", "pdivmod", "pmod"]
        if tier == "quick":
            S.append(("exhaustive GF(2) deg<=3", "t2", exhaustive_cases("mi32", 2, 3, exv), 2, 2))
            S.append(("exhaustive GF(3) deg<=2", "t2", exhaustive_cases("mi32", 3, 2, exv), 2, 2))
            chk.cov["exhaustive_spaces"] = ["GF(2) deg<=3 pairs", "GF(3) deg<=2 pairs"]
        else:
            S.append(("exhaustive GF(2) deg<=6", "t2", exhaustive_cases("mi32", 2, 6, exv), 2, 2))
            S.append(("exhaustive GF(3) deg<=4", "t2", exhaustive_cases("mi32", 3, 4, exv), 2, 2))
            S.append(("exhaustive GF(3) deg<=3 Zech", "t2", exhaustive_cases("gfq", 3, 3, exv), 2, 2))
            S.append(("exhaustive GF(2) deg<=5 thr 1/3", "t13", exhaustive_cases("mi32", 2, 5, exv), 1, 3))
            S.append(("thr13", "t13", gen_cases(rng, tier, 3, False, per, FIELDS_SMALLTHR, have), 1, 3))
            chk.cov["exhaustive_spaces"] = ["GF(2) deg<=6 pairs", "GF(3) deg<=4 pairs", "GF(3) deg<=3 pairs (Zech)", "GF(2) deg<=5 pairs (thr 1/3)"]
        import time
        tm = time.time()
        precompute_models(drv, S)
        vf.log("C08 extracted model: %d streams in one balanced batch, %.1fs" % (len(S), time.time() - tm))
        for label, tag, cases, k, s2 in S:
            run_stream(chk, label, bins, tag, drv, cases, k, s2, stats)
    if len(chk.broken) > 20:
        chk.broken = chk.broken[:20] + [{"what": "... %d more" % (len(chk.broken) - 20), "detail": ""}]
    chk.cov["rule"] = ("every call form (variant) x coefficient domain {Modular<int32_t> p=2,3,7,65521; Modular<int64_t> p=2^31-1; Modular<double> p=5,2^26-5; "
                       "Modular<Integer> p=3,2^100+277; ModularBalanced<int32_t> p=7,32749; GFqDom<int32_t>(p,1) p=7,251} x shapes {dense, sparse, monomial, "
                       "all-ones, zero low half, zero constant term} x sizes {0,1,2,.., thr-1..thr+2, 2thr.., 48..53, 63..65, 99..105, 127..129, ~200, ~300}, "
                       "equal degree, degree difference around powers of two, divisor of degree 0, common factor, exact multiple; powmod/pow exponents at 2^31, 2^32, 2^63, 2^64, "
                       "101^12-1, multi-limb sparse/dense (modulus degree <= 9) through the Integer/uint64_t/int64_t/uint32_t overloads; operands with leading "
                       "zeros; exhaustive small pairs over GF(2), GF(3); non-trivial = operands have together >= 2 non-zero-stripped coefficients; "
                       "distinct = (variant,field,p,operands)")
    chk.cov["traces_validated_against_impl"] = stats["corr"]
    chk.cov["cases_judged_by_oracle_only_no_model"] = stats["oracle_only"]
    chk.cov["cases_in_a_known_defect_class_judged_by_oracle_only"] = stats["in_known_defect_class_oracle_only"]
    if stats["not_run"]:
        chk.broke("%d cases were not run: call forms banned after a confirmed does-not-return / 4 crashes (%s)%s" % (
            stats["not_run"], ", ".join(sorted(BANNED)) or "-", "; caps of the hang handling reached, run stopped" if STOP[0] else ""))
    chk.cov["hang_handling"] = {"first_stage_cpu_s": 5, "confirmation_cpu_s": 20, "first_stage_overruns": FIRST_STAGE[0], "confirmed_does_not_return": CONFIRMED[0],
                                "call_forms_banned": sorted(BANNED), "stopped": STOP[0], "caps": "3 confirmations, 6 first-stage overruns per run, 4 crashes per form"}
    chk.cov["variants"] = len(VARIANTS)
    chk.cov["thresholds_from_source"] = [kth, sth]
    chk.cov["powmod_exponent0_initialisation_from_source"] = "mod(W,one,U)" if E0RED[0] else "assign(W,one)"
    chk.cov["distribution_by_op"] = stats["by_op"]
    chk.cov["distribution_by_variant"] = stats["by_variant"]
    chk.cov["call_forms"] = dict(sorted(stats["by_variant"].items()))
    chk.cov["call_forms_not_driven"] = CALL_FORMS_NOT_DRIVEN + ["%s: does not instantiate (compile probe)" % v for v, f in sorted(OPTIONAL_VARIANTS.items()) if not have.get(f)]
    chk.cov["call_forms_declared_but_zero_cases"] = sorted(v for v in VARIANTS if v not in stats["by_variant"] and not (v in OPTIONAL_VARIANTS and not have.get(OPTIONAL_VARIANTS[v])))
    chk.cov["cases_by_stream_and_field"] = stats["by_stream"]
    chk.cov["deterministic_classes"] = {"shapes": SHAPES, "pads_of_range_helpers": PADS, "quotient_kinds": Q_KINDS, "remainder_kinds": R_KINDS,
                                        "divisor_kinds": B_KINDS, "sizes_thr2": det_sizes(2), "sizes_real": det_sizes(kth)}
    # FLOOR on what was actually compared: a stream whose oracle / model comparisons fall below 95 % of its cases because of tooling
    # problems (time-outs, killed processes, model driver failure) is NOT a pass of that stream: it is listed here and announced
    floor_missed = []
    for label, sc in sorted(stats["per_stream"].items()):
        if sc["cases"] and not chk.failing and sc["oracle_compared"] < 0.95 * sc["cases"]:
            floor_missed.append("%s: only %d of %d cases compared with the oracle" % (label, sc["oracle_compared"], sc["cases"]))
        if sc["modelled"] and sc["model_compared"] < 0.95 * sc["modelled"]:
            floor_missed.append("%s: only %d of %d modelled cases compared with the extracted model" % (label, sc["model_compared"], sc["modelled"]))
    if not replay and len(res.get("theorems", [])) < EXPECTED_THEOREMS:
        floor_missed.append("only %d of %d theorems of Properties.v were re-checked" % (len(res.get("theorems", [])), EXPECTED_THEOREMS))
    for nm, why in PROBE_INCONCLUSIVE:
        floor_missed.append("compile probe %s inconclusive (%s): its call form was not driven" % (nm, why))
    chk.cov["floor_missed"] = floor_missed
    chk.cov["comparisons_per_stream"] = stats["per_stream"]
    chk.cov["inconclusive_cases"] = stats["inconclusive_cases"]
    chk.cov["theorems_rechecked"] = len(res.get("theorems", []))
    if floor_missed or stats["inconclusive_cases"]:
        print("INCONCLUSIVE property=C08 (tooling, not a verdict about the library): " + "; ".join(floor_missed[:6] + (["%d cases without an answer" % stats["inconclusive_cases"]] if stats["inconclusive_cases"] else [])))
    chk.cov["inconclusive"] = INCONCLUSIVE[:40]
    chk.cov["operations_without_model_oracle_only"] = sorted(NO_MODEL)
    chk.cov["distribution_by_field"] = stats["by_field"]
    chk.cov["distribution_by_max_operand_size"] = stats["by_size"]
    chk.cov["results_with_leading_zeros_for_operands_with_leading_zeros"] = stats["lazy_unnormalised"]
    return chk.finish()
