# C08 -- univariate polynomial arithmetic (Poly1Dom<Domain,Dense>) satisfies its defining identities.
# proof:  coq/C08 (list model written after src/library/poly1/*.inl; theorems over any field_theory)
# tie:    correspondence: extracted model instantiated at Z/pZ  vs  Poly1Dom<Modular<int32_t>,Dense> compiled from
#         /repo's current headers, once with the real thresholds and once with -DKARA_THRESHOLD=2 -DSQR_THRESHOLD=2
# search: independent python schoolbook arithmetic mod p (values and defining identities)
import json, os, re, sys
import vf

AREA = "C08"
PRIMES = [2, 3, 7, 65521]

# variant (call form of the implementation) -> model operation; arguments are given in the model's order
VARIANTS = {
    "setdegree": "setdegree", "setDegree": "setdegree", "degree.d": "degree", "degree.v": "degree",
    "leadcoef": "leadcoef", "isZero": "isZero", "areEqual": "areEqual", "areNEqual": "areEqual",
    "assign": "assign", "monomial": "monomial", "monomial.init": "monomial",
    "eval": "eval", "diff": "diff", "reverse": "reverse", "reversein": "reverse",
    "add.rpq": "add", "add.alias": "add", "addin": "add", "add.rps": "add_s", "add.rsp": "add_s", "addin.s": "addin_s",
    "sub.rpq": "sub", "subin": "subin", "sub.rps": "sub_s", "sub.rsp": "s_sub", "subin.s": "subin_s",
    "neg": "neg", "negin": "neg",
    "mul.rpq": "mul", "mul.empty": "mul", "mulin": "mulin", "stdmul": "stdmul", "karamul": "karamul",
    "mul.rps": "mul_s", "mul.rsp": "mul_s", "mulin.s": "mul_s", "sqr": "sqr",
    "div.rps": "div_s", "divin.s": "div_s", "invmodpowx": "invmodpowx",
    "div.rpq": "div", "divin": "div", "divmod": "divmod", "divmodin": "divmodin", "mod.rpq": "mod", "modin": "modin",
    "pdivmod": "pdivmod", "pmod": "pmod",
    "gcd.2": "gcd", "gcd.5": "gcdext", "invmod": "invmod", "invmodunit": "invmodunit", "lcm": "lcm",
    "pow": "pow", "powmod": "powmod", "powmod.u64": "powmod",
    "axpy": "axpy", "axpy.s": "axpy_s", "axpyin": "axpyin", "axpyin.s": "axpy_s",
    "maxpy": "maxpy", "maxpyin": "maxpyin", "maxpyin.s": "maxpyin_s",
    "axmy": "axmy", "axmy.s": "axmy_s", "axmyin": "axmyin", "axmyin.s": "axmyin_s",
}
# argument kinds of each model operation: P polynomial, S scalar (field element), N natural number
SIG = {
    "setdegree": "P", "degree": "P", "leadcoef": "P", "isZero": "P", "areEqual": "PP", "assign": "P", "monomial": "NS",
    "eval": "PS", "diff": "P", "reverse": "P", "add": "PP", "neg": "P", "sub": "PP", "subin": "PP",
    "add_s": "PS", "addin_s": "PS", "sub_s": "PS", "subin_s": "PS", "s_sub": "SP", "mul_s": "PS", "div_s": "PS",
    "mul": "PP", "stdmul": "PP", "karamul": "PP", "mulin": "PP", "sqr": "P", "invmodpowx": "PN",
    "div": "PP", "divmod": "PP", "divmodin": "PP", "mod": "PP", "modin": "PP", "pdivmod": "PP", "pmod": "PP",
    "gcd": "PP", "gcdext": "PP", "invmod": "PP", "invmodunit": "PP", "lcm": "PP", "pow": "PN", "powmod": "PNP",
    "axpy": "PPP", "axpy_s": "SPP", "axpyin": "PPP", "maxpy": "PPP", "maxpyin": "PPP", "maxpyin_s": "PSP",
    "axmy": "PPP", "axmy_s": "SPP", "axmyin": "PPP", "axmyin_s": "PSP",
}
# operations whose C++ body ends in setdegree / assign: the raw result vector must carry no leading zero.
# The others normalise lazily (degree(), isZero(), areEqual(), assign() strip on read): a leading zero in their
# raw result is reported under site "Poly1Dom::<op>" class "unnormalised-result" (known finding, see frag/C08.findings.json)
STRICT_NORMAL = {"setdegree", "assign", "monomial", "reverse", "subin", "div_s", "mul", "stdmul", "karamul", "mulin",
                 "div", "modin", "gcd", "gcdext", "invmod", "invmodunit", "lcm", "pow", "powmod", "invmodpowx",
                 "maxpyin", "maxpyin_s", "axmy", "axmy_s", "pdivmod", "pmod"}


# ------------------------------------------------------------------ python specification (schoolbook, mod p)
def norm(P):
    P = list(P)
    while P and P[-1] == 0:
        P.pop()
    return P


def padd(P, Q, p):
    n = max(len(P), len(Q))
    return norm([((P[i] if i < len(P) else 0) + (Q[i] if i < len(Q) else 0)) % p for i in range(n)])


def pneg(P, p):
    return norm([(-c) % p for c in P])


def psub(P, Q, p):
    return padd(P, pneg(Q, p), p)


def pscale(P, c, p):
    return norm([(a * c) % p for a in P])


def pmul(P, Q, p):
    P, Q = norm(P), norm(Q)
    if not P or not Q:
        return []
    R = [0] * (len(P) + len(Q) - 1)
    for i, a in enumerate(P):
        if a:
            for j, b in enumerate(Q):
                R[i + j] += a * b
    return norm([c % p for c in R])


def inv(a, p):
    return pow(a % p, p - 2, p) if p > 2 else a % p


def pdivmod(A, B, p):
    A, B = norm([c % p for c in A]), norm([c % p for c in B])
    assert B
    R = list(A)
    db = len(B) - 1
    il = inv(B[-1], p)
    Q = [0] * max(0, len(A) - db)
    for k in range(len(A) - 1 - db, -1, -1):
        c = (R[k + db] * il) % p
        Q[k] = c
        if c:
            for j in range(db + 1):
                R[k + j] = (R[k + j] - c * B[j]) % p
    return norm(Q), norm(R)


def monic(P, p):
    P = norm(P)
    return pscale(P, inv(P[-1], p), p) if P else []


def pgcd(A, B, p):
    A, B = norm([c % p for c in A]), norm([c % p for c in B])
    while B:
        A, B = B, pdivmod(A, B, p)[1]
    return monic(A, p)


def ppow(P, n, p, U=None):
    R = [1 % p] if p > 1 else []
    R = norm(R)
    B = norm([c % p for c in P])
    if U is not None:
        B = pdivmod(B, U, p)[1]
        R = pdivmod(R, U, p)[1]
    while n:
        if n & 1:
            R = pmul(R, B, p)
            if U is not None:
                R = pdivmod(R, U, p)[1]
        n >>= 1
        if n:
            B = pmul(B, B, p)
            if U is not None:
                B = pdivmod(B, U, p)[1]
    return R


def peval(P, v, p):
    r = 0
    for c in reversed(P):
        r = (r * v + c) % p
    return r


def parse_poly(tok):
    return [] if tok == "-" else [int(x) for x in tok.split(",")]


def fmt_poly(P):
    return "-" if not P else ",".join(str(c) for c in P)


def spec_check(op, p, args, out):
    """returns (ok, expected-description, klass-if-failing) for the output tokens `out` (list of str) of model operation op.
    Values are compared after normalisation; normal form of the raw vectors is judged separately (normal_check)."""
    a = args
    res = [parse_poly(t) if ("," in t or t == "-" or op not in ("degree", "leadcoef", "isZero", "areEqual", "eval")) else None for t in out]

    def val(i):
        return norm(parse_poly(out[i]))

    def eq(exp, i=0, klass="value"):
        return (val(i) == norm(exp), fmt_poly(norm(exp)), klass)

    if op in ("setdegree", "assign"):
        return eq(a[0])
    if op == "degree":
        return (int(out[0]) == len(norm(a[0])) - 1, str(len(norm(a[0])) - 1), "value")
    if op == "leadcoef":
        e = norm(a[0])[-1] if norm(a[0]) else 0
        return (int(out[0]) == e, str(e), "value")
    if op == "isZero":
        e = 0 if norm(a[0]) else 1
        return (int(out[0]) == e, str(e), "value")
    if op == "areEqual":
        e = 1 if norm(a[0]) == norm(a[1]) else 0
        return (int(out[0]) == e, str(e), "value")
    if op == "monomial":
        return eq([0] * a[0] + [a[1] % p])
    if op == "eval":
        e = peval(a[0], a[1], p)
        return (int(out[0]) == e, str(e), "value")
    if op == "diff":
        return eq([(i * c) % p for i, c in enumerate(a[0])][1:])
    if op == "reverse":
        return eq(list(reversed(a[0])))
    if op == "add":
        return eq(padd(a[0], a[1], p))
    if op == "neg":
        return eq(pneg(a[0], p))
    if op in ("sub", "subin"):
        return eq(psub(a[0], a[1], p))
    if op in ("add_s", "addin_s"):
        return eq(padd(a[0], [a[1]], p), klass="empty-operand" if not a[0] else "unnormalised-zero-operand" if not norm(a[0]) else "value")
    if op in ("sub_s", "subin_s"):
        return eq(psub(a[0], [a[1]], p), klass="empty-operand" if not a[0] else "unnormalised-zero-operand" if not norm(a[0]) else "value")
    if op == "s_sub":
        return eq(psub([a[0]], a[1], p), klass="empty-polynomial" if not a[1] else "nonempty-polynomial")
    if op == "mul_s":
        return eq(pscale(a[0], a[1], p))
    if op == "div_s":
        return eq(pscale(a[0], inv(a[1], p), p))
    if op in ("mul", "stdmul", "karamul", "mulin"):
        return eq(pmul(a[0], a[1], p))
    if op == "sqr":
        return eq(pmul(a[0], a[0], p))
    if op == "invmodpowx":
        G = val(0)
        prod = pmul(G, a[0], p)[:a[1]]
        return (norm(prod) == norm([1 % p]) and len(G) <= max(a[1], 1), "G*A = 1 mod X^%d, deg G < %d" % (a[1], a[1]), "value")
    if op in ("div", "divmod", "divmodin", "mod", "modin"):
        klass = "value"
        if op == "modin" and a[1] and a[1][-1] % p == 0:
            klass = "divisor-with-leading-zeros"
        Q, R = pdivmod(a[0], a[1], p)
        if op == "div":
            return eq(Q, 0, klass)
        if op in ("mod", "modin"):
            return eq(R, 0, klass)
        return (val(0) == Q and val(1) == R, fmt_poly(Q) + " " + fmt_poly(R), klass)
    if op in ("pdivmod", "pmod"):
        A, B = norm(a[0]), norm(a[1])
        if op == "pdivmod":
            Q, R, m = val(0), val(1), int(out[2])
        else:
            Q, R, m = None, val(0), int(out[1])
        klass = "degA=0<degB" if (len(A) == 1 and len(B) > 1) else ("leading-coefficient-of-B-not-1" if B[-1] != 1 else "monic-B")
        ok = len(R) < len(B)
        mA = pscale(A, m, p)
        if Q is not None:
            ok = ok and mA == padd(pmul(Q, B, p), R, p)
        else:
            ok = ok and not pdivmod(psub(mA, R, p), B, p)[1]
        if len(A) >= len(B):
            ok = ok and (m % p == pow(B[-1], len(A) - len(B) + 1, p) or len(B) == 1)
        return (ok, "m*A = Q*B + R, deg R < deg B, m = lc(B)^(degA-degB+1)", klass)
    if op == "gcd":
        G = val(0)
        e = pgcd(a[0], a[1], p)
        return (monic(G, p) == e, "unit * " + fmt_poly(e), "value")
    if op == "gcdext":
        F, U, V = val(0), val(1), val(2)
        e = pgcd(a[0], a[1], p)
        comb = padd(pmul(U, a[0], p), pmul(V, a[1], p), p)
        return (F == e and comb == F, "F = monic gcd = %s = U*A + V*B" % fmt_poly(e), "value")
    if op in ("invmod", "invmodunit"):
        U = val(0)
        A, B = norm(a[0]), norm(a[1])
        r = pdivmod(pmul(U, A, p), B, p)[1]
        if op == "invmod":
            return (r == norm([1 % p]), "U*A = 1 mod B", "value")
        return (len(r) == 1, "U*A = nonzero constant mod B", "value")
    if op == "lcm":
        A, B = norm(a[0]), norm(a[1])
        if not A or not B:
            return (val(0) == [], "-", "zero-operand")
        e = monic(pdivmod(pmul(A, B, p), pgcd(A, B, p), p)[0], p)
        return (monic(val(0), p) == e, "unit * " + fmt_poly(e), "degA<degB" if len(A) < len(B) else "degA>=degB")
    if op == "pow":
        return eq(ppow(a[0], a[1], p))
    if op == "powmod":
        return eq(ppow(a[0], a[1], p, norm(a[2])))
    if op in ("axpy", "axpyin"):
        if op == "axpy":
            return eq(padd(pmul(a[0], a[1], p), a[2], p))
        return eq(padd(pmul(a[1], a[2], p), a[0], p))
    if op == "axpy_s":
        return eq(padd(pscale(a[1], a[0], p), a[2], p))
    if op == "maxpy":
        return eq(psub(a[2], pmul(a[0], a[1], p), p))
    if op == "maxpyin":
        return eq(psub(a[0], pmul(a[1], a[2], p), p))
    if op == "maxpyin_s":
        return eq(psub(a[0], pscale(a[2], a[1], p), p))
    if op == "axmy":
        return eq(psub(pmul(a[0], a[1], p), a[2], p))
    if op == "axmy_s":
        return eq(psub(pscale(a[1], a[0], p), a[2], p))
    if op == "axmyin":
        return eq(psub(pmul(a[1], a[2], p), a[0], p))
    if op == "axmyin_s":
        return eq(psub(pscale(a[2], a[1], p), a[0], p))
    raise KeyError(op)


POLY_RESULT_POS = {"divmod": [0, 1], "divmodin": [0, 1], "pdivmod": [0, 1], "pmod": [0], "gcdext": [0, 1, 2]}
SCALAR_RESULT = {"degree", "leadcoef", "isZero", "areEqual", "eval"}


def normal_check(op, out):
    """True when every polynomial in the raw output is in normal form (no leading zero coefficient)"""
    if op in SCALAR_RESULT:
        return True
    for i in POLY_RESULT_POS.get(op, [0]):
        P = parse_poly(out[i])
        if P and P[-1] == 0:
            return False
    return True


# ------------------------------------------------------------------ generators
def rand_poly(rng, p, n, shape=None):
    """n coefficients, leading one non-zero (n = 0: the empty vector)"""
    if n <= 0:
        return []
    shape = shape if shape is not None else rng.below(6)
    if shape == 0:      # dense
        P = [rng.below(p) for _ in range(n)]
    elif shape == 1:    # sparse
        P = [rng.below(p) if rng.chance(1, 4) else 0 for _ in range(n)]
    elif shape == 2:    # monomial
        P = [0] * n
    elif shape == 3:    # all coefficients p-1 / 1
        c = rng.choice([1, p - 1])
        P = [c] * n
    elif shape == 4:    # zero low half
        P = [0] * (n // 2) + [rng.below(p) for _ in range(n - n // 2)]
    else:               # zero constant term, dense otherwise
        P = [0] + [rng.below(p) for _ in range(n - 1)]
    P[-1] = 1 + rng.below(p - 1)
    return P


def sizes_for(rng, thr, big):
    """sizes aimed at the switch points: 0,1,2, thr-1..thr+2, 2thr.., powers of two +-1, and (big) 48..52 / ~300"""
    c = [0, 1, 1, 2, 2, 3, 4, 5, 6, 7, 8, 9, 12, 15, 16, 17, thr, thr + 1, thr + 2, 2 * thr, 2 * thr + 1, 2 * thr + 2, 2 * thr + 3, 4 * thr + 1]
    if big:
        c += [48, 49, 50, 51, 52, 53, 63, 64, 65, 99, 100, 101, 102, 103, 104, 105, 127, 128, 129, 150, 201, 203, 205, 207, 299, 300, 301]
    return rng.choice(c)


def gen_cases(rng, tier, thr, big, per):
    cases = []
    for variant, op in sorted(VARIANTS.items()):
        sig = SIG[op]
        for _ in range(per):
            p = rng.choice(PRIMES)
            cases.append(gen_case(rng, variant, op, sig, p, thr, big))
    return cases


def small(rng, big):
    return rng.choice([1, 2, 2, 3, 4, 5, 7, 9, 12] + ([20, 40, 60] if big else []))


def gen_case(rng, variant, op, sig, p, thr, big):
    heavy = op in ("gcd", "gcdext", "invmod", "invmodunit", "lcm", "powmod", "pow")
    n1 = sizes_for(rng, thr, big and not heavy)
    n2 = sizes_for(rng, thr, big and not heavy)
    if heavy and big:
        n1, n2 = rng.choice([n1, 55, 60, 104]), rng.choice([n2, 52, 57, 101])
    r = rng.below(10)
    if r == 0:
        n2 = n1                               # equal degree
    elif r == 1 and n1 > 0:
        n2 = max(1, n1 - rng.choice([1, 2, 3, 4, 5, 7, 8, 9, 15, 16, 17, 31, 32, 33]))   # difference around powers of two
    elif r == 2:
        n2 = 1                                # divisor of degree 0
    args = []
    if op in ("div", "divmod", "divmodin", "mod", "modin", "pdivmod", "pmod", "gcd", "gcdext", "invmod", "invmodunit", "lcm", "powmod"):
        if op == "powmod":
            n2 = max(2, min(n2, 40)); n1 = min(n1, 60)
        if op in ("div", "divmod", "divmodin", "mod", "modin", "pdivmod", "pmod", "powmod"):
            n2 = max(n2, 1)                   # divisor non-zero
        A = rand_poly(rng, p, n1)
        B = rand_poly(rng, p, n2)
        k = rng.below(8)
        if k == 0 and n2 > 1 and op not in ("invmod", "invmodunit"):     # operands sharing a large common factor
            C = rand_poly(rng, p, small(rng, big))
            A = pmul(A, C, p) if A else A
            B = pmul(B, C, p)
        elif k == 1 and op not in ("invmod", "invmodunit"):               # exact multiple
            A = pmul(A, B, p) if A else A
        elif k == 2:
            B[-1] = 1                                                     # monic divisor
        if op in ("invmod", "invmodunit"):
            n2 = max(n2, 2); B = rand_poly(rng, p, n2); A = rand_poly(rng, p, max(n1, 1))
            g = pgcd(A, B, p)
            tries = 0
            while len(g) != 1 and tries < 20:
                A = rand_poly(rng, p, max(1, len(A) + (tries % 3) - 1), 0); g = pgcd(A, B, p); tries += 1
            if len(g) != 1:
                A, B = [1], [1, 1]
        if op == "powmod":
            e = rng.choice([0, 1, 2, 3, 5, 8, 13, 255, 256, 1000003, p, p * p, 2 ** 70 + 1])
            return (variant, op, p, [A, e if variant == "powmod" else e % (1 << 63), B])
        return (variant, op, p, [A, B])
    for ch in sig:
        if ch == "P":
            n = sizes_for(rng, thr, big) if len(args) == 0 else (n2 if sig.count("P") > 1 else n1)
            if len(args) == 0:
                n = n1
            P = rand_poly(rng, p, n)
            if op in ("add", "sub", "subin", "areEqual", "axpy_s", "maxpyin_s", "axmy_s", "axmyin_s") and args and isinstance(args[-1], list) and rng.chance(1, 4):
                # leading terms cancel / equal polynomials
                prev = args[-1]
                P = list(prev) if op in ("sub", "subin", "areEqual") else [(-c) % p for c in prev]
                if P and rng.chance(1, 2):
                    P[0] = (P[0] + 1) % p
                    if len(P) == 1 and P[0] == 0:
                        P = [1]
            args.append(P)
        elif ch == "S":
            args.append(rng.choice([0, 1, p - 1, rng.below(p)]) if op != "div_s" else 1 + rng.below(p - 1))
        elif ch == "N":
            if op == "pow":
                args.append(rng.choice([0, 1, 2, 3, 4, 5, 6, 7, 8, 9, 15, 16, 17]))
                if len(args[0]) > 12:
                    args[-1] = min(args[-1], 5)
            elif op == "invmodpowx":
                args.append(rng.choice([1, 2, 3, 4, 5, 7, 8, 9, 15, 16, 17, 31, 32, 33, 63, 64, 65] + ([100, 128, 129, 200] if big else [])))
            else:
                args.append(rng.below(12))
    if op == "invmodpowx":
        if not args[0]:
            args[0] = [1]
        if args[0][0] == 0:
            args[0][0] = 1
    if op == "pow" and len(args[0]) > 40:
        args[0] = args[0][:40]; args[0][-1] = 1
    if op in ("axpy", "axpyin", "maxpy", "maxpyin", "axmy", "axmyin") and rng.chance(1, 5):
        # c = a*b: the fused result cancels completely
        a_, b_ = (args[0], args[1]) if op in ("axpy", "maxpy", "axmy") else (args[1], args[2])
        prod = pmul(a_, b_, p)
        tgt = 2 if op in ("axpy", "maxpy", "axmy") else 0
        args[tgt] = prod if op not in ("axpy", "axpyin") else pneg(prod, p)
    return (variant, op, p, args)


def unnormalised_cases(rng, per):
    """operands carrying leading zero coefficients (as add/sub/mod/diff of the library return them)"""
    cases = []
    ops = ["setdegree", "setDegree", "degree.d", "degree.v", "leadcoef", "isZero", "areEqual", "areNEqual", "assign", "eval",
           "mul.rpq", "mulin", "stdmul", "div.rpq", "divmod", "mod.rpq", "gcd.2", "gcd.5", "sqr", "add.rpq", "sub.rpq", "subin",
           "add.rps", "sub.rps", "diff", "modin", "lcm", "invmod", "pow", "axpy", "maxpy"]
    for variant in ops:
        op = VARIANTS[variant]
        for _ in range(per):
            p = rng.choice(PRIMES)
            _, _, _, args = gen_case(rng, variant, op, SIG[op], p, 2, False)
            which = rng.below(3)
            pos = [i for i, ch in enumerate(SIG[op]) if ch == "P"]
            for j, i in enumerate(pos):
                if which == 2 or which == j % 2:
                    if op in ("modin",) and j == 0:
                        continue
                    args[i] = list(args[i]) + [0] * rng.choice([1, 1, 2, 3])
            if rng.chance(1, 6):
                args[pos[0]] = [0] * rng.choice([1, 2])       # unnormalised zero (e.g. the domain's `zero` member is [0])
            if op in ("div", "divmod", "mod", "modin", "invmod") and not norm(args[1]):
                args[1] = [1, 1, 0]
            cases.append((variant, op, p, args))
    return cases


def exhaustive_cases(p, maxdeg, variants):
    """all pairs of polynomials of degree <= maxdeg over GF(p) (normalised vectors, including the zero polynomial)"""
    polys = [[]]
    for n in range(1, maxdeg + 2):
        def rec(k, cur):
            if k == n - 1:
                for c in range(1, p):
                    polys.append(cur + [c])
                return
            for c in range(p):
                rec(k + 1, cur + [c])
        rec(0, [])
    cases = []
    for v in variants:
        op = VARIANTS[v]
        for A in polys:
            for B in polys:
                if op in ("div", "divmod", "mod", "modin", "divmodin", "pdivmod", "pmod") and not B:
                    continue
                if op in ("invmod",):
                    if len(B) < 2 or not A or len(pgcd(A, B, p)) != 1:
                        continue
                if op in ("gcdext",) and not A and not B:
                    continue
                cases.append((v, op, p, [A, B]))
    return cases


def tok_args(op, args):
    out = []
    for ch, x in zip(SIG[op], args):
        out.append(fmt_poly(x) if ch == "P" else str(x))
    return " ".join(out)


def source_thresholds():
    txt = open(os.path.join(vf.REPO, "src/library/poly1/givpoly1kara.inl")).read()
    k = re.search(r"#define\s+KARA_THRESHOLD\s+(\d+)", txt)
    s = re.search(r"#define\s+SQR_THRESHOLD\s+(\d+)", txt)
    return (int(k.group(1)) if k else None, int(s.group(1)) if s else None)


def compile_probe(name, body):
    """does a call form instantiate at all?  (template members that cannot compile are defects of a public form)"""
    d = vf.mkdir(os.path.join(vf.BUILD, "c08-probe"))
    src = os.path.join(d, name + ".C")
    vf.write_if_changed(src, '#include "modular.h"\n#include "givpoly1.h"\nusing namespace Givaro;\n'
                        'typedef Poly1Dom<Modular<int32_t>,Dense> PD;\nvoid f(const PD& D, PD::Element& r, const PD::Element& a, int32_t s) { %s }\n' % body)
    rc, out = vf.sh([vf.CXX] + vf.BASE_FLAGS + vf.inc_flags() + ["-fsyntax-only", src], timeout=300)
    return rc == 0, out


def run_stream(chk, label, himpl, drv, cases, kthr, sthr, stats):
    """run implementation and model on the cases, three-way compare"""
    if not cases:
        return
    lines_i = "".join("%s %d %d %d %s\n" % (v, p, kthr, sthr, tok_args(op, a)) for v, op, p, a in cases)
    lines_m = "".join("%s %d %d %d %s\n" % (op, p, kthr, sthr, tok_args(op, a)) for v, op, p, a in cases)
    rc, iout, ierr = vf.run_lines(himpl, lines_i, timeout=1500)
    hdr = [l for l in iout if l.startswith("#thr")]
    iout = [l for l in iout if not l.startswith("#")]
    if hdr:
        t = hdr[0].split()
        if (int(t[1]), int(t[2])) != (kthr, sthr):
            chk.broke("%s: harness compiled with thresholds %s, model run with (%d,%d)" % (label, t[1:], kthr, sthr))
    if rc != 0 or len(iout) != len(cases):
        # find the case the implementation died on
        k = len(iout)
        bad = cases[k] if k < len(cases) else None
        chk.broke("%s: implementation harness failed (rc=%s, %d/%d lines)" % (label, rc, len(iout), len(cases)),
                  ("first unanswered case: %s %s\n" % (bad[0], tok_args(bad[1], bad[3])) if bad else "") + ierr)
        if bad:
            chk.fail_input("Poly1Dom::" + bad[1], "crash", {"variant": bad[0], "p": bad[2], "args": tok_args(bad[1], bad[3]), "stream": label},
                           "a result", "process died (rc=%s)" % rc)
        return
    mout = None
    if drv:
        rc, mout, merr = vf.run_lines(drv, lines_m, timeout=1500)
        if rc != 0 or len(mout) != len(cases):
            chk.broke("%s: model driver failed (rc=%s, %d/%d lines)" % (label, rc, len(mout), len(cases)), merr)
            mout = None
    for i, (v, op, p, a) in enumerate(cases):
        key = (v, p, tok_args(op, a))
        nontrivial = sum(len(norm(x)) for x in a if isinstance(x, list)) >= 2
        chk.count(key, nontrivial)
        stats["by_op"][op] = stats["by_op"].get(op, 0) + 1
        stats["by_variant"][v] = stats["by_variant"].get(v, 0) + 1
        stats["by_p"][p] = stats["by_p"].get(p, 0) + 1
        mx = max([len(x) for x in a if isinstance(x, list)] + [0])
        b = "0" if mx == 0 else "1" if mx == 1 else "2-8" if mx <= 8 else "9-47" if mx <= 47 else "48-53" if mx <= 53 else "54-199" if mx <= 199 else ">=200"
        stats["by_size"][b] = stats["by_size"].get(b, 0) + 1
        if i % 211 == 0:
            chk.sample({"stream": label, "variant": v, "p": p, "args": tok_args(op, a)[:300], "impl": iout[i][:300]}, limit=16)
        out = iout[i].split()
        case = {"variant": v, "op": op, "p": p, "kthr": kthr, "sthr": sthr, "args": tok_args(op, a), "stream": label}
        try:
            ok, exp, klass = spec_check(op, p, a, out)
        except Exception as ex:      # malformed output
            ok, exp, klass = False, "well-formed output", "malformed:" + type(ex).__name__
        if not ok:
            chk.fail_input("Poly1Dom::" + op, klass, case, exp, iout[i][:2000], "implementation differs from the schoolbook specification mod p")
        else:
            try:
                nf = normal_check(op, out)
            except Exception:
                nf = True
            if not nf:
                if op in STRICT_NORMAL:
                    chk.fail_input("Poly1Dom::" + op, "leading-zero-in-result", case, "normal form", iout[i][:2000])
                else:
                    stats["lazy_unnormalised"][op] = stats["lazy_unnormalised"].get(op, 0) + 1
                    chk.fail_input("Poly1Dom::" + op, "unnormalised-result", case, "no leading zero coefficient", iout[i][:2000],
                                   "result vector carries leading zero coefficients (normalised only lazily by degree()/isZero()/assign())")
        if mout is not None:
            stats["corr"] += 1
            if mout[i].split() != out:
                chk.broke("correspondence model/implementation differs [%s] %s p=%d kthr=%d sthr=%d args=%s: model=%s impl=%s"
                          % (label, v, p, kthr, sthr, tok_args(op, a)[:1500], mout[i][:1500], iout[i][:1500]))


def main(tier, replay=None):
    chk = vf.Check("C08", tier, "proof")
    rng = vf.Rng(chk.seed)
    kth, sth = source_thresholds()
    chk.cov["trusted_base"] = [
        "Coq 8.16.1 kernel",
        "extraction: ExtrOcamlBasic only; Z/positive/nat kept as extracted inductives; OCaml 4.13.1; zarith only for text I/O in harness/zio.ml",
        "the coefficient domain is a record of operations; theorems assume field_theory (stdlib) + isZero decides equality with 0; "
        "Modular<int32_t> itself is the subject of C03, here its operations are modelled by Z arithmetic mod p (ZpDom in Model.v)",
        "harness/c08_poly.C, checks/C08.py (case generator, python schoolbook oracle)",
        "g++ / x86-64 for the implementation side; -DKARA_THRESHOLD/-DSQR_THRESHOLD override the #ifndef defaults of givpoly1kara.inl",
    ]
    chk.assumptions = ["model is hand-written after src/library/poly1/*.inl; tie = correspondence on generated cases over Z/pZ, p in %s" % PRIMES,
                       "KARA_THRESHOLD/SQR_THRESHOLD read from givpoly1kara.inl = %s/%s and passed to the model; second harness forced to 2/2" % (kth, sth)]
    # 1. proofs
    res = vf.coq_check_props(AREA)
    chk.proof_result(res, AREA)
    # 2. executables
    drv, l1 = vf.ocaml_build(AREA) if os.path.exists(os.path.join(vf.coq_dir(AREA), "ocaml", "model.ml")) else (None, "extraction did not run")
    if drv is None:
        chk.broke("extracted model driver does not build", l1)
    if kth is None or sth is None:
        chk.broke("cannot read KARA_THRESHOLD / SQR_THRESHOLD from givpoly1kara.inl")
        kth, sth = kth or 50, sth or 50
    h_real, l2 = vf.build_harness("c08_poly.C", link_lib=True, name="c08_poly_real")
    h_small, l3 = vf.build_harness("c08_poly.C", extra_flags=["-DKARA_THRESHOLD=2", "-DSQR_THRESHOLD=2"], link_lib=True, name="c08_poly_t2")
    h_odd = None
    if tier != "quick":
        h_odd, l4 = vf.build_harness("c08_poly.C", extra_flags=["-DKARA_THRESHOLD=1", "-DSQR_THRESHOLD=3"], link_lib=True, name="c08_poly_t13")
        if h_odd is None:
            chk.broke("implementation harness (thresholds 1/3) does not compile against /repo", l4)
    if h_real is None or h_small is None:
        chk.broke("implementation harness does not compile against /repo", (l2 or "") + (l3 or ""))
        return chk.finish()
    stats = {"by_op": {}, "by_variant": {}, "by_p": {}, "by_size": {}, "corr": 0, "lazy_unnormalised": {}}
    # 3. call forms that must at least instantiate
    for nm, body, site in [("maxpy_s", "D.maxpy(r, s, a, a);", "Poly1Dom::maxpy(Rep&,const Type_t&,const Rep&,const Rep&)"),
                           ("shift", "D.shift(r, a, 2);", "Poly1Dom::shift(Rep&,const Rep&,int)")]:
        ok, out = compile_probe(nm, body)
        chk.count(("compile", nm), True)
        if not ok:
            chk.fail_input(site, "does-not-compile", {"probe": body}, "the call form instantiates", out[-600:])
    # 4. cases
    if replay:
        rp = json.load(open(replay))
        cs = []
        for f in rp.get("failing_inputs", []):
            c = f.get("case", {})
            if "variant" in c:
                op = c["op"]
                toks = c["args"].split()
                a = [parse_poly(t) if ch == "P" else int(t) for ch, t in zip(SIG[op], toks)]
                cs.append(((c["variant"], op, c["p"], a), c.get("kthr", kth), c.get("sthr", sth)))
        for c, k, s in cs:
            h = h_real if (k, s) == (kth, sth) else h_small
            run_stream(chk, "replay", h, drv, [c], k, s, stats)
    else:
        per = 14 if tier == "quick" else 150
        run_stream(chk, "thr2", h_small, drv, gen_cases(rng, tier, 2, False, per), 2, 2, stats)
        run_stream(chk, "real", h_real, drv, gen_cases(rng, tier, kth, True, per), kth, sth, stats)
        run_stream(chk, "unnormalised-operands", h_small, drv, unnormalised_cases(rng, 6 if tier == "quick" else 60), 2, 2, stats)
        exv = ["mul.rpq", "karamul", "sqr", "divmod", "modin", "gcd.2", "gcd.5", "sub.rpq", "add.rpq", "lcm", "invmod", "pdivmod", "pmod"]
        if tier == "quick":
            run_stream(chk, "exhaustive GF(2) deg<=3", h_small, drv, exhaustive_cases(2, 3, exv), 2, 2, stats)
            run_stream(chk, "exhaustive GF(3) deg<=2", h_small, drv, exhaustive_cases(3, 2, exv), 2, 2, stats)
            chk.cov["exhaustive_spaces"] = ["GF(2) deg<=3 pairs", "GF(3) deg<=2 pairs"]
        else:
            run_stream(chk, "exhaustive GF(2) deg<=6", h_small, drv, exhaustive_cases(2, 6, exv), 2, 2, stats)
            run_stream(chk, "exhaustive GF(3) deg<=4", h_small, drv, exhaustive_cases(3, 4, exv), 2, 2, stats)
            run_stream(chk, "exhaustive GF(2) deg<=5 thr 1/3", h_odd, drv, exhaustive_cases(2, 5, exv), 1, 3, stats)
            run_stream(chk, "thr13", h_odd, drv, gen_cases(rng, tier, 3, False, per), 1, 3, stats)
            chk.cov["exhaustive_spaces"] = ["GF(2) deg<=6 pairs", "GF(3) deg<=4 pairs", "GF(2) deg<=5 pairs (thr 1/3)"]
    if len(chk.broken) > 20:
        chk.broken = chk.broken[:20] + [{"what": "... %d more" % (len(chk.broken) - 20), "detail": ""}]
    chk.cov["rule"] = ("every call form (variant) x p in {2,3,7,65521} x shapes {dense, sparse, monomial, all-ones, zero low half, zero constant term} x "
                       "sizes {0,1,2,.., thr-1..thr+2, 2thr.., 48..53, 63..65, 99..105, 127..129, ~200, ~300}, equal degree, degree difference around "
                       "powers of two, divisor of degree 0, common factor, exact multiple; operands with leading zeros; exhaustive small pairs over GF(2), GF(3); "
                       "non-trivial = operands have together >= 2 non-zero-stripped coefficients; distinct = (variant,p,operands)")
    chk.cov["traces_validated_against_impl"] = stats["corr"]
    chk.cov["variants"] = len(VARIANTS)
    chk.cov["thresholds_from_source"] = [kth, sth]
    chk.cov["distribution_by_op"] = stats["by_op"]
    chk.cov["distribution_by_variant"] = stats["by_variant"]
    chk.cov["distribution_by_prime"] = {str(k): v for k, v in stats["by_p"].items()}
    chk.cov["distribution_by_max_operand_size"] = stats["by_size"]
    chk.cov["lazy_unnormalised_results_seen"] = stats["lazy_unnormalised"]
    return chk.finish()
