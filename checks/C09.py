# C09 -- polynomial factorisation, irreducibility and primitivity decisions (Poly1FactorDom, sqrfree, cyclotomic).
# proof:  coq/C09 (list model over GF(p) written after givpoly1factor.inl / givpoly1proot.inl / givpoly1sqrfree.inl;
#         product preservation of every splitting step for every stream of random choices, verified divisor-search
#         irreducibility checker and brute-force order checker, bounded exhaustive sweeps)
# tie:    correspondence: extracted model vs Poly1FactorDom<Modular<int32_t>,Dense,Replay> compiled from /repo's
#         current headers, both fed the same stream of generator outputs
# search: independent python arithmetic over GF(p) and GF(p^k) (brute-force divisor search, Rabin test, element orders)
#         on every output of the implementation; the extracted *verified* checkers re-decide returned factors / orders
import json, os, re, sys, itertools
import vf

AREA = "C09"
EXTRA_DRAWS = 40000      # continuation of a stream that ran out (a generous cap; beyond it the case is inconclusive)


# ------------------------------------------------------------------ python specification: finite fields
class Fp(object):
    def __init__(self, p):
        self.p, self.q, self.k = p, p, 1
        self.name = str(p)

    def add(self, a, b): return (a + b) % self.p
    def sub(self, a, b): return (a - b) % self.p
    def neg(self, a): return (-a) % self.p
    def mul(self, a, b): return (a * b) % self.p
    def inv(self, a): return pow(a, self.p - 2, self.p)
    def nat(self, n): return n % self.p


class FpG(Fp):
    """prime field handled by GFqDom<int64_t>(p, 1) in the harness (Residu_t = uint64_t); elements are residues"""

    def __init__(self, p):
        Fp.__init__(self, p)
        self.name = "q:%d:1" % p


class FpT(Fp):
    """prime field run through another ring type of the implementation: tag m64 = Modular<int64_t>, mu64 =
    Modular<uint64_t,__uint128_t>, mI = Modular<Integer>, md = Modular<double> (python arithmetic is the same)"""

    def __init__(self, p, tag):
        Fp.__init__(self, p)
        self.tag = tag
        self.name = "%s:%d" % (tag, p)


class Fq(object):
    """GF(p^k) = F_p[t]/(m); an element is the integer whose base-p digits are its coefficients (what
    GFqDom::init(int64) / convert(int64) use); m is given the same way (GFqDom::irreducible())."""

    def __init__(self, p, k, m):
        self.p, self.k, self.q = p, k, p ** k
        self.name = "q:%d:%d:%d" % (p, k, m)
        self.m = self.digits(m, k + 1)
        q = self.q
        self.dg = [self.digits(a, k) for a in range(q)]
        self.addt = [[self.undig([(x + y) % p for x, y in zip(self.dg[a], self.dg[b])]) for b in range(q)] for a in range(q)]
        self.negt = [self.undig([(-x) % p for x in self.dg[a]]) for a in range(q)]
        self.mult = [[0] * q for _ in range(q)]
        for a in range(q):
            for b in range(a, q):
                c = self._mul(self.dg[a], self.dg[b])
                self.mult[a][b] = self.mult[b][a] = c
        self.invt = [0] * q
        for a in range(1, q):
            for b in range(1, q):
                if self.mult[a][b] == 1:
                    self.invt[a] = b
                    break

    def digits(self, a, n):
        r = []
        for _ in range(n):
            r.append(a % self.p)
            a //= self.p
        return r

    def undig(self, d):
        v = 0
        for x in reversed(d):
            v = v * self.p + x
        return v

    def _mul(self, a, b):
        p, k = self.p, self.k
        r = [0] * (2 * k - 1)
        for i, x in enumerate(a):
            if x:
                for j, y in enumerate(b):
                    r[i + j] = (r[i + j] + x * y) % p
        for i in range(2 * k - 2, k - 1, -1):      # reduce by the monic m of degree k
            c = r[i]
            if c:
                for j in range(k + 1):
                    r[i - k + j] = (r[i - k + j] - c * self.m[j]) % p
        return self.undig(r[:k])

    def add(self, a, b): return self.addt[a][b]
    def sub(self, a, b): return self.addt[a][self.negt[b]]
    def neg(self, a): return self.negt[a]
    def mul(self, a, b): return self.mult[a][b]
    def inv(self, a): return self.invt[a]
    def nat(self, n): return n % self.p


# ------------------------------------------------------------------ python specification: polynomials (low degree first)
def norm(P):
    P = list(P)
    while P and P[-1] == 0:
        P.pop()
    return P


def padd(F, A, B):
    n = max(len(A), len(B))
    return norm([F.add(A[i] if i < len(A) else 0, B[i] if i < len(B) else 0) for i in range(n)])


def psub(F, A, B):
    n = max(len(A), len(B))
    return norm([F.sub(A[i] if i < len(A) else 0, B[i] if i < len(B) else 0) for i in range(n)])


def pscale(F, c, A):
    return norm([F.mul(c, a) for a in A])


def pmul(F, A, B):
    if not A or not B:
        return []
    R = [0] * (len(A) + len(B) - 1)
    for i, a in enumerate(A):
        if a:
            for j, b in enumerate(B):
                R[i + j] = F.add(R[i + j], F.mul(a, b))
    return norm(R)


def pdivmod(F, A, B):
    A = list(A)
    if len(A) < len(B):
        return [], norm(A)
    ib = F.inv(B[-1])
    Q = [0] * (len(A) - len(B) + 1)
    for i in range(len(A) - len(B), -1, -1):
        c = F.mul(A[i + len(B) - 1], ib)
        Q[i] = c
        if c:
            for j, b in enumerate(B):
                A[i + j] = F.sub(A[i + j], F.mul(c, b))
    return norm(Q), norm(A[:len(B) - 1])


def pmod(F, A, B): return pdivmod(F, A, B)[1]
def pmonic(F, A): return pscale(F, F.inv(A[-1]), A) if A else []


def pgcd(F, A, B):            # monic gcd
    A, B = norm(A), norm(B)
    while B:
        A, B = B, pmod(F, A, B)
    return pmonic(F, A)


def pdiff(F, A):
    return norm([F.mul(F.nat(i), A[i]) for i in range(1, len(A))])


def ppowmod(F, A, e, M):
    R, B = [1], pmod(F, A, M)
    if len(M) == 1:
        return []
    while e > 0:
        if e & 1:
            R = pmod(F, pmul(F, R, B), M)
        B = pmod(F, pmul(F, B, B), M)
        e >>= 1
    return R


def ppow(F, A, e):
    R = [1]
    for _ in range(e):
        R = pmul(F, R, A)
    return R


def monics(F, d):
    for t in itertools.product(range(F.q), repeat=d):
        yield list(t) + [1]


_pf = {}


def prime_factors(n):
    if n not in _pf:
        _pf[n] = _prime_factors(n)
    return _pf[n]


def is_prime_int(n):
    """Miller-Rabin with the first 20 primes as bases (deterministic far beyond the sizes used here)"""
    if n < 2:
        return False
    small = (2, 3, 5, 7, 11, 13, 17, 19, 23, 29, 31, 37, 41, 43, 47, 53, 59, 61, 67, 71)
    for q in small:
        if n % q == 0:
            return n == q
    d, r = n - 1, 0
    while d % 2 == 0:
        d //= 2
        r += 1
    for a in small:
        x = pow(a, d, n)
        if x in (1, n - 1):
            continue
        for _ in range(r - 1):
            x = x * x % n
            if x == n - 1:
                break
        else:
            return False
    return True


def _rho(n):
    """Pollard-Brent, deterministic (c = 1, 2, ...): a proper factor of the odd composite n"""
    import math
    c = 1
    while True:
        y, r, q, g = 2, 1, 1, 1
        x = ys = y
        while g == 1:
            x = y
            for _ in range(r):
                y = (y * y + c) % n
            k = 0
            while k < r and g == 1:
                ys = y
                for _ in range(min(128, r - k)):
                    y = (y * y + c) % n
                    q = q * abs(x - y) % n
                g = math.gcd(q, n)
                k += 128
            r *= 2
        if g == n:
            g = 1
            while g == 1:
                ys = (ys * ys + c) % n
                g = math.gcd(abs(x - ys), n)
        if g != n:
            return g
        c += 1


def _prime_factors(n):
    """sorted list of the distinct prime divisors (trial division below 2000, then Pollard-Brent)"""
    r, d = set(), 2
    while d < 2000 and d * d <= n:
        if n % d == 0:
            r.add(d)
            while n % d == 0:
                n //= d
        d += 1
    st = [n] if n > 1 else []
    while st:
        m = st.pop()
        if m < 4000000 or is_prime_int(m):
            r.add(m)
            continue
        g = _rho(m)
        st += [g, m // g]
    return sorted(r)


def prev_prime(n):
    n -= 1
    while not is_prime_int(n):
        n -= 1
    return n


def next_prime(n):
    while not is_prime_int(n):
        n += 1
    return n


def iroot(n, k):
    lo, hi = 0, 1 << (n.bit_length() // k + 1)
    while lo < hi:
        m = (lo + hi + 1) // 2
        if m ** k <= n:
            lo = m
        else:
            hi = m - 1
    return lo


BRUTE_LIMIT = 4000


def irreducible_brute(F, P):
    """the definition: degree >= 1 and no monic divisor of degree 1..deg/2"""
    n = len(P) - 1
    if n < 1:
        return False
    for d in range(1, n // 2 + 1):
        for D in monics(F, d):
            if not pmod(F, P, D):
                return False
    return True


def irreducible_rabin(F, P):
    n = len(P) - 1
    if n < 1:
        return False
    X = [0, 1]
    for r in prime_factors(n):
        h = ppowmod(F, X, F.q ** (n // r), P)
        if len(pgcd(F, psub(F, h, pmod(F, X, P)), P)) != 1:
            return False
    return not psub(F, ppowmod(F, X, F.q ** n, P), pmod(F, X, P))


def irreducible(F, P):
    n = len(P) - 1
    if n >= 1 and F.q ** (n // 2) <= BRUTE_LIMIT:
        return irreducible_brute(F, P)
    return irreducible_rabin(F, P)


def factor_brute(F, P):
    """{monic irreducible (tuple): multiplicity} by trial division in degree order (small inputs only)"""
    res = {}
    P = pmonic(F, P)
    d = 1
    while len(P) - 1 >= 2 * d:
        for D in monics(F, d):
            while len(P) - 1 >= d:
                Q, R = pdivmod(F, P, D)
                if R:
                    break
                res[tuple(D)] = res.get(tuple(D), 0) + 1
                P = Q
        d += 1
    if len(P) > 1:
        res[tuple(P)] = res.get(tuple(P), 0) + 1
    return res


def order_spec(F, A, M):
    """multiplicative order of A modulo M (0 when A is not a unit); M irreducible"""
    A = pmod(F, A, M)
    if len(pgcd(F, A, M)) != 1 or not A:
        return 0
    n = F.q ** (len(M) - 1) - 1
    if n <= 400:                      # the definition
        R, k = A, 1
        while R != [1]:
            R = pmod(F, pmul(F, R, A), M)
            k += 1
            if k > n:
                return -1
        return k
    o = n
    for l in prime_factors(n):
        while o % l == 0 and ppowmod(F, A, o // l, M) == [1]:
            o //= l
    return o


def cyclotomic_spec(F, n):
    """Phi_n over the prime subfield, by dividing X^n - 1 by Phi_d for the proper divisors d"""
    P = [F.neg(1)] + [0] * (n - 1) + [1]
    for d in range(1, n):
        if n % d == 0:
            P = pdivmod(F, P, cyclotomic_spec_Z(F, d))[0]
    return P


_cyc = {}


def cyclotomic_spec_Z(F, n):
    key = (F.name, n)
    if key not in _cyc:
        _cyc[key] = cyclotomic_spec(F, n)
    return _cyc[key]


# ------------------------------------------------------------------ text protocol
def pstr(P):
    return ",".join(str(c) for c in P) if P else "-"


def ppar(s):
    return [] if s == "-" else [int(x) for x in s.split(",")]


def parse_out(line):
    """'<payload> #<n>' -> (payload, n)"""
    m = re.match(r"^(.*?)\s*#(\d+)\s*$", line)
    if not m:
        return line.strip(), None
    return m.group(1).strip(), int(m.group(2))


def parse_list(s):
    m = re.match(r"^\[(.*?)\]\s*(?:\{(.*?)\})?$", s.strip())
    if not m:
        return None, None
    L = [ppar(t) for t in m.group(1).split()]
    E = [int(t) for t in m.group(2).split()] if m.group(2) is not None else None
    return L, E


# ------------------------------------------------------------------ generators
def rand_poly(rng, F, d, monic=False):
    if d < 0:
        return []
    P = [rng.below(F.q) for _ in range(d)] + [1 if monic else 1 + rng.below(F.q - 1)]
    return P


class Irr(object):
    """monic irreducible polynomials of a given degree, found by the python tests (cached per field)"""

    def __init__(self):
        self.c = {}

    def all_small(self, F, d):
        key = (F.name, d, "all")
        if key not in self.c:
            self.c[key] = [P for P in monics(F, d) if irreducible_brute(F, P)]
        return self.c[key]

    def get(self, rng, F, d, cap=False):
        if cap:
            d = capd(F, d)
        if F.q ** d <= 3000:
            return list(rng.choice(self.all_small(F, d)))
        while True:
            P = rand_poly(rng, F, d, monic=True)
            if irreducible(F, P):
                return P


IRR = Irr()


CAP2 = 128


def capd(F, d):
    """characteristic 2: equal-degree splitting needs about q^d / (2k) random polynomials (the (q^d-1)/2 power is useless for p = 2):
    the general generators keep q^d <= CAP2 so that their streams suffice; gen_char2 drives the larger sizes with streams to match"""
    if F.p == 2:
        while d > 1 and F.q ** d > CAP2:
            d -= 1
    return d


def gen_char2(rng, add, big, fields, gfq):
    """characteristic 2 at larger sizes (deterministic sizes): products of two / three irreducibles of one degree d with q^d up to 1024
    (quick) / 16384 (thorough), streams long enough for the expected q^d / k attempts of deg G draws each"""
    sizes = {2: ((8, 10), (12, 14)), 4: ((4, 5), (6, 7)), 8: ((3,), (4,)), 16: ((2,), (3,))}
    for F in fields + gfq:
        if F.p != 2 or F.q not in sizes:
            continue
        for d in sizes[F.q][0] + (sizes[F.q][1] if big else ()):
            for k in (2, 3):
                fs = []
                while len(fs) < k:
                    f = IRR.get(rng, F, d)
                    if f not in fs:
                        fs.append(f)
                P = product(F, [(f, 1) for f in fs])
                n = 5 * d * F.q ** d + 2000
                meta = {"facs": [(f, 1) for f in fs], "d": d, "nomodel": F.q ** d > 1024}
                kl = "characteristic 2, %d factors of degree %d (q^d = %d)" % (k, d, F.q ** d)
                add(("cz", "cz.mod", "cz.factor")[(d + k) % 3], F, stream(rng, n // 6, F), [P], meta, "multiplicities<char; " + kl)
                if k == 2:
                    add(("split", "split.mod")[d % 2], F, stream(rng, n // 6, F), [P, str(d)], meta, kl)
                    add(("ddf", "ddf.mod", "ddf.list")[d % 3], F, stream(rng, n // 6, F), [P], meta, kl)


def product(F, facs):
    """facs: list of (poly, multiplicity)"""
    R = [1]
    for f, e in facs:
        for _ in range(e):
            R = pmul(F, R, f)
    return R


def stream(rng, n, F=None):
    if F is not None and F.p == 2:
        n *= 6
    out = []
    for _ in range(n):
        v = rng.next()
        out.append(v >> 1 if v & 3 else (v >> 2) & 7)       # mostly 63-bit values, one in four a small one
    return out


# ------------------------------------------------------------------ the check
MODEL_OP = {"irr": "irr", "irr.mod": "irr", "irr2": "irr2", "irr2.mod": "irr2", "sqrfree": "sqrfree",
            "ddf": "ddf", "ddf.mod": "ddf", "ddf.list": "ddf", "split": "split", "split.mod": "split",
            "split1": "split1", "split1.mod": "split1", "cz": "cz", "cz.mod": "cz", "cz.factor": "cz",
            "isproot": "isproot", "order": "order", "randirr": "randirr", "creux": "creux", "ixe": "ixe", "ixe2": "ixe2",
            "giveproot": "giveproot", "giverandproot": "giverandproot", "randproot": "randproot",
            "diff": "diff", "diff.in": "diff", "powmod": "powmod", "powmod.in": "powmod", "gcd": "gcd",
            "factor1": "factor1", "factor1.mod": "factor1"}
SITE = {"irr": "Poly1FactorDom::is_irreducible", "irr2": "Poly1FactorDom::is_irreducible2", "sqrfree": "Poly1Dom::sqrfree",
        "ddf": "Poly1FactorDom::DistinctDegreeFactor", "split": "Poly1FactorDom::SplitFactor(container)",
        "split1": "Poly1FactorDom::SplitFactor(single)", "cz": "Poly1FactorDom::CZfactor",
        "isproot": "Poly1FactorDom::is_prim_root", "order": "Poly1FactorDom::order",
        "randirr": "Poly1FactorDom::random_irreducible", "creux": "Poly1FactorDom::creux_random_irreducible",
        "ixe": "Poly1FactorDom::ixe_irreducible", "ixe2": "Poly1FactorDom::ixe_irreducible2",
        "giveproot": "Poly1FactorDom::give_prim_root", "giverandproot": "Poly1FactorDom::give_random_prim_root",
        "randproot": "Poly1FactorDom::random_prim_root", "cyclo": "Poly1Dom::cyclotomic", "pcomp": "Poly1Dom::power_compose",
        "factor1": "Poly1FactorDom::factor(Rep&,const Rep&)", "diff": "Poly1Dom::diff", "powmod": "Poly1Dom::powmod", "gcd": "Poly1Dom::gcd", "fieldinfo": "field parameters"}


class Case(object):
    __slots__ = ("op", "F", "stream", "args", "meta", "klass")

    def __init__(self, op, F, stream, args, meta=None, klass=""):
        self.op, self.F, self.stream, self.args, self.meta, self.klass = op, F, stream, args, meta or {}, klass

    def line(self, op=None):
        return "%s %s %s %s" % (op or self.op, self.F.name, ",".join(str(x) for x in self.stream) if self.stream else "-",
                                " ".join(self.args))

    def base(self):
        return self.op.split(".")[0]

    def describe(self, full=True):
        return {"op": self.op, "field": self.F.name, "stream": self.stream[:(3000 if full else 12)], "args": self.args, "class": self.klass}


def fac_class(F, P, facs):
    """input class of a polynomial to be factored, from its construction (the first that applies)"""
    if any(e >= F.p for f, e in facs):
        return "multiplicity>=char"
    if P and P[-1] != 1 and any(e > 1 for f, e in facs):
        return "non-monic,repeated factor"
    return "multiplicities<char"


def gen_cases(rng, tier, fields, gfq, bigG=(), bnd=()):
    """returns the list of cases; `fields` = prime fields (model + oracle), `gfq` = extension fields (oracle only)"""
    C = []
    big = tier != "quick"
    allF = fields + gfq

    def add(op, F, st, args, meta=None, klass=""):
        C.append(Case(op, F, st, [a if isinstance(a, str) else pstr(a) for a in args], meta, klass))
        if op.split(".")[0] == "cz" and len(st) <= 6000:      # the single-factor form on the same input (both overloads in rotation)
            m1 = dict((k, v) for k, v in (meta or {}).items() if k in ("nomodel",))
            C.append(Case(("factor1", "factor1.mod")[len(C) % 2], F, st[:600], C[-1].args, m1, klass))

    # ---- 1. irreducibility tests: every polynomial of small degree (exhaustive), then structured larger ones
    exh = {2: 7 if not big else 11, 3: 4 if not big else 6, 5: 3 if not big else 4, 7: 2 if not big else 3,
           4: 3 if not big else 4, 9: 2 if not big else 3, 8: 2 if not big else 3, 13: 2, 101: 1 if not big else 2}
    for F in allF:
        dmax = exh.get(F.q, 2 if F.q < 50 else 1)
        if F.q > 200:
            dmax = 0
        for cst in range(1, min(F.q, 6)):
            add(("irr", "irr.mod", "irr2", "irr2.mod")[cst % 4], F, [], [[cst]], {"exh": True}, "constant")
        for d in range(1, dmax + 1):
            for M in monics(F, d):
                lc = 1 + rng.below(F.q - 1) if rng.chance(1, 3) else 1
                P = pscale(F, lc, M)
                op = ("irr", "irr.mod", "irr2", "irr2.mod")[len(C) % 4] if d <= dmax - 1 or len(C) % 2 else "irr"
                add(op, F, [], [P], {"exh": True}, "exhaustive deg %d" % d)
                if op != "irr" and d == dmax:
                    pass
        # both tests on the same inputs for the top degree of GF(2), GF(3)
    for F in allF:
        n = 12 if not big else 120
        for i in range(n):
            kind = i % 6
            if kind == 0:      # irreducible of larger degree
                d = rng.range(3, 12 if F.q < 10 else 6)
                P = IRR.get(rng, F, d); kl = "irreducible"
            elif kind == 1:    # product of two irreducibles of the same degree (DDF degree = deg/2 boundary)
                d = rng.range(1, 5 if F.q < 10 else 3)
                P = pmul(F, IRR.get(rng, F, d), IRR.get(rng, F, d)); kl = "two factors of degree deg/2"
            elif kind == 2:    # square of an irreducible / p-th power
                d = rng.range(1, 3)
                P = ppow(F, IRR.get(rng, F, d), rng.choice([2, F.p] if F.p <= 5 else [2, 3])); kl = "power of an irreducible"
            elif kind == 3:    # distinct degrees whose lcm equals the degree (the pattern is_irreducible2 confuses)
                P = product(F, [(IRR.get(rng, F, 1), 1), (IRR.get(rng, F, 2), 1), (IRR.get(rng, F, 3), 1)]); kl = "degrees 1+2+3"
            elif kind == 4:    # one small factor times a large irreducible (caught only at dp = 1 / late dp)
                d = rng.range(2, 7)
                P = pmul(F, IRR.get(rng, F, rng.range(1, 2)), IRR.get(rng, F, d)); kl = "small factor times large irreducible"
            else:
                P = rand_poly(rng, F, rng.range(2, 10)); kl = "random"
            if rng.chance(1, 3):
                P = pscale(F, 1 + rng.below(F.q - 1), P)
            for op in (("irr", "irr2") if i % 2 else ("irr.mod", "irr2.mod")):
                add(op, F, [], [P], {}, kl)

    # ---- 2. square-free decomposition and complete factorisation
    for F in allF:
        n = 36 if not big else 480
        for i in range(n):
            kind = i % 12
            facs = []
            if kind == 0:      # many factors of one degree
                d = rng.range(1, 3 if F.q < 10 else 2)
                k = rng.range(2, 5)
                seen = []
                for _ in range(k):
                    f = IRR.get(rng, F, d, True)
                    if f not in seen:
                        seen.append(f)
                facs = [(f, 1) for f in seen]; kl = "many factors of one degree"
            elif kind == 1:    # high multiplicities below the characteristic
                seen = []
                for _ in range(rng.range(1, 3)):
                    f = IRR.get(rng, F, rng.range(1, 2), True)
                    if f not in seen:
                        seen.append(f)
                facs = [(f, rng.range(1, max(1, min(F.p - 1, 5)))) for f in seen]; kl = "multiplicities < char"
            elif kind == 2:    # a multiplicity that is a multiple of p
                f = IRR.get(rng, F, 1, True); g = IRR.get(rng, F, rng.range(1, 2), True)
                facs = [(f, F.p)] + ([(g, rng.range(1, 2))] if g != f else []); kl = "multiplicity multiple of p"
                if F.p > 7:
                    facs = [(f, 3)] + ([(g, 2)] if g != f else []); kl = "multiplicities 3,2"
            elif kind == 3:    # degree divisible by p, square-free
                seen = []
                while sum(len(f) - 1 for f in seen) % F.p != 0 or not seen:
                    f = IRR.get(rng, F, rng.range(1, 3), True)
                    if f not in seen:
                        seen.append(f)
                    if len(seen) > 6:
                        break
                facs = [(f, 1) for f in seen]; kl = "degree divisible by p"
            elif kind == 4:    # x^n type: power of X and of X+1
                facs = [([0, 1], rng.range(1, 4)), ([1, 1], rng.range(1, 3))]; kl = "powers of X and X+1"
            elif kind == 5:    # irreducible input
                facs = [(IRR.get(rng, F, rng.range(1, 8 if F.q < 10 else 4)), 1)]; kl = "irreducible input"
            elif kind == 6:    # multiplicities 1,2,3 on distinct degrees
                seen = []
                for d in (1, 2, 3):
                    f = IRR.get(rng, F, d, True)
                    seen.append((f, d if d < F.p else 1))
                facs = seen; kl = "multiplicity = degree"
            elif kind == 7:    # multiplicity p+1 / p-1
                f = IRR.get(rng, F, 1, True)
                facs = [(f, F.p + 1 if F.p <= 5 else 4)]; kl = "multiplicity p+1"
            elif kind == 8:    # multiplicity pattern with gaps: slots in between stay trivial (1,3) (2,4) (1,4) (2,5) (1,3,5)
                pat = rng.choice([(1, 3), (2, 4), (1, 4), (2, 5), (1, 3, 5), (3,), (4,), (1, 2, 4)])
                seen = []
                for e in pat:
                    f = IRR.get(rng, F, rng.range(1, 2), True)
                    if f not in [g for g, _ in seen]:
                        seen.append((f, e))
                facs = seen; kl = "multiplicities with gaps %s" % (pat,)
            elif kind == 9:    # two different irreducibles of the same degree with different multiplicities
                f = IRR.get(rng, F, rng.range(1, 2), True); g = IRR.get(rng, F, len(f) - 1, True)
                facs = [(f, 1), (g, 2)] if f != g else [(f, 2)]; kl = "same degree, multiplicities 1 and 2"
            elif F.q ** 3 > 5000:      # large field: random product of random irreducibles (brute-force factoring is out of reach)
                facs = [(IRR.get(rng, F, rng.range(1, 3)), rng.range(1, 2)) for _ in range(rng.range(1, 3))]; kl = "random product"
            else:
                P = rand_poly(rng, F, rng.range(1, 9 if F.q < 10 else 6), monic=True)
                facs = None; kl = "random"
            if facs is not None:
                mg = {}
                for f, e in facs:            # the same irreducible may have been drawn twice: merge
                    mg[tuple(f)] = mg.get(tuple(f), 0) + e
                facs = [(list(f), e) for f, e in sorted(mg.items())]
                P = product(F, facs)
            if len(P) - 1 > 24:
                continue
            nonmonic = (i % 5 == 3)
            if nonmonic:
                P = pscale(F, 2 + rng.below(F.q - 2) if F.q > 2 else 1, P)
            if facs is None:
                facs = [(list(f), e) for f, e in sorted(factor_brute(F, P).items())]
            meta = {"facs": facs}
            kc = fac_class(F, P, facs)
            add("sqrfree", F, [], [P], meta, kc + "; " + kl)
            for op in (("cz", "cz.mod", "cz.factor")[i % 3],):
                m2 = dict(meta)
                m2["isolate"] = False      # (before fix-1 sqrfree wrote past g[nb] on the non-monic ones and needed a process of its own)
                add(op, F, stream(rng, 60 + 40 * len(P), F), [P], m2, kc + "; " + kl)

    # ---- 3. distinct-degree / equal-degree splitting on square-free inputs
    for F in allF:
        n = 14 if not big else 200
        for i in range(n):
            d = capd(F, rng.range(1, 3 if F.q < 10 else 2))
            k = rng.range(1, 4)
            seen = []
            for _ in range(k):
                f = IRR.get(rng, F, d, True)
                if f not in seen:
                    seen.append(f)
            G = product(F, [(f, 1) for f in seen])
            if rng.chance(1, 3):
                G = pscale(F, 1 + rng.below(F.q - 1), G)
            st = stream(rng, 400, F)
            meta = {"facs": [(f, 1) for f in seen], "d": d}
            add(("split", "split.mod")[i % 2], F, st, [G, str(d)], meta, "%d factors of degree %d" % (len(seen), d))
            add(("split1", "split1.mod")[i % 2], F, st, [G, str(d)], meta, "%d factors of degree %d" % (len(seen), d))
            # square-free with several degrees for DDF
            seen2 = list(seen)
            for _ in range(rng.range(0, 3)):
                f = IRR.get(rng, F, rng.range(1, 4 if F.q < 10 else 2), True)
                if f not in seen2:
                    seen2.append(f)
            if i % 4 == 0 and len(seen) >= 2:      # exactly two factors of degree deg/2: the last round of the loop
                seen2 = seen[:2]
            P = product(F, [(f, 1) for f in seen2])
            if rng.chance(1, 3):
                P = pscale(F, 1 + rng.below(F.q - 1), P)
            add(("ddf", "ddf.mod", "ddf.list")[i % 3], F, stream(rng, 500, F), [P], {"facs": [(f, 1) for f in seen2]},
                "square-free, degrees %s" % sorted(len(f) - 1 for f in seen2))

    # ---- 4. orders and primitive roots
    for F in allF:
        n = 10 if not big else 150
        for i in range(n):
            dmax = 1
            while F.q ** (dmax + 1) <= (3000 if not big else 70000) and dmax < 8:
                dmax += 1
            d = rng.range(1, dmax)
            M = IRR.get(rng, F, d)
            if rng.chance(1, 4):
                M = pscale(F, 1 + rng.below(F.q - 1), M)
            if i % 5 == 0 and F.q ** d <= 200:     # every element of the field
                els = [norm(list(t)) for t in itertools.product(range(F.q), repeat=d)]
            else:
                els = [rand_poly(rng, F, rng.range(0, d + 2)) for _ in range(4)] + [[], [1], [0, 1], M]
            for A in els:
                add("order", F, [], [A, M], {}, "field of %d^%d elements" % (F.q, d))
                add("isproot", F, [], [A, M], {}, "field of %d^%d elements" % (F.q, d))
            add("giveproot", F, stream(rng, 300), [M], {}, "degree %d" % d)
            add("giverandproot", F, stream(rng, 300), [M], {}, "degree %d" % d)

    # ---- 4b. groups whose order q^n - 1 does not fit the residue word (2^32 for Modular<int32_t>, 2^64 for GFqDom<int64_t>):
    #          the implementation must compute q^n - 1 in multiprecision; python decides from the factorisation of q^n - 1
    for F, n in bigG:
        for rep in range(1 if not big else 3):
            M = IRR.get(rng, F, n)
            N = F.q ** n - 1
            X1 = [1, 1]
            els = [("X+1", X1), ("X+2", [2, 1]), ("square", pmod(F, pmul(F, X1, X1), M)), ("constant", [3 % F.q or 1]),
                   ("X", [0, 1]), ("zero", []), ("one", [1])]
            for l in prime_factors(N)[:3]:
                els.append(("l-th power, l=%d" % l, ppowmod(F, [rng.below(F.q) for _ in range(n)], l, M)))
            if n % 2 == 0:     # an element of the proper subfield GF(q^(n/2))
                els.append(("subfield element", ppowmod(F, [rng.below(F.q) for _ in range(n)], F.q ** (n // 2) + 1, M)))
            for _ in range(3):
                els.append(("random", rand_poly(rng, F, rng.range(1, n - 1))))
            for kl, A in els:
                for op in ("isproot", "order"):
                    add(op, F, [], [A, M], {"nomodel": True}, "q^n >= 2^w, q=%d n=%d: %s" % (F.q, n, kl))
            add("giveproot", F, stream(rng, 300), [M], {"nomodel": True}, "q^n >= 2^w, q=%d n=%d" % (F.q, n))
            add("giverandproot", F, stream(rng, 300), [M], {"nomodel": True}, "q^n >= 2^w, q=%d n=%d" % (F.q, n))
            add("randproot", F, stream(rng, 900), [str(n)], {"n": n, "nomodel": True}, "q^n >= 2^w, q=%d n=%d" % (F.q, n))

    # ---- 5. requests for irreducible polynomials / primitive roots
    for F in allF:
        for nn in range(1, (7 if F.q < 10 else 4) + (2 if big else 0)):
            for rep in range(1 if not big else 4):
                if nn >= 2 or True:
                    add("randirr", F, stream(rng, 600), [str(nn)], {"n": nn}, "degree %d" % nn)
                    if nn >= 2 or F.q > 2:
                        add("creux", F, stream(rng, 600), [str(nn)], {"n": nn}, "degree %d" % nn)
                    if F.q ** nn <= 200000 and not (F.q == 2 and nn == 1):
                        add("ixe", F, stream(rng, 600), [str(nn)], {"n": nn}, "degree %d" % nn)
                        add("ixe2", F, stream(rng, 600), [str(nn)], {"n": nn}, "degree %d" % nn)
                        add("randproot", F, stream(rng, 900), [str(nn)], {"n": nn}, "degree %d" % nn)

    # ---- 5b. large requested degrees (irreducibility of the result decided by the python Rabin test)
    for F in allF:
        for nn in ((12, 17) if F.q < 10 else (9,)) if not big else ((12, 17, 24, 31) if F.q < 10 else (9, 13)):
            add("randirr", F, stream(rng, 3000), [str(nn)], {"n": nn, "nomodel": nn > 12}, "large degree %d" % nn)
            add("creux", F, stream(rng, 3000), [str(nn)], {"n": nn, "nomodel": nn > 12}, "large degree %d" % nn)
            if F.q ** nn <= 10 ** 9:
                add("ixe", F, stream(rng, 3000), [str(nn)], {"n": nn, "nomodel": True}, "large degree %d" % nn)

    # ---- 7. the helpers every operation shares, driven directly: diff, powmod (exponents on both sides of every word
    #         limit), gcd -- deterministic inputs (sparse, structured) plus random ones
    gen_helpers(rng, add, big, fields, gfq)
    # ---- 8. sparse and structured inputs for every entry point (deterministic)
    gen_structured(rng, add, big, fields, gfq)
    # ---- 8b. characteristic 2 at the sizes the splitting can still reach (see gen_char2)
    gen_char2(rng, add, big, fields, gfq)
    # ---- 9. fields whose q, q^n, (q^n-1)/2, (q^n-1)/l land on both sides of 2^31, 2^32, 2^63, 2^64 (2^128), through every
    #         ring type the implementation is instantiated with (deterministic list, see boundary_fields)
    gen_boundary(rng, add, big, bnd)

    # ---- 6. cyclotomic polynomials and composition with X^b (givpoly1cyclo.inl)
    for F in fields:
        for nn in list(range(1, 31 if not big else 120)):
            if nn % F.p == 0:
                continue
            add("cyclo", F, [], [str(nn)], {"n": nn}, "n=%d" % nn)
        for i in range(6 if not big else 40):
            P = rand_poly(rng, F, rng.range(0, 6)); b = rng.range(1, 5)
            add("pcomp", F, [], [P, str(b)], {}, "random")
    return C



# ------------------------------------------------------------------ deterministic generators (phase 3)
POW_EXPONENTS = [0, 1, 2, 3, 5, 2 ** 16, 2 ** 31 - 1, 2 ** 31, 2 ** 31 + 1, 2 ** 32 - 1, 2 ** 32, 2 ** 32 + 1, 2 ** 62 + 12345,
                 2 ** 63 - 1, 2 ** 63, 2 ** 63 + 1, 2 ** 63 + 2 ** 62 + 7, 2 ** 64 - 1, 2 ** 64, 2 ** 64 + 1, 2 ** 64 + 2 ** 63 + 5,
                 2 ** 65 - 1, 2 ** 65, 2 ** 96 + 3, 2 ** 127 - 1, 2 ** 127, 2 ** 128 - 1, 2 ** 128, 2 ** 128 + 2 ** 64 + 1, 2 ** 192 + 2 ** 64 - 1]


def sparse_polys(F, big):
    """deterministic structured polynomials: zero coefficients below non-zero ones, X^k factors, polynomials in X^2 / X^p,
    binomials, trinomials, all-ones, alternating"""
    q, p = F.q, F.p
    a, b, c = 1, (2 % q) or 1, (q - 1)
    out = [[], [a], [c], [0, 1], [a, 1], [0, 0, 1], [0, 0, 0, 1]]
    for n in (2, 3, 4, 5, 6, 7, 8, 9, 12) + ((16, 17, 25) if big else ()):
        out.append([0] * n + [1])                         # X^n
        out.append([a] + [0] * (n - 1) + [1])             # X^n + 1
        out.append([c] + [0] * (n - 1) + [b])             # b X^n - 1
        out.append([0, a] + [0] * (n - 1) + [1])          # X^(n+1) + X
        for d in (1, 2, n // 2, n - 1):
            if 0 < d < n:
                t = [a] + [0] * (n - 1) + [1]
                t[d] = b
                out.append(t)                             # X^n + b X^d + 1
                out.append([0] * 2 + t)                   # X^2 (X^n + b X^d + 1)
        out.append([1] * (n + 1))                         # 1 + X + ... + X^n
        out.append([(a if i % 2 == 0 else 0) for i in range(n + 1)][:n] + [1])      # even part + X^n
        out.append([(i % q) for i in range(n)] + [1])     # coefficient i at X^i (zero at every multiple of q)
    for base in ([a, 1], [b, a, 1], [c, 0, a, 1], [a, b, 0, 0, 1]):
        for e in (2, p, p + 1) if p <= 7 else (2, 3):
            w = [0] * ((len(base) - 1) * e + 1)
            for i, x in enumerate(base):
                w[i * e] = x
            out.append(w)                                 # base(X^e): a polynomial in X^e (derivative zero when e = p)
    seen, res = set(), []
    for P in out:
        t = tuple(norm(P))
        if t not in seen and len(t) <= 40:
            seen.add(t)
            res.append(list(t))
    return res


def gen_helpers(rng, add, big, fields, gfq):
    for F in fields + gfq:
        sp = sparse_polys(F, big)
        for i, P in enumerate(sp):
            add(("diff", "diff.in")[i % 2], F, [], [P], {}, "structured")
        if F.q <= 5:                                       # every polynomial of degree <= 4 / 3
            for d in range(0, 5 if F.q <= 3 else 4):
                for M in monics(F, d):
                    add("diff", F, [], [M], {}, "exhaustive deg %d" % d)
        for i in range(10 if not big else 60):
            P = rand_poly(rng, F, rng.range(0, 12))
            for j in range(len(P) - 1):                    # knock out coefficients: zero below non-zero
                if rng.chance(1, 2):
                    P[j] = 0
            add(("diff", "diff.in")[i % 2], F, [], [P], {}, "random sparse")
        # powmod: every boundary exponent, three moduli, bases below / above the modulus degree, zero base
        mods = [IRR.get(rng, F, 2), rand_poly(rng, F, 3, monic=False), [1, 0, 0, 1, 1] if F.q == 2 else [F.q - 1, 0, 0, 0, 1]]
        for i, e in enumerate(POW_EXPONENTS + [rng.bits(rng.range(1, 200)) for _ in range(6 if not big else 40)]):
            U = mods[i % 3]
            B = [[0, 1], [1, 1], rand_poly(rng, F, rng.range(0, 6)), U, []][i % 5]
            add(("powmod", "powmod", "powmod.in")[i % 3], F, [], [B, str(e), U], {}, "exponent of %d bits" % e.bit_length())
        for i in range(len(sp)):
            A, B = sp[i], sp[(7 * i + 3) % len(sp)]
            if A or B:
                add("gcd", F, [], [A, B], {}, "structured")
        # sizes on both sides of 2^8 (and, for the derivative, 2^16): index / counter types narrower than the degree
        if F.q in (2, 101) and isinstance(F, Fp):
            for d in (255, 256, 257, 300) + ((65535, 65536, 65537) if F.q == 101 else ()):
                P = [((7 * i * i + 3 * i + 1) % F.q if i % 5 else 0) for i in range(d)] + [1]
                add("diff", F, [], [P], {"nomodel": d > 1000}, "degree %d" % d)
            for d in (255, 256, 257):
                A = [((5 * i * i + i + 2) % F.q) for i in range(d)] + [1]
                G = [1, 1, 0, 1] if F.q == 2 else [3, 0, 1, 1]
                add("gcd", F, [], [pmul(F, A, G), pmul(F, pdiff(F, A) or [1], G)], {"nomodel": True}, "degree %d" % d)
                add("powmod", F, [], [[0, 1], str(F.q ** 3), A], {"nomodel": True}, "modulus of degree %d" % d)
            for d in (128, 129):                       # square-free decomposition of f^2 g, deg = 3 d +- : parts multiply back
                f = [((3 * i * i + 2 * i + 1) % F.q) for i in range(d)] + [1]
                g = [((i * i + 5 * i + 2) % F.q) for i in range(d - 1)] + [1]
                if F.q > 2:
                    add("sqrfree", F, [], [pmul(F, pmul(F, f, f), g)], {"nomodel": True}, "multiplicities<char; degree %d" % (3 * d - 1))
        for i in range(8 if not big else 60):
            G = rand_poly(rng, F, rng.range(0, 4))
            add("gcd", F, [], [pmul(F, G, rand_poly(rng, F, rng.range(0, 5))), pmul(F, G, rand_poly(rng, F, rng.range(0, 5)))], {}, "common factor")


def some_irr(rng, F, d, n):
    """up to n distinct monic irreducibles of degree d (the first ones when the field is small enough to list them)"""
    if F.q ** d <= 3000:
        return IRR.all_small(F, d)[:n]
    out = []
    for _ in range(4 * n):
        f = IRR.get(rng, F, d)
        if f not in out:
            out.append(f)
        if len(out) == n:
            break
    return out


def gen_structured(rng, add, big, fields, gfq):
    """deterministic structured inputs for sqrfree / CZfactor / DDF / SplitFactor / the irreducibility tests / order: the
    factorisation of each input is known from its construction"""
    for F in fields + gfq:
        q, p = F.q, F.p
        if q > 200:
            continue
        X, X1 = [0, 1], [1, 1]
        lin = [[F.neg(a), 1] for a in range(min(q, 12))]       # X - a
        irr2 = some_irr(rng, F, 2, 3)
        irr3 = some_irr(rng, F, 3, 2) if q <= 13 else []
        sparse_irr = [f for d in (2, 3, 4, 5) if q ** d <= 3000 for f in IRR.all_small(F, d) if sum(1 for x in f if x) <= 3][:4]
        cases = []                                          # (facs, class)
        # X^k times something, k = 1..4 (the derivative has a zero low part)
        for k in (1, 2, 3, 4):
            cases.append(([(X, k)], "X^%d" % k))
            cases.append(([(X, k), (X1, 1)], "X^%d (X+1)" % k))
            if irr2:
                cases.append(([(X, k), (irr2[0], 2 if p > 2 else 1)], "X^%d times a square" % k))
        # every multiplicity pattern below the characteristic on up to three distinct linear factors
        mm = [e for e in range(1, min(p, 6))]
        pats = [(e,) for e in mm] + [(e1, e2) for e1 in mm for e2 in mm] + \
               ([(e1, e2, e3) for e1 in mm for e2 in mm for e3 in mm] if (p <= 5 or big) else [(1, 2, 3), (3, 2, 1), (2, 2, 1), (1, 1, 2)][:4 if p > 3 else 0])
        for pat in pats:
            if len(pat) <= len(lin) and sum(pat) <= 14:
                cases.append(([(lin[i + 1 if q > len(pat) else i], e) for i, e in enumerate(pat)], "multiplicity pattern %s" % (pat,)))
        # sparse irreducibles with every multiplicity below the characteristic; two sparse irreducibles squared
        for f in sparse_irr:
            for e in mm[:4]:
                if (len(f) - 1) * e <= 16:
                    cases.append(([(f, e)], "sparse irreducible ^%d" % e))
        if len(sparse_irr) >= 2 and p > 2:
            cases.append(([(sparse_irr[0], 2), (sparse_irr[1], 1)], "sparse^2 * sparse"))
            cases.append(([(sparse_irr[0], 2), (sparse_irr[1], 2), (X, 1)], "X sparse^2 sparse^2"))
        # products of many distinct linear factors: all of them (X^q - X), all non-zero (X^(q-1) - 1), half
        if q <= 13:
            cases.append(([(f, 1) for f in lin[:q]], "all linear factors (X^q - X)"))
            cases.append(([(f, 1) for f in lin[1:q]], "all non-zero roots (X^(q-1) - 1)"))
        cases.append(([(f, 1) for f in lin[:max(1, min(q, 12) // 2)]], "half of the linear factors"))
        # degrees at the loop bound of the distinct-degree stage: two factors of degree deg/2; factor of degree (deg+1)/2
        for d, fs in ((2, irr2), (3, irr3)):
            if len(fs) >= 2:
                cases.append(([(fs[0], 1), (fs[1], 1)], "two factors of degree deg/2 = %d" % d))
                cases.append(([(fs[0], 1), (fs[1], 1), (lin[1 % len(lin)], 1)], "degrees %d+%d+1" % (d, d)))
                cases.append(([(fs[0], 1), (lin[1 % len(lin)], 1)], "degrees %d+1" % d))
        # polynomials in X^p (p-th powers over the prime field): the recorded defect class, kept under its narrow key
        for f in ([1, 1], [1, 1, 1] if p != 3 else [2, 1, 1]):
            w = [0] * ((len(f) - 1) * p + 1)
            for i, x in enumerate(f):
                w[i * p] = x
            if len(w) <= 16 and isinstance(F, Fp):
                fb = sorted(factor_brute(F, w).items()) if q ** ((len(w) - 1) // 2) <= 20000 else None
                if fb:
                    cases.append(([(list(g), e) for g, e in fb], "polynomial in X^p"))
        for n, (facs, kl) in enumerate(cases):
            mg = {}
            for f, e in facs:
                mg[tuple(f)] = mg.get(tuple(f), 0) + e
            facs = [(list(f), e) for f, e in sorted(mg.items())]
            P = product(F, facs)
            if len(P) - 1 > 24 or len(P) < 2:
                continue
            if n % 4 == 3 and q > 2:
                P = pscale(F, 2, P)
            if F.p == 2 and any(q ** (len(f) - 1) > 64 for f, e in facs):
                continue
            kc = fac_class(F, P, facs)
            meta = {"facs": facs}
            add("sqrfree", F, [], [P], meta, kc + "; structured: " + kl)
            m2 = dict(meta)
            m2["isolate"] = False
            add(("cz", "cz.mod", "cz.factor")[n % 3], F, stream(rng, 60 + 40 * len(P), F), [P], m2, kc + "; structured: " + kl)
            add(("irr", "irr.mod", "irr2", "irr2.mod")[n % 4], F, [], [P], {}, "structured: " + kl)
            if all(e == 1 for f, e in facs):
                add(("ddf", "ddf.mod", "ddf.list")[n % 3], F, stream(rng, 500, F), [P], meta, "structured: " + kl)
                ds = set(len(f) - 1 for f, e in facs)
                if len(ds) == 1:
                    d = ds.pop()
                    m3 = {"facs": facs, "d": d}
                    add(("split", "split.mod")[n % 2], F, stream(rng, 500, F), [P, str(d)], m3, "structured: " + kl)
                    add(("split1", "split1.mod")[n % 2], F, stream(rng, 500, F), [P, str(d)], m3, "structured: " + kl)
        # sparse moduli / sparse elements for order and is_prim_root; every binomial and trinomial for the two tests
        for n in (2, 3, 4, 5, 6) if q <= 7 else (2, 3):
            if q ** n > 40000:
                continue
            for a0 in range(q):
                B = [a0] + [0] * (n - 1) + [1]
                add(("irr", "irr2", "irr.mod", "irr2.mod")[(a0 + n) % 4], F, [], [B], {}, "binomial X^%d + a" % n)
                for d in range(1, n):
                    for b0 in range(1, min(q, 4)):
                        T3 = list(B)
                        T3[d] = b0
                        add(("irr", "irr2")[(a0 + d + b0) % 2], F, [], [T3], {}, "trinomial X^%d + b X^%d + a" % (n, d))
            Ms = [f for f in (IRR.all_small(F, n) if q ** n <= 3000 else []) if sum(1 for x in f if x) <= 3][:2]
            for M in Ms:
                for A in ([0, 1], [1, 1], [0, 0, 1], [1, 0, 1], [0] * (n - 1) + [1], [1] + [0] * (n - 1) + [1], [0] * (n + 1) + [1]):
                    add("order", F, [], [A, M], {}, "sparse modulus, sparse element")
                    add("isproot", F, [], [A, M], {}, "sparse modulus, sparse element")
                add("giveproot", F, stream(rng, 300), [M], {}, "sparse modulus")


def boundary_fields(big):
    """(q, k, label): primes q with q^k just below / just above T for T = 2^31, 2^32, 2^63, 2^64 and k = 1, 2, 3 (so that q, q^k,
    (q^k-1)/2 and the (q^k-1)/l fall on both sides of each word limit), T = 2^128 with k = 1 (multi-limb), and the two fields
    of the blind change C09-m5 (q^3 and (q^3-1)/2 in [2^63, 2^64))"""
    out = []
    for tb in (31, 32, 63, 64, 128):
        T = 1 << tb
        for k in (1, 2, 3):
            if tb == 128 and k > 1:
                continue
            r = iroot(T - 1, k)                       # largest r with r^k < T
            lo, hi = prev_prime(r + 1), next_prime(r + 1)
            out.append((lo, k, "q^%d just below 2^%d" % (k, tb)))
            out.append((hi, k, "q^%d just above 2^%d" % (k, tb)))
    out.append((2300003, 3, "q^3 in [2^63, 2^64)"))
    out.append((2 ** 127 - 1, 1, "Mersenne prime 2^127 - 1 (two limbs)"))
    return out


def ring_types(q, rot):
    """ring types of the implementation able to hold the prime q; every field gets Modular<Integer> or the widest word type plus one
    more type in rotation, so that each type sees each boundary it can reach"""
    ts = []
    if q < 2 ** 16:
        ts += ["", "q"]
    if q < 94906266:
        ts.append("md")
    if q <= 2 ** 32:
        ts.append("m64")
    if q < 2 ** 64:
        ts.append("mu64")
    ts.append("mI")
    if len(ts) <= 2:
        return ts
    return [ts[-1], ts[rot % (len(ts) - 1)]] if rot >= 0 else ts


def mkfield(q, tag):
    return Fp(q) if tag == "" else (FpG(q) if tag == "q" else FpT(q, tag))


def gen_boundary(rng, add, big, bnd):
    X = [0, 1]
    for idx, (q, k, label) in enumerate(bnd):
        N = q ** k - 1
        pf = prime_factors(N)
        F0 = Fp(q)
        M = IRR.get(rng, F0, k)
        M2 = IRR.get(rng, F0, k)
        while M2 == M:
            M2 = IRR.get(rng, F0, k)
        a, b, c = 3 % q, 5 % q, 7 % q
        la, lb, lc_ = [q - a, 1], [q - b, 1], [q - c, 1]
        # a generator of (F_q[X]/M)^*: the first of X+1, X+2, ... (k >= 2) / 2, 3, ... (k = 1) of order N
        g = None
        for t in range(1, 400):
            cand = [t % q, 1] if k >= 2 else [(t + 1) % q]
            if all(ppowmod(F0, cand, N // l, M) != [1] for l in pf):
                g = pmod(F0, cand, M)
                break
        els = [("X+1", [1, 1]), ("constant 2", [2 % q]), ("constant -1", [q - 1]), ("X", X), ("zero", []), ("one", [1]),
               ("multiple of the modulus", M), ("random", rand_poly(rng, F0, max(0, k - 1)))]
        if g is not None:
            els.append(("generator", g))
            els.append(("generator squared", ppowmod(F0, g, 2, M)))
            for l in sorted(set(pf[:3] + pf[-2:])):
                els.append(("generator^l, l=%d" % l, ppowmod(F0, g, l, M)))
                els.append(("element of order l=%d" % l, ppowmod(F0, g, N // l, M)))
            if len(pf) >= 2:
                els.append(("generator^(l1 l2)", ppowmod(F0, g, pf[0] * pf[-1], M)))
        for ti, tag in enumerate(ring_types(q, idx if not big else -1)):
            if tag == "q" and q >= 2 ** 17:
                continue
            F = mkfield(q, tag)
            nm = {"nomodel": (q > 2000 or tag != "")}
            nmo = {"nomodel": True}       # the model's trial-division prime_factors cannot factor q^k - 1 at these sizes
            kl = "boundary %s, q=%d" % (label, q)
            forms = ("irr", "irr.mod", "irr2", "irr2.mod")
            polys = [("irreducible of degree %d" % k, M), ("two irreducibles of degree %d" % k, pmul(F0, M, M2)),
                     ("irreducible times linear", pmul(F0, M, la)), ("linear", la)]
            if k >= 2:
                polys.append(("%d linear factors" % k, product(F0, [([q - 1 - i, 1], 1) for i in range(k)])))
            if k <= 2:
                polys.append(("irreducible of degree %d" % (2 * k), IRR.get(rng, F0, 2 * k)))
            for j, (pk, P) in enumerate(polys):
                if j % 3 == 1:
                    P = pscale(F0, 2 + rng.below(q - 2), P)
                for f in forms:
                    add(f, F, [], [P], nm, kl + ": " + pk)
            # factorisation: (X-3)^2 (X-5) M, square-free (X-3)(X-5) M, M M2 (X-7)
            facs = [(la, 2), (lb, 1), (M, 1)] if M not in (la, lb) else [(la, 2), (lb, 1)]
            P = product(F0, facs)
            mt = dict(nm, facs=facs)
            add("sqrfree", F, [], [P], mt, "multiplicities<char; " + kl)
            add(("cz", "cz.mod", "cz.factor")[(idx + ti) % 3], F, stream(rng, 400), [P], mt, "multiplicities<char; " + kl)
            facs2 = [(f, 1) for f in sorted(set(tuple(x) for x in (la, lb, M, M2)))]
            facs2 = [(list(f), 1) for f, _ in facs2]
            P2 = product(F0, facs2)
            mt2 = dict(nm, facs=facs2)
            add(("cz.mod", "cz.factor", "cz")[(idx + ti) % 3], F, stream(rng, 400), [pscale(F0, 2, P2)], mt2, "multiplicities<char; " + kl)
            add(("ddf", "ddf.mod", "ddf.list")[(idx + ti) % 3], F, stream(rng, 400), [P2], mt2, kl)
            fl = [(la, 1), (lb, 1), (lc_, 1)]
            m3 = dict(nm, facs=fl, d=1)
            add(("split", "split.mod")[ti % 2], F, stream(rng, 400), [product(F0, fl), "1"], m3, kl + ": 3 linear factors")
            add(("split1", "split1.mod")[ti % 2], F, stream(rng, 400), [product(F0, fl), "1"], m3, kl + ": 3 linear factors")
            if k >= 2:
                m4 = dict(nm, facs=[(M, 1), (M2, 1)], d=k)
                add(("split.mod", "split")[ti % 2], F, stream(rng, 400), [pmul(F0, M, M2), str(k)], m4, kl + ": 2 factors of degree %d" % k)
            # helpers with the field's own exponents
            for e in (q, q - 1, (q - 1) // 2, q ** k, N, N // 2, N // pf[-1]):
                add("powmod", F, [], [[1, 1], str(e), pmul(F0, M, la)], nm, kl + ": exponent of %d bits" % e.bit_length())
            add("diff", F, [], [P], nm, kl)
            add("gcd", F, [], [P, P2], nm, kl)
            # orders and primitive roots modulo M
            for ei, (ek, A) in enumerate(els):
                # the model's trial division cannot factor q^k - 1: its factor list is an input (Model3.is_prim_root_L / order_L); the
                # extracted inverse is unary in q, so only Modular<int32_t> fields, and a sample when q is large
                mo = dict(nmo, L=pf) if (tag == "" and (q < 2000 or ei % 4 == 0)) else nmo
                add("isproot", F, [], [A, M], mo, kl + ": " + ek)
                add("order", F, [], [A, M], mo, kl + ": " + ek)
            add("giveproot", F, stream(rng, 300), [M], nmo, kl)
            add("giverandproot", F, stream(rng, 300), [M], nmo, kl)
            add("randproot", F, stream(rng, 900), [str(k)], dict(nmo, n=k), kl)
            add("randirr", F, stream(rng, 600), [str(k)], dict(nm, n=k), kl)
            # the sparse searches enumerate up to q binomials/trinomials when none is irreducible / primitive: only where that is cheap
            if k <= 2 or q < 4096:
                add("creux", F, stream(rng, 600), [str(k)], dict(nm, n=k), kl)
            if k == 1 or q < 4096:
                add("ixe", F, stream(rng, 600), [str(k)], dict(nmo, n=k), kl)
                add("ixe2", F, stream(rng, 600), [str(k)], dict(nmo, n=k), kl)


# ------------------------------------------------------------------ verdict of one case (implementation vs specification)
def check_factors(F, P, L, E, need_irreducible=True):
    """L, E as returned; returns None if fine, else a reason"""
    if any(len(f) < 2 for f in L):
        return "a returned factor is constant or zero"
    if need_irreducible:
        for f in L:
            if f != norm(f):
                return "a returned factor is not normalised"
            if not irreducible(F, f):
                return "returned factor %s is reducible" % pstr(f)
    mon = [tuple(pmonic(F, f)) for f in L]
    if len(set(mon)) != len(mon):
        return "two returned factors are associates"
    if E is not None:
        if len(E) != len(L):
            return "number of exponents differs from number of factors"
        if any(e < 1 for e in E):
            return "a returned multiplicity is < 1"
    R = product(F, [(list(m), (E[i] if E is not None else 1)) for i, m in enumerate(mon)])
    if R != pmonic(F, P):
        return "product of the returned factors (with multiplicities) is not the input up to a constant"
    return None


def verdict(c, payload):
    """None = the implementation's answer satisfies the property; else (expected, reason)"""
    F, b = c.F, c.base()
    if payload.startswith("EXHAUSTED"):
        # running out of the supplied random draws (even after the long continuation, see main) is not a wrong answer:
        # inconclusive.  main() turns it into a failing input only when the model, fed the same stream, does finish.
        return ("INCONCLUSIVE", "the call did not finish within the %d random draws supplied" % len(c.stream))
    if payload.startswith(("EXN", "THROW", "UNKNOWN")):
        return ("a result", "the call ended with " + payload)
    if b in ("irr", "irr2"):
        P = ppar(c.args[0])
        exp = irreducible(F, P)
        return None if payload == ("1" if exp else "0") else (int(exp), "answer differs from the definition (divisor search / Rabin)")
    if b == "sqrfree":
        P = ppar(c.args[0])
        m = re.match(r"^(\d+)\s+(\[.*\])$", payload)
        if not m:
            return ("n [factors]", "unparsable")
        L, _ = parse_list(m.group(2))
        if L is None or len(L) != int(m.group(1)) or any(not f for f in L):
            return ("n [n non-zero factors]", "count and list differ, or a zero factor")
        R = product(F, [(f, i + 1) for i, f in enumerate(L)])
        if pmonic(F, R) != pmonic(F, P):
            return (None, "product of Fact[i]^(i+1) is not the input up to a constant")
        for i, f in enumerate(L):
            if len(f) > 1 and len(pgcd(F, f, pdiff(F, f))) != 1:
                return (None, "part %d is not square-free" % (i + 1))
            for g in L[i + 1:]:
                if len(f) > 1 and len(g) > 1 and len(pgcd(F, f, g)) != 1:
                    return (None, "parts are not pairwise coprime")
        return None
    if b in ("cz", "ddf", "split"):
        P = ppar(c.args[0])
        L, E = parse_list(payload)
        if L is None:
            return ("[factors]", "unparsable")
        if b == "cz" and E is None:
            return ("[factors] {exponents}", "no exponents")
        r = check_factors(F, P, L, E)
        if r is None and b == "split" and any(len(f) - 1 != c.meta["d"] for f in L):
            r = "a returned factor has not the requested degree"
        if r is None and "facs" in c.meta:
            exp = sorted((tuple(pmonic(F, f)), e) for f, e in c.meta["facs"])
            got = sorted((tuple(pmonic(F, f)), (E[i] if E else 1)) for i, f in enumerate(L))
            if exp != got:
                return ("ORACLE", "factorisation known from the construction differs although every check passed")
        return None if r is None else (sorted((pstr(f), e) for f, e in c.meta.get("facs", [])), r)
    if b == "split1":
        G = ppar(c.args[0]); R = ppar(payload); d = c.meta["d"]
        if len(G) - 1 == d:
            return None if R == G else (pstr(G), "G of degree d must be returned unchanged")
        if not (0 < len(R) - 1 < len(G) - 1) or pmod(F, G, R):
            return ("a proper divisor", "returned polynomial is not a proper non-constant divisor of G")
        return None
    if b in ("order", "isproot"):
        A, M = ppar(c.args[0]), ppar(c.args[1])
        o = order_spec(F, A, M)
        if b == "order":
            return None if payload == str(o) else (o, "order differs from the definition")
        prim = (o == F.q ** (len(M) - 1) - 1) and o > 0
        return None if payload == ("1" if prim else "0") else (int(prim), "primitivity answer differs from order == q^n - 1")
    if b in ("randirr", "creux", "ixe", "ixe2"):
        R = ppar(payload); n = c.meta["n"]
        if R != norm(R) or len(R) - 1 != n:
            return ("degree %d" % n, "returned polynomial has not exactly the requested degree")
        if not irreducible(F, R):
            return ("irreducible", "returned polynomial is reducible")
        if b in ("ixe", "ixe2") and order_spec(F, [0, 1], R) != F.q ** n - 1:
            return ("X primitive", "X is not a primitive root modulo the returned polynomial")
        return None
    if b in ("giveproot", "giverandproot"):
        M = ppar(c.args[0]); R = ppar(payload)
        if order_spec(F, R, M) != F.q ** (len(M) - 1) - 1:
            return ("order q^n - 1", "returned element has a smaller order")
        return None
    if b == "randproot":
        t = payload.split()
        if len(t) != 2:
            return ("P R", "unparsable")
        P, R = ppar(t[0]), ppar(t[1]); n = c.meta["n"]
        if len(P) - 1 != n or not irreducible(F, P):
            return ("irreducible of degree %d" % n, "returned modulus is not irreducible of the requested degree")
        if order_spec(F, R, P) != F.q ** n - 1:
            return ("order q^n - 1", "returned element is not a primitive root")
        return None
    if b == "factor1":
        P = ppar(c.args[0]); R = ppar(payload)
        if len(P) < 2:
            return None
        if irreducible(F, P):
            return None if R == P else (pstr(P), "P is irreducible and must be returned unchanged")
        if not (0 < len(R) - 1 < len(P) - 1) or pmod(F, P, R):
            return ("a proper divisor", "P is reducible: a non-trivial factor (proper non-constant divisor) must be returned")
        return None
    if b == "diff":
        exp = pdiff(F, ppar(c.args[0]))
        return None if ppar(payload) == exp else (pstr(exp), "not the formal derivative")
    if b == "powmod":
        exp = ppowmod(F, ppar(c.args[0]), int(c.args[1]), ppar(c.args[2]))
        return None if ppar(payload) == exp else (pstr(exp), "not P^e mod U")
    if b == "gcd":
        exp = pgcd(F, ppar(c.args[0]), ppar(c.args[1]))
        got = ppar(payload)
        return None if got == norm(got) and pmonic(F, got) == exp else (pstr(exp), "not a greatest common divisor (compared after making it monic)")
    if b == "fieldinfo":
        exp = "%d %d %d" % (F.q, F.p, F.q)
        return None if payload == exp else (exp, "residu() / characteristic() / cardinality() are not q, p, q")
    if b == "cyclo":
        exp = cyclotomic_spec_Z(F, c.meta["n"])
        return None if ppar(payload) == exp else (pstr(exp), "not the n-th cyclotomic polynomial")
    if b == "pcomp":
        P = ppar(c.args[0]); bb = int(c.args[1])
        exp = [0] * ((len(P) - 1) * bb + 1) if P else []
        for i, x in enumerate(P):
            exp[i * bb] = x
        return None if ppar(payload) == exp else (pstr(exp), "not P(X^b)")
    return ("?", "no oracle for " + c.op)


def failing_class(c, payload=""):
    """input class used as the key of a finding: narrow, derived from the input"""
    b = c.base()
    if b in ("sqrfree", "cz"):
        return c.klass.split(";")[0]
    if b in ("irr", "irr2"):
        P = ppar(c.args[0])
        if len(P) <= 1:
            return "constant"
        if len(P) == 2:
            return "degree 1"
        return "reducible" if not irreducible(c.F, P) else "irreducible"
    if b == "cyclo":
        return "n>=2" if c.meta["n"] >= 2 else "n<=1"
    if b == "ixe2":
        return "n=1" if c.meta["n"] == 1 else "n>=2"
    return "any"


def main(tier, replay=None):
    chk = vf.Check("C09", tier, "proof")
    rng = vf.Rng(chk.seed)
    chk.cov["trusted_base"] = [
        "Coq 8.16.1 kernel + vm_compute (no native_compute)",
        "extraction: ExtrOcamlBasic only; Z/positive/nat kept as extracted inductives; OCaml 4.13.1; zarith only for text I/O in harness/zio.ml",
        "the Gallina model (coq/C09/Model.v) is hand-written after the C++ control structure; the tie is the correspondence run on every case of a prime field (same stream of generator outputs on both sides)",
        "harness/c09_factor.C (Replay generator substituted for GivRandom through the RandomIterator template parameter), checks/C09.py (generators, python GF(q) arithmetic, divisor search, Rabin test, order by definition)",
        "is_prim_root / order / give_prim_root factor q^n-1 with a local IntFactorDom<> whose generator is seeded from the clock (givrandom.h): it cannot be seeded from outside, runs on large fields are not replayable step by step; the answers do not depend on it (checked against the factorisation computed by python), the running time does: a `does not return` verdict needs the per-case CPU budget to be exceeded twice, the second time alone (quick: 10 s in the batch, then 30 s alone)",
        "not proved: that the X^(q^i)-X gcd test characterises irreducibility for every q and degree (finite-field structure theory); claimed only for the exhaustively swept bounds stated in the theorems",
    ]
    chk.assumptions = ["partial: theorems cover the logic (product preservation for every oracle stream, verified checkers) and bounded exhaustive sweeps; the rest is checked per run on the implementation's outputs",
                       "extension fields GF(p^k) (GFqDom) are not modelled in Coq: implementation vs python specification only"]
    chk.cov["inconclusive_tooling_timeouts"] = []
    import time
    PH = {}
    T0 = [time.time()]

    def phase(name):
        PH[name] = round(time.time() - T0[0], 1)
        T0[0] = time.time()
    # 1. proofs (a time-out of the Coq build under machine load is a time-out of the tooling: recorded, not a broken proof)
    res = vf.coq_check_props(AREA, timeout=3000)
    if not res["ok"] and not res["forbidden"] and "[timeout after" in res["log"]:
        chk.cov["obligations"] += len(res["theorems"])
        chk.cov["inconclusive_tooling_timeouts"].append("coq build of coq/C09 did not finish within 3000 s")
    else:
        chk.proof_result(res, AREA)
    phase("coq")
    # 2. executables
    drv, l1 = vf.ocaml_build(AREA) if os.path.exists(os.path.join(vf.coq_dir(AREA), "ocaml", "model.ml")) else (None, "extraction did not run")
    if drv is None:
        if "[timeout after" in l1:
            chk.cov["inconclusive_tooling_timeouts"].append("ocaml build of the extracted model timed out")
        else:
            chk.broke("extracted model driver does not build", l1)
    # facts read from the current source (recorded).  The harness is compiled as standard C++ (fix-5 is in: reverting it breaks the
    # build = VIOLATION).  The single-factor form `Rep& factor(Rep&, const Rep&[, MOD])` is driven when it can be instantiated.
    chk.cov["source_facts"] = source_facts()
    factor1_ok = not chk.cov["source_facts"].get("factor_single_uses_Rep_copy", True)
    flags = ["-DC09_PERMISSIVE", "-Wno-sign-compare"] + (["-DC09_FACTOR1"] if factor1_ok else [])
    himpl, l2 = vf.build_harness("c09_factor.C", extra_flags=flags, timeout=2400)
    if himpl is None and factor1_ok and "[timeout after" not in l2 and "copy" in l2:
        # the text test was wrong about the single-factor form: it still cannot be instantiated
        factor1_ok = False
        himpl, l2 = vf.build_harness("c09_factor.C", extra_flags=flags[:2], timeout=2400)
    if himpl is None:
        if "[timeout after" in l2:
            chk.cov["inconclusive_tooling_timeouts"].append("g++ did not finish the harness within 2400 s")
        else:
            chk.broke("implementation harness does not compile against /repo", l2)
        return chk.finish()
    if not factor1_ok:
        # Rep::copy does not exist for the Rep of Poly1Dom<Domain,Dense>: the member cannot be instantiated (same class as fix-5)
        key = [k for k in vf.load_known() if k.get("property") == "C09" and k.get("site") == SITE["factor1"]]
        if key:
            chk.fail_input(SITE["factor1"], "does-not-compile", {"op": "factor1", "field": "-", "stream": [], "args": [], "class": "instantiation"},
                           "an instantiable member", "W.copy( / D.copy( in givpoly1factor.inl",
                           "Rep& factor(Rep&, const Rep&, Residu_t) uses Rep::copy, which the dense representation does not have")
        else:
            chk.notes.append("Poly1FactorDom::factor(Rep&,const Rep&[,MOD]) cannot be instantiated (Rep::copy): frag/C09.fix-7.diff; finding not yet registered")
    phase("build")
    # 3. fields: the extension fields need the modulus GFqDom chose
    fields = [Fp(p) for p in ([2, 3, 5, 7, 13, 101] if tier == "quick" else [2, 3, 5, 7, 11, 13, 31, 101, 65521])]
    gfq = []
    for p, k in ([(2, 2), (3, 2), (2, 3), (5, 2)] if tier == "quick" else [(2, 2), (3, 2), (2, 3), (5, 2), (2, 4), (3, 3)]):
        # the modulus is chosen here (first monic irreducible of degree k in lexicographic order) and prescribed to GFqDom
        m = next(M for M in monics(Fp(p), k) if irreducible_brute(Fp(p), M))
        gfq.append(Fq(p, k, sum(c * p ** i for i, c in enumerate(m))))
    bigG = [(Fp(101), 5), (Fp(101), 10), (Fp(65521), 3), (FpG(65537), 4), (FpG(65537), 5)]
    bnd = boundary_fields(tier != "quick")
    cases = gen_cases(rng, tier, fields, gfq, bigG, bnd)
    # field parameters as the implementation reports them (the one-argument call forms pass _domain.residu() as the field size)
    seenf = {}
    for c in cases:
        seenf.setdefault(c.F.name, c.F)
    for F in seenf.values():
        cases.append(Case("fieldinfo", F, [], [], {}, "field parameters"))
    if replay:
        rp = json.load(open(replay))
        cases = []
        byname = dict((F.name, F) for F in fields + gfq + [F for F, n in bigG])
        for f in rp.get("failing_inputs", []):
            d = f["case"]
            F = byname.get(d["field"]) or field_of_name(d["field"])
            if F is not None and isinstance(d.get("stream"), list):
                cases.append(Case(d["op"], F, d["stream"], d["args"], d.get("meta", {}), d.get("class", "")))
    phase("generate")
    wall = 900 if tier == "quick" else 3000
    cpu = 600 if tier == "quick" else 3000          # outer limit of a whole batch (tooling); the verdict "does not return" is per case:
    ccpu, ccon = (10, 30) if tier == "quick" else (30, 90)      # CPU seconds for one call (typical: milliseconds) / for its confirmation alone
    iout, inc1 = run_isolated(himpl, cases, wall, cpu, ccpu, ccon)
    # cases that ran out of random draws get a long deterministic continuation of their stream (same on both sides); when
    # the second run does not complete (tooling time-out) the case keeps its first stream and stays inconclusive
    retry = [i for i in range(len(cases)) if iout[i].startswith("EXHAUSTED")]
    nhang = sum(1 for l in iout if l.startswith(("HANG", "CRASH"))) + (1 if HANG_STATE["stopped"] else 0)
    retry = retry[:(400 if tier != "quick" else 80) if not nhang else 10]      # the others stay on their first stream (inconclusive unless the model returns)
    if retry:
        saved = dict((i, cases[i].stream) for i in retry)
        for i in retry:
            r2 = vf.Rng(chk.seed * 1000003 + i)
            cases[i].stream = list(cases[i].stream) + stream(r2, EXTRA_DRAWS)
        out2, inc2 = run_isolated(himpl, [cases[i] for i in retry], wall, cpu, 3 * ccpu, ccon, may_confirm=False)
        for i, l in zip(retry, out2):
            if l.startswith(("TIMEOUT", "SKIPPED", "NOTDRIVEN")):
                cases[i].stream = saved[i]
            else:
                iout[i] = l
        inc1 += inc2
    if inc1:
        chk.cov["inconclusive_tooling_timeouts"].append("%d implementation runs hit the wall-clock limit of %d s (cases counted as inconclusive)" % (inc1, wall))
    chk.cov["streams_continued"] = len(retry)
    phase("implementation")
    ninconclusive = 0
    # model: prime fields only.  sqrfree / CZfactor are tied to Model2 (the body in the tree since ffdc6c6), unconditionally
    mop = dict(MODEL_OP)
    for k in mop:
        mop[k] = {"sqrfree": "sqrfree2", "cz": "cz2"}.get(mop[k], mop[k])
    chk.cov["model_of_sqrfree"] = "Model2.sqrfree_rep"

    def mline(c):
        if c.meta.get("L"):        # boundary fields: the factor list of q^n - 1 is an input of the model (Model3.is_prim_root_L / order_L)
            return "%s %s - %s %s" % ({"isproot": "isprootL", "order": "orderL"}[c.base()], c.F.name, " ".join(c.args), ",".join(str(l) for l in c.meta["L"]))
        return c.line(mop[c.op])
    midx = [i for i, c in enumerate(cases) if type(c.F) is Fp and c.op in MODEL_OP and (not c.meta.get("nomodel") or c.meta.get("L"))
            and not iout[i].startswith(("TIMEOUT", "SKIPPED", "NOTDRIVEN", "UNKNOWN-OP"))]
    big = [i for i in midx if cases[i].F.p > 1000]       # the extracted model runs on unary/binary inductives: sample the big field
    if len(big) > 400:
        drop = set(big[400:])
        midx = [i for i in midx if i not in drop]
    mout = {}
    if drv:
        rc, lines, merr = run_parallel(drv, [mline(cases[i]) for i in midx], timeout=3000)
        if rc == 124:
            chk.cov["inconclusive_tooling_timeouts"].append("the extracted model did not answer %d cases within 3000 s" % len(midx))
        elif rc != 0 or len(lines) != len(midx):
            chk.broke("model driver failed (rc=%s, %d/%d lines)" % (rc, len(lines), len(midx)), merr)
        else:
            mout = dict(zip(midx, lines))
    phase("model")
    # 4. comparison
    ncorr = noracle = nnotinst = 0
    dist = {}
    verified_queue = []          # (case index, kind, text line for the verified checker, expectation)
    for i, c in enumerate(cases):
        payload, used = parse_out(iout[i])
        b = c.base()
        dist[c.op + "/" + c.F.name] = dist.get(c.op + "/" + c.F.name, 0) + 1
        nontrivial = not (b in ("irr", "irr2") and len(ppar(c.args[0])) <= 2)
        chk.count((c.op, c.F.name, tuple(c.args), tuple(c.stream[:8])), nontrivial=nontrivial)
        if i % 211 == 0:
            chk.sample({"case": c.describe(False), "impl": iout[i][:300]})
        if payload.startswith(("SKIPPED", "TIMEOUT", "NOTDRIVEN")):
            ninconclusive += 1
            continue
        if payload.startswith("UNKNOWN-OP") and b == "factor1" and not factor1_ok:
            nnotinst += 1
            continue
        v = verdict(c, payload) if not payload.startswith(("CRASH", "HANG")) else ("a result", "the call crashed or does not return: " + payload)
        if v is not None and v[0] == "INCONCLUSIVE":
            mp = parse_out(mout[i])[0] if i in mout else "EXHAUSTED"
            if not mp.startswith(("EXHAUSTED", "EXN")):
                d = c.describe(); d["stream"] = "%d draws (seed-derived)" % len(c.stream)
                chk.fail_input(SITE.get(b, b), "does not finish", d, mp[:200], iout[i],
                               "the implementation does not finish within %d random draws although the model, fed the same stream, returns" % len(c.stream))
            else:
                ninconclusive += 1
            continue
        noracle += 1
        if v is not None and v[0] == "ORACLE":
            chk.broke("python specification inconsistent on %s: %s" % (c.line(), v[1]))
            continue
        if v is not None:
            d = c.describe()
            d["meta"] = dict((k, x) for k, x in c.meta.items() if k in ("n", "d", "nomodel"))
            chk.fail_input(SITE.get(b, b), "does-not-return" if payload.startswith("HANG") else failing_class(c, payload), d, v[0], iout[i], v[1])
            continue
        if i in mout:
            ncorr += 1
            if parse_out(mout[i]) != (payload, used) and not (payload == "EXHAUSTED" and parse_out(mout[i])[0] == "EXHAUSTED"):
                chk.broke("correspondence model/implementation differs on `%s`: model=%s impl=%s" % (c.line()[:300], mout[i][:300], iout[i][:300]))
        # the extracted verified checkers re-decide what the implementation returned (prime fields, small sizes)
        if type(c.F) is Fp and not payload.startswith("EXHAUSTED"):
            if b in ("cz", "ddf", "split"):
                L, E = parse_list(payload)
                for f in L or []:
                    if c.F.q ** ((len(f) - 1) // 2) <= 3000:
                        verified_queue.append((i, "irrb %s - %s" % (c.F.name, pstr(f)), "1"))
            elif b in ("irr", "irr2") and c.F.q ** ((len(ppar(c.args[0])) - 1) // 2) <= 3000:
                verified_queue.append((i, "irrb %s - %s" % (c.F.name, c.args[0]), payload))
            elif b in ("randirr", "creux", "ixe", "ixe2") and c.F.q ** (c.meta["n"] // 2) <= 3000:
                verified_queue.append((i, "irrb %s - %s" % (c.F.name, payload), "1"))
            elif b == "order" and c.F.q ** (len(ppar(c.args[1])) - 1) <= 3000:
                verified_queue.append((i, "border %s - %s %s" % (c.F.name, c.args[0], c.args[1]), payload))
    phase("oracle")
    nver = 0
    if drv and verified_queue:
        seen = {}
        for i, l, e in verified_queue:
            seen.setdefault(l, (i, e))
        keys = sorted(seen)
        rc, lines, merr = run_parallel(drv, keys, timeout=3000)
        if rc == 124:
            chk.cov["inconclusive_tooling_timeouts"].append("the extracted verified checkers did not answer within 3000 s")
        elif rc != 0 or len(lines) != len(keys):
            chk.broke("verified checker run failed (rc=%s, %d/%d lines)" % (rc, len(lines), len(keys)), merr)
        else:
            for k, l in zip(keys, lines):
                nver += 1
                i, e = seen[k]
                if parse_out(l)[0] != e:
                    chk.broke("verified checker (extracted irreducible_b / brute_order) disagrees with the accepted answer on `%s`: checker=%s accepted=%s (case `%s`)"
                              % (k, l, e, cases[i].line()[:200]))
    phase("verified checkers")
    if os.environ.get("C09_DEBUG"):
        import collections
        cnt = collections.Counter((f["site"], f["klass"], f["case"]["field"], f["detail"]) for f in chk.failing)
        seen_dbg = set()
        for f in chk.failing:
            kk = (f["site"], f["case"]["field"], f["detail"][:30])
            if kk not in seen_dbg:
                seen_dbg.add(kk)
                vf.log("EX", f["site"], f["case"]["field"], f["case"]["args"], "exp", f["expected"], "got", f["observed"], f["detail"], f["case"]["class"])
        for k, v in cnt.most_common():
            vf.log(v, k)
        for f in chk.failing[:int(os.environ.get("C09_DEBUG"))]:
            vf.log(json.dumps(f)[:600])
    if len(chk.broken) > 20:
        chk.broken = chk.broken[:20] + [{"what": "... %d more" % (len(chk.broken) - 20), "detail": ""}]
    chk.cov["rule"] = ("irreducibility: every monic polynomial (and scalar multiples) of degree <= d over each field (bounds in exhaustive_bounds) plus structured "
                       "larger ones; factorisation/sqrfree: products built from known irreducibles (equal degrees, multiplicities < p, = p, p+1, degree divisible by p, "
                       "non-monic) and random; orders: every element of small fields; requests: every degree 1..7. non-trivial = not a degree<=1 irreducibility query "
                       "and the random stream was not exhausted; distinct = (call form, field, arguments, stream prefix)")
    # floors on what was actually compared: a run that falls below them (tooling problems) says so; inconclusive is never a pass
    floors = {"quick": {"oracle_comparisons": 15000, "correspondence_comparisons": 7000, "verified_checker_decisions": 2500},
              "thorough": {"oracle_comparisons": 100000, "correspondence_comparisons": 60000, "verified_checker_decisions": 20000}}[tier if tier in ("quick", "thorough") else "quick"]
    done = {"oracle_comparisons": noracle, "correspondence_comparisons": ncorr, "verified_checker_decisions": nver}
    missed = [] if replay else ["%s: %d < floor %d" % (k, done[k], floors[k]) for k in sorted(floors) if done[k] < floors[k]]
    if chk.cov["discharged"] < chk.cov["obligations"]:
        missed.append("theorems re-checked: %d < %d" % (chk.cov["discharged"], chk.cov["obligations"]))
    chk.cov["comparisons"] = done
    chk.cov["floors"] = floors
    chk.cov["floor_missed"] = missed
    chk.cov["inconclusive"] = {"cases_timeout_or_skipped_or_stream_exhausted": ninconclusive, "tooling_timeouts": list(chk.cov["inconclusive_tooling_timeouts"]),
                               "slow_cases_confirmed_alone": SLOW_CASES[:20], "hang_handling": {"first_stage_overruns": HANG_STATE["overruns"], "confirmations": HANG_STATE["confirmations"], "forms_not_driven": HANG_STATE["dead_forms"], "stream_stopped": HANG_STATE["stopped"], "budgets_cpu_s": [ccpu, ccon]}, "factor1_not_instantiable_cases": nnotinst}
    if missed or chk.cov["inconclusive_tooling_timeouts"]:
        print("INCONCLUSIVE property=C09 (not a pass of the affected probes): " + "; ".join(missed + chk.cov["inconclusive_tooling_timeouts"]))
    chk.cov["traces_validated_against_impl"] = ncorr
    chk.cov["inconclusive_stream_exhausted"] = ninconclusive
    chk.cov["verified_checker_decisions"] = nver
    chk.cov["fields"] = [F.name for F in fields + gfq]
    chk.cov["phase_seconds"] = PH
    chk.cov["call_forms"] = sorted(set(c.op for c in cases))
    cf = {}
    for c in cases:
        t = "Modular<int32_t>" if type(c.F) is Fp else ("GFqDom<int64_t>" if isinstance(c.F, (Fq, FpG)) else
                                                        {"m64": "Modular<int64_t>", "mu64": "Modular<uint64_t,__uint128_t>", "mI": "Modular<Integer>", "md": "Modular<double>"}[c.F.tag])
        cf.setdefault(c.op, {})
        cf[c.op][t] = cf[c.op].get(t, 0) + 1
    chk.cov["call_form_counts"] = cf
    chk.cov["boundary_fields"] = ["%d^%d: %s" % (q, k, lab) for q, k, lab in bnd]
    chk.cov["distribution"] = dist
    chk.cov["input_classes"] = {}
    for c in cases:
        k = c.base() + ": " + c.klass
        chk.cov["input_classes"][k] = chk.cov["input_classes"].get(k, 0) + 1
    return chk.finish()


def run_proc(binary, text, wall, cpu, case_cpu=0):
    """one process with a per-case CPU-time watchdog inside the harness (C09_CASE_CPU, ITIMER_PROF), an outer CPU-time limit for the
    whole batch (RLIMIT_CPU) and a generous wall-clock limit.  CPU time does not depend on the load of the machine.
    returns (status, lines): 'ok'; 'casecpu' (the case in progress exceeded its own CPU budget); 'cpu' (the batch as a whole exceeded
    the outer CPU limit) and 'wall' (wall-clock) = time-outs of the tooling; 'rc=<n>' (the process died)"""
    import subprocess, resource, signal

    def lim():
        resource.setrlimit(resource.RLIMIT_CPU, (cpu, cpu + 5))
    env = dict(os.environ)
    if case_cpu:
        env["C09_CASE_CPU"] = str(case_cpu)
    p = subprocess.Popen([binary], stdin=subprocess.PIPE, stdout=subprocess.PIPE, stderr=subprocess.DEVNULL,
                         universal_newlines=True, preexec_fn=lim, env=env)
    try:
        o, _ = p.communicate(text, timeout=wall)
    except subprocess.TimeoutExpired as ex:
        p.kill()
        try:
            o, _ = p.communicate(timeout=30)
        except Exception:
            o = ex.stdout or ""
            if isinstance(o, bytes):
                o = o.decode("utf-8", "replace")
        return "wall", (o or "").splitlines()
    rc = p.returncode
    if rc == 0:
        return "ok", o.splitlines()
    if rc == 99 and "HANG-CPU" in o[-200:]:
        return "casecpu", o.splitlines()
    if rc in (-signal.SIGXCPU, -signal.SIGKILL):
        return "cpu", o.splitlines()
    return "rc=%s" % rc, o.splitlines()


SLOW_CASES = []
HANG_STATE = {"dead_forms": {}, "overruns": 0, "confirmations": 0, "crashes": {}, "stopped": ""}
MAX_OVERRUNS, MAX_CONFIRM, MAX_CRASH_PER_FORM = 6, 3, 4


def run_isolated(himpl, cases, wall=900, cpu=600, case_cpu=10, confirm_cpu=30, may_confirm=True):
    """run the cases in one process (no parallel workers: one budget).  Hang handling, bounded (state shared by every call in a run):
    * a call that does not return within `case_cpu` s of CPU time (watchdog inside the harness; typical calls take micro- to
      milliseconds) is a first-stage overrun; it is run once more ALONE with `confirm_cpu` s; if it again does not return it is HANG =
      a failing input of class does-not-return, and its call form is not driven any more in this run (remaining cases: NOTDRIVEN);
      if it returns, its answer is used and it is listed as a slow case;
    * at most MAX_CONFIRM confirmations and MAX_OVERRUNS first-stage overruns per run, then the stream stops (rest SKIPPED);
    * a crash is CRASH for the case it stopped on; after MAX_CRASH_PER_FORM crashes of a form that form is not driven any more;
    * with may_confirm=False (long continuation streams) an overrun is a TIMEOUT (inconclusive), never a HANG;
    * wall-clock time-outs and the outer batch CPU limit are time-outs of the tooling: TIMEOUT after one more attempt.
    NOTDRIVEN / SKIPPED / TIMEOUT are inconclusive: never a pass, never a failing input.  Returns (lines, number of TIMEOUT cases)."""
    H = HANG_STATE
    out = [None] * len(cases)
    rest = list(range(len(cases)))
    walls = 0
    ok_line = re.compile(r"#\d+\s*$")

    def drop_dead(idx):
        keep = []
        for i in idx:
            if cases[i].op in H["dead_forms"]:
                out[i] = "NOTDRIVEN (%s)" % H["dead_forms"][cases[i].op]
            else:
                keep.append(i)
        return keep
    while rest:
        rest = drop_dead(rest)
        if not rest:
            break
        if H["stopped"]:
            for i in rest:
                out[i] = "SKIPPED"
            break
        st, lines = run_proc(himpl, "".join(cases[i].line() + "\n" for i in rest), wall, cpu, case_cpu)
        lines = [l for l in lines if ok_line.search(l)]          # drop a partial last line / the HANG-CPU marker
        for i, l in zip(rest, lines):
            out[i] = l
        if len(lines) >= len(rest):
            break
        if st in ("wall", "cpu"):
            walls += 1
            rest = rest[len(lines):]
            if walls >= 2:
                for i in rest:
                    out[i] = "TIMEOUT"
                break
            continue
        k = rest[len(lines)]
        rest = rest[len(lines) + 1:]
        form = cases[k].op
        if st == "casecpu":
            H["overruns"] += 1
            if not may_confirm:
                out[k] = "TIMEOUT"
            else:
                H["confirmations"] += 1
                st2, l2 = run_proc(himpl, cases[k].line() + "\n", wall, confirm_cpu + 30, confirm_cpu)
                l2 = [l for l in l2 if ok_line.search(l)]
                if l2:
                    out[k] = l2[0]
                    SLOW_CASES.append("%s %s %s: more than %d s CPU in the batch, returned when run alone" % (form, cases[k].F.name, " ".join(cases[k].args)[:80], case_cpu))
                elif st2 == "casecpu":
                    out[k] = "HANG (no return within %d s of CPU time; reproduced when run alone with %d s)" % (case_cpu, confirm_cpu)
                    H["dead_forms"][form] = "call form %s not driven after a confirmed does-not-return" % form
                else:
                    out[k] = "TIMEOUT"
            if H["overruns"] >= MAX_OVERRUNS or H["confirmations"] >= MAX_CONFIRM:
                H["stopped"] = "%d first-stage overruns, %d confirmations" % (H["overruns"], H["confirmations"])
        else:
            out[k] = "CRASH %s" % st
            H["crashes"][form] = H["crashes"].get(form, 0) + 1
            if H["crashes"][form] >= MAX_CRASH_PER_FORM:
                H["dead_forms"][form] = "call form %s not driven after %d crashes" % (form, MAX_CRASH_PER_FORM)
            if sum(H["crashes"].values()) >= 12:
                H["stopped"] = "12 crashes"
    return out, sum(1 for l in out if l == "TIMEOUT")


def field_of_name(name):
    """field object for a case read back from a replay file"""
    t = name.split(":")
    try:
        if len(t) == 1:
            return Fp(int(t[0]))
        if t[0] == "q" and len(t) == 3 and t[2] == "1":
            return FpG(int(t[1]))
        if t[0] == "q" and len(t) == 4:
            return Fq(int(t[1]), int(t[2]), int(t[3]))
        if t[0] in ("m64", "mu64", "mI", "md"):
            return FpT(int(t[1]), t[0])
    except ValueError:
        pass
    return None


def source_facts():
    """facts read from /repo's current source on every run (recorded in the evidence; the harness needs -fpermissive exactly
    because of the first one): member functions of Poly1FactorDom that call a member of the dependent base Poly1Dom without
    `this->` (they do not compile under the standard two-phase lookup, hence cannot be instantiated by a conforming client)"""
    facts = {}
    try:
        root = vf.REPO
        txt = open(os.path.join(root, "src/library/poly1/givpoly1proot.inl")).read()
        m = re.search(r"::order\(\s*const Rep& P, const Rep& F\)\s*const\s*\{(.*?)\n    \}", txt, flags=re.S)
        facts["order_calls_unqualified_mod"] = bool(m and re.search(r"[^>\w]mod\(A,P,F\)", m.group(1)) and "this->mod(A,P,F)" not in m.group(1))
        txt2 = open(os.path.join(root, "src/library/poly1/givpoly1factor.inl")).read()
        facts["factor_single_uses_Rep_copy"] = "W.copy(" in txt2
        txt3 = open(os.path.join(root, "src/library/poly1/givpoly1sqrfree.inl")).read()
        txt3 = re.sub(r"//[^\n]*", "", txt3)
        # the repaired square-free decomposition (frag/C09.fix-6) takes p-th roots: it asks the domain for its characteristic
        facts["sqrfree_has_pth_root_branch"] = "characteristic(" in txt3
    except (OSError, IOError) as e:
        facts["error"] = str(e)
    return facts


def run_parallel(binary, lines, timeout=3000, k=None):
    """run the line protocol on k processes (round-robin split), results back in order"""
    import subprocess
    k = k or max(1, min(8, vf.NCPU // 2, len(lines) // 50 + 1))
    chunks = [lines[j::k] for j in range(k)]
    procs = [subprocess.Popen([binary], stdin=subprocess.PIPE, stdout=subprocess.PIPE, stderr=subprocess.PIPE,
                              universal_newlines=True) for _ in range(k)]
    import threading
    res = [None] * k

    def work(j):
        try:
            o, e = procs[j].communicate("".join(l + "\n" for l in chunks[j]), timeout=timeout)
            res[j] = (procs[j].returncode, o.splitlines(), e)
        except subprocess.TimeoutExpired:
            procs[j].kill()
            res[j] = (124, [], "[timeout]")
    th = [threading.Thread(target=work, args=(j,)) for j in range(k)]
    for t in th:
        t.start()
    for t in th:
        t.join()
    out = [None] * len(lines)
    rc, err = 0, ""
    for j in range(k):
        r, o, e = res[j]
        if r != 0 or len(o) != len(chunks[j]):
            rc = r or 1
            err += e[-500:]
            return rc, [], err
        out[j::k] = o
    return rc, out, err
