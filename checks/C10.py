# C10 — Rational numbers are exact, canonical and totally ordered.   (DESIGN 5/C10)
# proof:  coq/C10 (hand model of every Rational / QField<Rational> method body, theorems on Q)
# tie:    correspondence: extracted model  vs  Givaro::Rational compiled from /repo's current tree
# search: python fractions.Fraction specification oracle on the same cases
import json, os, struct, sys
from fractions import Fraction
from math import gcd
import vf

AREA = "C10"
I64MIN, I64MAX, U64MAX = -2**63, 2**63 - 1, 2**64 - 1
I32MIN, I32MAX, U32MAX = -2**31, 2**31 - 1, 2**32 - 1

# ---------------------------------------------------------------- known findings (sites/classes)
# (seven earlier findings - operator< / >, += / -= self-alias, QField::inv(r,r), Rational(0,d,0), Rational(double) negative
#  subnormal, Rational(int64,int64) with INT64_MIN, the static constants zero/one/mOne - are repaired in /repo; their sites are judged like every other site now)


S_LE = ("Rational::operator<= (member declaration, givrational.h)", "a <= b ambiguous under ISO overload resolution")
S_ZD_POW = ("pow(const Rational&, int64_t)", "zero base, negative exponent: 1/0 stored instead of GivMathDivZero")
S_ZD_INV = ("QField<Rational>::inv", "zero operand: 1/0 stored instead of GivMathDivZero")
S_ZD_INVIN = ("QField<Rational>::invin", "zero operand: 1/0 stored instead of GivMathDivZero")


def merge_frag_findings():
    """Until the coordinator has merged frag/C10.findings.json into known_findings.json, the check reads the
    fragment itself (entries whose site is not yet listed for C10 in known_findings.json)."""
    orig = vf.load_known

    def load():
        ks = list(orig())
        have = {(k.get("property"), k.get("site")) for k in ks}
        p = os.path.join(vf.ROOT, "frag", "C10.findings.json")
        if os.path.exists(p):
            try:
                for k in json.load(open(p)):
                    if (k.get("property"), k.get("site")) not in have:
                        ks.append(k)
            except ValueError:
                pass
        return ks
    vf.load_known = load


# ---------------------------------------------------------------- generators
def canon(n, d):
    if d < 0:
        n, d = -n, -d
    g = gcd(n, d)
    return (n // g, d // g) if g else (0, 1)


def gen_int(rng, maxlimbs=3):
    return vf.structured_int(rng, maxlimbs=maxlimbs)


def gen_den(rng, maxlimbs=3):
    d = abs(gen_int(rng, maxlimbs))
    return d if d else 1


def gen_rat(rng, red, cov):
    k = rng.below(14)
    if k == 0:
        cov["zero"] = cov.get("zero", 0) + 1
        return (0, 1)
    if k == 1:
        cov["+-1"] = cov.get("+-1", 0) + 1
        return (rng.choice([1, -1]), 1)
    if k <= 3:
        cov["integer"] = cov.get("integer", 0) + 1
        return (gen_int(rng), 1)
    if k == 4:
        cov["unit numerator"] = cov.get("unit numerator", 0) + 1
        n, d = rng.choice([1, -1]), gen_den(rng)
    elif k == 5:
        cov["small/small"] = cov.get("small/small", 0) + 1
        n, d = rng.range(-12, 12), rng.range(1, 12)
    elif k == 6:
        cov["word limits"] = cov.get("word limits", 0) + 1
        n, d = rng.choice(vf.WORD_EDGES), abs(rng.choice(vf.WORD_EDGES)) or 1
    else:
        cov["multi-limb"] = cov.get("multi-limb", 0) + 1
        n, d = gen_int(rng, rng.range(1, 4)), gen_den(rng, rng.range(1, 4))
    if n == 0:
        return (0, 1)
    if red:
        return canon(n, d)
    if rng.chance(1, 2):      # NoReduce mode: operands with a common factor are the interesting ones
        g = rng.choice([2, 3, 6, 10, 2**32, 2**64 + 2, abs(n), d])
        cov["unreduced operand"] = cov.get("unreduced operand", 0) + 1
        n, d = n * g, d * g
    return (n, d)


def gen_pair(rng, red, cov):
    """second operand related to the first in the ways the shortcut branches distinguish"""
    x = gen_rat(rng, red, cov)
    k = rng.below(19)
    fix = (lambda n, d: canon(n, d)) if red else (lambda n, d: (n, d) if n else (0, 1))
    if k == 0:
        rel, y = "same denominator", fix(gen_int(rng), x[1])
    elif k == 1:
        g = gcd(x[1], rng.choice([2, 3, 4, 6, 2**32, 2**64, 30, x[1]])) or 1
        rel, y = "denominator shares a factor with the other denominator", fix(gen_int(rng), g * rng.range(1, 9) * (x[1] // g if rng.chance(1, 3) else 1))
    elif k == 2:
        rel, y = "y = -x", (-x[0], x[1])
    elif k == 3:
        rel, y = "y = x", x
    elif k == 4:
        # numerator of y shares factors with the denominator of x, denominator of y with the numerator of x
        m = rng.range(1, 7)
        n2, d2 = x[1] * m * rng.choice([1, -1]), abs(x[0]) * rng.range(1, 5) + (0 if rng.chance(2, 3) else 1)
        rel, y = "cross factors (num y | den x, den y | num x)", fix(n2, d2 or 1)
    elif k == 5:
        big = gen_int(rng, 4) * (1 << (64 * rng.range(1, 3))) + 1
        rel, y = "different limb counts, same denominator", fix(big, x[1])
    elif k == 6:
        rel, y = "different limb counts", fix(gen_int(rng, 1) or 1, gen_den(rng, 4) * (1 << 64) + 1)
    elif k == 7:
        d = gen_den(rng, 2)
        rel, y = "close values", fix(x[0] * d + rng.choice([-1, 0, 1]), x[1] * d)
    elif k == 8 and x[0] != 0:
        rel, y = "y = 1/x", canon(x[1], x[0])
    elif k == 9:
        rel, y = "same numerator", fix(x[0], gen_den(rng))
    elif k in (17, 18):
        # all four components with independent limb counts: mpz_cmpabs then returns size differences of different magnitudes
        def L(n):
            v = vf.limbs_value(rng, n) | (1 << (64 * (n - 1))) if rng.chance(1, 2) else (1 << (64 * n)) - 1 - rng.bits(8)
            return v or 1
        sx = rng.choice([1, -1]); sy = sx if rng.chance(2, 3) else -sx
        x = fix(sx * L(rng.range(1, 4)), L(rng.range(1, 4)))
        y = fix(sy * L(rng.range(1, 4)), L(rng.range(1, 4)))
        rel = "independent limb counts of all four components"
    elif k == 12:
        rel, x = "x = +-1", (rng.choice([1, -1]), 1)
        y = gen_rat(rng, red, {})
        if rng.chance(1, 2) and y[0] > 0:
            y = (-y[0], y[1])
    elif k == 13:
        rel, x, y = "both integers", (gen_int(rng, 2), 1), (gen_int(rng, 2), 1)
    elif k == 14:
        rel, y = "integer and non-integer", fix(gen_int(rng, 2) * 2 + 1, 2 * gen_den(rng, 1))
        x = (gen_int(rng, 2), 1)
    elif k == 15:
        # sum / difference cancels down to an integer or to zero through the gcd branch
        d = rng.choice([2, 3, 4, 6, 12, 2**32, 2**64 + 2])
        a = rng.range(-40, 40)
        rel, x, y = "x + y or x - y is an integer (gcd branch)", fix(a, d), fix(rng.choice([1, -1]) * a + d * rng.range(-3, 3), d)
    elif k == 16:
        # denominators d1*a, d1*b with gcd(t, d1) > 1
        d1 = rng.choice([6, 10, 12, 30, 2**33, 210])
        a, b = rng.choice([1, 5, 7, 11]), rng.choice([1, 13, 17, 19])
        rel, x, y = "denominators share d1 and the cross sum shares a factor with d1", fix(rng.range(-50, 50) * 2 + 1, d1 * a), fix(rng.range(-50, 50) * 2 + 1, d1 * b)
    else:
        rel, y = "independent", gen_rat(rng, red, {})
    cov["rel: " + rel] = cov.get("rel: " + rel, 0) + 1
    if rng.chance(1, 2):
        return y, x
    return x, y


def gen_double_bits(rng, cov):
    k = rng.below(16)
    sgn = rng.below(2)
    if k == 0:
        c, e, m = "zero", 0, 0
    elif k <= 3:
        c, e, m = "subnormal", 0, rng.choice([1, 2, 3, (1 << 52) - 1, 1 << 51, rng.bits(52) or 1, rng.bits(rng.range(1, 52)) or 1])
    elif k == 4:
        c, e, m = "smallest normals", rng.choice([1, 2]), rng.choice([0, 1, (1 << 52) - 1, rng.bits(52)])
    elif k == 5:
        c, e, m = "largest finite", 2046, rng.choice([0, (1 << 52) - 1, rng.bits(52)])
    elif k <= 7:
        c, e, m = "shift boundary (exponent 1074..1076)", rng.choice([1074, 1075, 1076]), rng.choice([0, 1, (1 << 52) - 1, rng.bits(52)])
    elif k == 8:
        c, e, m = "powers of two", rng.range(1, 2046), 0
    elif k <= 10:
        c, e, m = "small integers / halves", 1023 + rng.range(-3, 8), rng.bits(6) << 46
    else:
        c, e, m = "random normal", rng.range(1, 2046), rng.bits(52)
    c = ("-" if sgn else "+") + c
    cov["double: " + c] = cov.get("double: " + c, 0) + 1
    return (sgn << 63) | (e << 52) | m, sgn, e, m



# ---------------------------------------------------------------- deterministic boundary families (same on every run and for every seed)
P89, P107 = 2**89 - 1, 2**107 - 1          # Mersenne primes: multi-limb operands with known factorisation


def partitions(k):
    """all aliasing patterns of k parameters as restricted-growth digit strings: '0123', '0120', ..., '0000'"""
    out = [[0]]
    for _ in range(k - 1):
        out = [p + [d] for p in out for d in range(max(p) + 2)]
    return ["".join(str(d) for d in p) for p in out]


def shared_factor_pairs():
    """canonical pairs (x, y, sign) whose denominators share d1 > 1 and whose cross term t = n1*(dy/d1) + sign*n2*(dx/d1)
    shares a factor with d1 (the second gcd of the Knuth addition is needed), small and multi-limb; with results that are
    zero, integers, or proper fractions.  Returned with d2 = gcd(t, d1) so that the check can count them."""
    out = []
    shapes = [(6, 1, 1, 2), (6, 1, 1, 3), (6, 1, 5, 3), (12, 5, 7, 2), (12, 1, 1, 3), (4, 1, 3, 2), (9, 2, 1, 3), (10, 3, 7, 5), (30, 1, 1, 5),
              (30, 7, 11, 3), (2**64, 1, 3, 2), (3 * 2**33, 5, 7, 3), (6 * P89, 1, P107, P89), (2 * P89 * P107, 1, 1, P107),
              (P89 * P107, 2, 3, P89), (2**130, 3, 5, 2)]
    for d1, a, b, g in shapes:
        dx, dy = d1 * a, d1 * b
        for sign in (1, -1):
            found = 0
            for n1 in (1, -1, 5, -7, 11, 13, -17, 2**64 + 1, -(P107 + 2)):
                if gcd(n1, dx) != 1:
                    continue
                if gcd(a, g) != 1:
                    continue
                n20 = (-sign * n1 * b * pow(a, -1, g)) % g
                for k in (0, -1, 1, 2, -2, 3):
                    n2 = n20 + k * g
                    if n2 == 0 or gcd(n2, dy) != 1:
                        continue
                    t = n1 * b + sign * n2 * a
                    d2 = gcd(t, d1)
                    if d2 > 1:
                        out.append(((n1, dx), (n2, dy), sign, d2))
                        found += 1
                        break
                if found >= 3:
                    break
        # the result is zero (two distinct objects of equal value) / exactly one / an integer
        n1 = 5 if gcd(5, dx) == 1 else 7
        if gcd(n1, dx) == 1:
            out.append(((n1, dx), (n1, dx), -1, dx))                     # x - x = 0 through the gcd branch: gcd(0, d1) = d1
            out.append(((n1, dx), (-n1, dx), 1, dx))                     # x + (-x) = 0
            if gcd(dx - n1, dx) == 1:
                out.append(((n1, dx), (dx - n1, dx), 1, dx))             # = 1
                out.append(((n1, dx), (n1 - 3 * dx, dx), -1, dx))        # = 3
    return out


def cross_factor_pairs():
    """canonical pairs for * and /: num x shares a factor with den y AND den x shares a factor with num y (both gcds of the
    reduced product are > 1); products that are +-1 or integers; equal denominators; small and multi-limb"""
    out = []
    for p, q in [(2, 3), (6, 35), (4, 9), (2**64 + 13, 2**64 - 59), (P89, P107), (2**70, 3**40), (10, 21)]:
        for u, v, w, z in [(1, 1, 1, 1), (5, 7, 11, 13), (-5, 7, 11, 13), (5, 7, -11, 13), (-1, 1, -1, 1), (3, 1, 1, 3), (P89 + 2, 1, 1, P107 + 2)]:
            x, y = (p * u, q * v), (q * w, p * z)
            if gcd(*x) == 1 and gcd(*y) == 1:
                out.append((x, y))
        x = canon(p, q)
        out += [(x, canon(q, p)), (x, canon(-q, p)), (x, x), (x, canon(-p, q)), (x, canon(q * 5, 1)), (canon(q * 5, 1), canon(1, q)),
                (x, canon(p + q, q)), (canon(-p, q), canon(-(p + q), q))]          # the last two: equal denominators
    return out


def rounding_boundaries():
    """exact halves, nearest neighbours of a half, exact integers, each sign, denominators of 1..3 limbs"""
    out = []
    for d in (2, 4, 6, 10, 2**63, 2**64, 2**64 + 2, 2 * P89, 2**128, 3, 7, 2**64 + 1, P89, P107):
        for k in (0, 1, 2, 7, 2**64 - 1, 2**64, P89):
            cands = [k * d, k * d + 1, (k + 1) * d - 1]
            if d % 2 == 0:
                cands += [k * d + d // 2, k * d + d // 2 - 1, k * d + d // 2 + 1]
            else:
                cands += [k * d + (d - 1) // 2, k * d + (d + 1) // 2]
            for n in cands:
                for s in (1, -1):
                    out.append(canon(s * n, d))
    seen, res = set(), []
    for r in out:
        if r not in seen:
            seen.add(r); res.append(r)
    return res


def mpz_get_d(n):
    a = abs(n); bl = a.bit_length()
    if bl > 53:
        a = (a >> (bl - 53)) << (bl - 53)        # mpz_get_d truncates toward zero
    return -float(a) if n < 0 else float(a)

def f32(xd):
    return struct.unpack("<f", struct.pack("<f", xd))[0]

def conv_float_cases(add, x):
    """operator double / float / QField::convert: oracle = mpz_get_d truncation of both members, then ONE IEEE division
    (python floats are binary64 with round-to-nearest-even; binary32 through struct); model = to_double / to_float"""
    if abs(x[0]) >= 2**1024 or x[1] >= 2**1024:
        return
    dn, dd = mpz_get_d(x[0]), mpz_get_d(x[1])
    try:
        qd = dn / dd
    except OverflowError:
        qd = float("inf") if (x[0] > 0) else float("-inf")
    for v in ("conv.double", "q.convert.double"):
        add(v, 1, flat(x), "to_double", flat(x), "raw", "%016x" % struct.unpack("<Q", struct.pack("<d", qd))[0])
    try:
        fn, fd = f32(dn), f32(dd)
    except OverflowError:
        return
    try:
        fv = f32(fn / fd)
    except OverflowError:
        fv = float("inf") if x[0] > 0 else float("-inf")
    for v in ("conv.float", "q.convert.float"):
        add(v, 1, flat(x), "to_float", flat(x), "raw", "%08x" % struct.unpack("<I", struct.pack("<f", fv))[0])


def rt_in_domain(red, e, m, lim=1024):
    """Rational(x) -> (double) gives x back only while the stored denominator converts to a finite double (< 2^1024):
    mpz_get_d of a larger member is documented as system dependent (infinity here, so the quotient is 0).  The stored
    denominator is 2^(1075-e) divided by the power of two in the significand (Reduce) or as it is (NoReduce)."""
    sh = 1075 - max(e, 1)
    if sh <= 0:
        return True
    if not red:
        return sh < lim
    M = m + ((1 << 52) if e else 0)
    if M == 0:
        return True
    tz = (M & -M).bit_length() - 1
    return sh - min(tz, sh) < lim


def tok_class(t):
    try:
        v = int(t)
    except ValueError:
        return "x"
    if v in (0, 1, -1):
        return str(v)
    a = abs(v)
    return ("-" if v < 0 else "+") + ("s" if a < 2**31 else "w" if a < 2**64 else "m")


def klass_of(iargs):
    """coarse operand class of a case (0, 1, -1, small / word / multi-limb with sign, x = not an integer): recorded with every
    failing input so that a known-finding key can name the operand class instead of a whole call form"""
    return "operands " + ",".join(tok_class(t) for t in iargs[:8])


def fr(r):
    return Fraction(r[0], r[1])


def rs(f):
    return "%d %d" % (f.numerator, f.denominator)


def sg(x):
    return (x > 0) - (x < 0)


def round_away(f):
    a = abs(f)
    q = (2 * a.numerator + a.denominator) // (2 * a.denominator)
    return -q if f < 0 else q


def trunc0(f):
    q = abs(f.numerator) // f.denominator
    return -q if f < 0 else q


# ---------------------------------------------------------------- case construction
# a case: dict(variant, red, iargs (impl), mop, margs (model), kind, exp, site, klass, trivial)
#   kind: 'rat'  exp = Fraction; canonical form required when red = 1 (value + positive denominator when red = 0)
#         'ratc' exp = Fraction; canonical form required always
#         'raw'  exp = string; 'throw'; 'cmp' exp = (sign, abssign, truth...) ; None = correspondence only

def flat(*rats):
    out = []
    for r in rats:
        out += [r[0], r[1]]
    return out


BIN = {"+": ("add", lambda a, b: a + b), "-": ("sub", lambda a, b: a - b),
       "*": ("mul", lambda a, b: a * b), "/": ("div", lambda a, b: a / b)}
QNAME = {"+": "add", "-": "sub", "*": "mul", "/": "div"}


def build_cases(rng, tier, cov, sweep=True):
    cases = []
    per = 40 if tier == "quick" else 1000

    def add(variant, red, iargs, mop, margs, kind, exp, site=None, klass="", nontrivial=True):
        ia = [str(x) for x in iargs]
        cases.append({"variant": variant, "red": red, "iargs": ia, "mop": mop,
                      "margs": [str(x) for x in margs], "kind": kind,
                      "exp": exp, "site": site or ("Rational " + variant), "klass": klass or klass_of(ia), "nt": nontrivial})

    # ---- constructors
    for b in (0, 1):
        add("ctor.neutral", 1, [b], "mk_neutral", [b], "ratc", Fraction(b), nontrivial=False)
    add("ctor.default", 1, [], "mk_neutral", [0], "ratc", Fraction(0), nontrivial=False)
    add("consts", 1, [], "consts", [], "raw", "0 1 1 1 -1 1 0 1 1 1 -1 1", nontrivial=False)
    add("q.init0", 1, [], "pos", [7, 5], "ratc", Fraction(7, 5), nontrivial=False)
    for i in range(per):
        n32 = rng.choice([0, 1, -1, I32MIN, I32MAX, rng.range(I32MIN, I32MAX)])
        u32 = rng.choice([0, 1, U32MAX, rng.range(0, U32MAX)])
        n64 = rng.choice([0, 1, -1, I64MIN, I64MAX, rng.range(I64MIN, I64MAX)])
        u64 = rng.choice([0, 1, U64MAX, 2**63, rng.range(0, U64MAX)])
        add("ctor.int32", 1, [n32], "mk_word", [n32], "ratc", Fraction(n32))
        add("ctor.uint32", 1, [u32], "mk_word", [u32], "ratc", Fraction(u32))
        add("ctor.int64", 1, [n64], "mk_word", [n64], "ratc", Fraction(n64))
        add("ctor.uint64", 1, [u64], "mk_word", [u64], "ratc", Fraction(u64))
        z = gen_int(rng)
        add("ctor.Integer", 1, [z], "mk_int", [z], "ratc", Fraction(z))
        add("q.init.Integer", 1, [z], "mk_int", [z], "ratc", Fraction(z))
        add("q.init.int64", 1, [n64], "mk_word", [n64], "ratc", Fraction(n64))
        add("q.init.int32", 1, [n32], "mk_word", [n32], "ratc", Fraction(n32))
        add("q.init.uint32", 1, [u32], "mk_word", [u32], "ratc", Fraction(u32))
        add("q.init.uint64", 1, [u64], "mk_word", [u64], "ratc", Fraction(u64))
        # pairs of machine words
        edges64 = [0, 1, -1, 2, -2, I64MIN, I64MAX, I64MIN + 1, 6, -6, 2**32, -2**32]
        pn = rng.choice(edges64) if rng.chance(1, 2) else rng.range(I64MIN, I64MAX)
        pd = rng.choice(edges64) if rng.chance(1, 2) else rng.range(I64MIN, I64MAX)
        if rng.chance(1, 3):
            g = rng.range(1, 2**20); pn, pd = rng.range(-2**40, 2**40) * g, rng.range(-2**40, 2**40) * g
        add("ctor.i64pair", 1, [pn, pd], "mk_i64", [pn, pd], "throw" if pd == 0 else "ratc", None if pd == 0 else Fraction(pn, pd))
        qn, qd = rng.choice([0, 1, -1, I32MIN, I32MAX, 6, -6, rng.range(I32MIN, I32MAX)]), rng.choice([0, 1, -1, I32MIN, I32MAX, 4, -4, rng.range(I32MIN, I32MAX)])
        add("ctor.i32pair", 1, [qn, qd], "mk_i64", [qn, qd], "throw" if qd == 0 else "ratc", None if qd == 0 else Fraction(qn, qd))
        un, ud = rng.choice([0, 1, U64MAX, 2**63, 6, rng.range(0, U64MAX)]), rng.choice([0, 1, U64MAX, 2**63, 4, rng.range(0, U64MAX)])
        add("ctor.u64pair", 1, [un, ud], "mk_u64", [un, ud], "throw" if ud == 0 else "ratc", None if ud == 0 else Fraction(un, ud))
        vn, vd = rng.choice([0, 1, U32MAX, 6, rng.range(0, U32MAX)]), rng.choice([0, 1, U32MAX, 4, rng.range(0, U32MAX)])
        add("ctor.u32pair", 1, [vn, vd], "mk_u64", [vn, vd], "throw" if vd == 0 else "ratc", None if vd == 0 else Fraction(vn, vd))
        # Integer pairs
        n, d = gen_int(rng), gen_int(rng)
        if rng.chance(1, 3) and d:
            g = gen_den(rng, 2); n, d = n * g, d * g
        if rng.chance(1, 10):
            n = 0
        for v, mop, marg in (("ctor.nd", "mk_nd", [n, d, 1]), ("q.init.nd", "q_init_nd", [n, d])):
            add(v, 1, [n, d], mop, marg, "throw" if d == 0 else "ratc", None if d == 0 else Fraction(n, d))
        redarg = rng.choice([0, 1, 2, -1])
        if redarg != 1 and d and rng.chance(1, 2):
            g = rng.choice([2, 3, 10, 2**32]); n, d = n * g, d * g
        if d == 0:
            add("ctor.nd.red", 1, [n, d, redarg], "mk_nd", [n, d, redarg], "throw", None)
        elif redarg == 1:
            add("ctor.nd.red", 1, [n, d, redarg], "mk_nd", [n, d, redarg], "ratc", Fraction(n, d))
        else:
            # reduction switched off for this call: sign-normalised pair as given, zero as 0/1
            e = (0, 1) if n == 0 else ((n, d) if d > 0 else (-n, -d))
            add("ctor.nd.red", 1, [n, d, redarg], "mk_nd", [n, d, redarg], "raw", "%d %d" % e)
        # text
        sep = rng.choice(["/", "_/", "/_", "_/_", "__/__"])
        hasden = rng.chance(3, 4)
        dd = d if d else 5
        txt = ("%d%s%d" % (n, sep, dd)) if hasden else "%d%s" % (n, rng.choice(["", "_", "__"]))
        for v in ("ctor.string", "io.read", "q.init.cstr"):
            add(v, 1, [txt], "of_text", [n, 1 if hasden else 0, dd], "ratc", Fraction(n, dd) if hasden else Fraction(n))
    # ---- doubles (both flag settings)
    for i in range(per * 6):
        bits, sgn, e, m = gen_double_bits(rng, cov)
        x = struct.unpack("<d", struct.pack("<Q", bits))[0]
        red = 0 if i % 7 == 0 else 1
        for v in ("ctor.double", "q.init.double"):
            add(v, red, ["%016x" % bits], "of_double", [sgn, e, m], "rat", Fraction(x))
        if rt_in_domain(red, e, m):
            add("rt.double", red, ["%016x" % bits], "rt_double", [sgn, e, m], "raw", "%016x" % (bits if (e or m) else 0))
    for i in range(per * 2):
        k = rng.below(6)
        fb = [rng.bits(32), rng.choice([0, 0x80000000, 1, 0x80000001, 0x007fffff, 0x807fffff, 0x00800000, 0x7f7fffff, 0xff7fffff, 0x3f800000, 0xbf800000]),
              (rng.below(2) << 31) | rng.bits(23), (rng.below(2) << 31) | (rng.range(1, 254) << 23), (rng.below(2) << 31) | (rng.range(1, 254) << 23) | rng.bits(23),
              (rng.below(2) << 31) | (rng.range(120, 135) << 23) | (rng.bits(5) << 18)][k]
        if (fb >> 23) & 0xff == 0xff:
            fb &= 0x807fffff | (0xfe << 23)   # keep it finite
        f = struct.unpack("<f", struct.pack("<I", fb))[0]
        bits = struct.unpack("<Q", struct.pack("<d", f))[0]
        sgn, e, m = bits >> 63, (bits >> 52) & 0x7ff, bits & ((1 << 52) - 1)
        cov["float: " + ("subnormal/zero" if (fb >> 23) & 0xff == 0 else "normal")] = cov.get("float: " + ("subnormal/zero" if (fb >> 23) & 0xff == 0 else "normal"), 0) + 1
        add("q.init.float", 0 if i % 7 == 0 else 1, ["%08x" % fb], "of_double", [sgn, e, m], "rat", Fraction(f))
        if rt_in_domain(0 if i % 7 == 0 else 1, e, m, 128):
            add("rt.float", 0 if i % 7 == 0 else 1, ["%08x" % fb], "rt_float", [sgn, e, m], "raw", "%08x" % (fb if (fb & 0x7fffffff) else 0))
    # ---- copies, unary operations, predicates, rounding
    for i in range(per):
        x = gen_rat(rng, 1, cov)
        fx = fr(x)
        for v in ("ctor.copy", "assign", "logcpy", "copy", "q.assign", "op+unary", "nume_deno"):
            add(v, 1, flat(x), "pos", flat(x), "ratc", fx, nontrivial=False)
        u = (x[0] * 6, x[1] * 6) if rng.chance(1, 2) else (gen_int(rng), gen_den(rng))
        add("reduce", 1, flat(u), "reduce", flat(u), "ratc", fr(u))
        add("op-unary", 1, flat(x), "neg", flat(x), "ratc", -fx)
        w = gen_rat(rng, 0, {})
        add("op-unary", 0, flat(w), "neg", flat(w), "rat", -fr(w))
        add("abs", 0, flat(w), "abs", flat(w), "rat", abs(fr(w)))
        add("q.neg", 0, flat(w), "q_neg", flat(w), "rat", -fr(w))
        if w[0] != 0:
            add("q.inv", 0, flat(w), "q_inv", [0] + flat(w), "rat", 1 / fr(w))
            add("q.inv.alias", 0, flat(w), "q_inv", [1] + flat(w), "rat", 1 / fr(w))
        for v, val in (("floor", fr(w).numerator // fr(w).denominator), ("ceil", -((-fr(w).numerator) // fr(w).denominator)),
                       ("trunc", trunc0(fr(w))), ("round", round_away(fr(w)))):
            add(v, 0, flat(w), v, flat(w), "raw", str(val))
        add("abs", 1, flat(x), "abs", flat(x), "ratc", abs(fx))
        add("q.neg", 1, flat(x), "q_neg", flat(x), "ratc", -fx)
        add("q.neg.alias", 1, flat(x), "q_neg", flat(x), "ratc", -fx)
        add("q.negin", 1, flat(x), "q_negin", flat(x), "ratc", -fx)
        if x[0] != 0:
            add("q.inv", 1, flat(x), "q_inv", [0] + flat(x), "ratc", 1 / fx)
            add("q.inv.alias", 1, flat(x), "q_inv", [1] + flat(x), "ratc", 1 / fx)
            add("q.invin", 1, flat(x), "q_invin", flat(x), "ratc", 1 / fx)
        fl = fx.numerator // fx.denominator
        add("floor", 1, flat(x), "floor", flat(x), "raw", str(fl))
        add("ceil", 1, flat(x), "ceil", flat(x), "raw", str(-((-fx.numerator) // fx.denominator)))
        add("trunc", 1, flat(x), "trunc", flat(x), "raw", str(trunc0(fx)))
        add("round", 1, flat(x), "round", flat(x), "raw", str(round_away(fx)))
        h = (rng.range(-9, 9) * 2 + 1, 2)   # exact halves
        for w in (h, (gen_int(rng, 2) * 2 + 1, 2)):
            add("round", 1, flat(w), "round", flat(w), "raw", str(round_away(fr(w))))
        for w in (x, (rng.choice([1, -1]), rng.choice([1, 2, 3, 2**64]))):
            fw = fr(w)
            add("preds", 1, flat(w), "preds", flat(w), "raw",
                "%d %d %d %d %d" % (fw == 0, fw == 1, fw == -1, fw.denominator == 1, sg(fw)), nontrivial=False)
        # powers
        y = rng.choice([0, 1, 2, 3, rng.range(0, 9)])
        if abs(x[0]).bit_length() + x[1].bit_length() > 200:
            y = min(y, 3)
        for v in ("pow.u32", "pow.u64", "q.pow.u32", "q.pow.u64"):
            add(v, 1, flat(x) + [y], "pow_u", flat(x) + [y], "ratc", fx ** y)
        add("pow.i64", 1, flat(x) + [y], "pow_i64", flat(x) + [y], "ratc", fx ** y)
        if x[0] != 0:
            add("pow.i64", 1, flat(x) + [-y], "pow_i64", flat(x) + [-y], "ratc", fx ** (-y))
    # ---- binary operators, their in-place forms, QField wrappers, machine-int operands
    for i in range(per * 4):
        red = 0 if i % 5 == 4 else 1
        x, y = gen_pair(rng, red, cov)
        fx, fy = fr(x), fr(y)
        for sym, (mop, f) in BIN.items():
            if sym == "/" and y[0] == 0:
                exp, kind = None, "throw"
            else:
                exp, kind = f(fx, fy), "rat"
            q = QNAME[sym]
            add("op" + sym, red, flat(x, y), mop, flat(x, y), kind, exp)
            add("q." + q, red, flat(x, y), mop, flat(x, y), kind, exp)
            al = {"+": "q.add.alias_ra", "-": "q.sub.alias_rb", "*": "q.mul.alias_ra", "/": "q.div.alias_rb"}[sym]
            add(al, red, flat(x, y), mop, flat(x, y), kind, exp)
            add("op" + sym + "=", red, flat(x, y), mop + "in", [0] + flat(x, y), kind, exp)
            add("q." + q + "in", red, flat(x, y), mop + "in", [0] + flat(x, y), kind, exp)
        # x (op)= x
        for sym, (mop, f) in BIN.items():
            if sym == "/" and x[0] == 0:
                exp, kind = None, "throw"
            else:
                exp, kind = f(fx, fx), "rat"
            for v in ("op" + sym + "=.alias", "q." + QNAME[sym] + "in.alias"):
                add(v, red, flat(x), mop + "in", [1] + flat(x), kind, exp)
            add("q." + QNAME[sym] + ".alias_rab", red, flat(x), mop, flat(x, x), kind, exp)
        # machine int on one side
        k = rng.choice([0, 1, -1, 2, I32MIN, I32MAX, rng.range(-100, 100), rng.range(I32MIN, I32MAX)])
        fk = Fraction(k)
        for sym, (mop, f) in BIN.items():
            add("op" + sym + ".int_r", red, flat(x) + [k], mop, flat(x, (k, 1)), "throw" if (sym == "/" and k == 0) else "rat",
                None if (sym == "/" and k == 0) else f(fx, fk))
            add("op" + sym + ".int_l", red, flat(x) + [k], mop, flat((k, 1), x), "throw" if (sym == "/" and x[0] == 0) else "rat",
                None if (sym == "/" and x[0] == 0) else f(fk, fx))
    # ---- comparisons (Reduce mode: canonical operands)
    for i in range(per * 6):
        x, y = gen_pair(rng, 1, cov)
        fx, fy = fr(x), fr(y)
        add("cmpall", 1, flat(x, y), "cmpall", flat(x, y), "cmp", (sg(fx - fy), sg(abs(fx) - abs(fy))))
        if i % 3 == 0:   # operands that are not reduced (NoReduce mode): the order must still be that of Q
            u, w = gen_pair(rng, 0, {})
            add("cmpall", 0, flat(u, w), "cmpall", flat(u, w), "cmp", (sg(fr(u) - fr(w)), sg(abs(fr(u)) - abs(fr(w)))))
        add("q.preds", 1, flat(x, y), "q_preds", flat(x, y), "raw", "%d %d %d %d" % (fx == 0, fx == 1, fx == -1, fx == fy), nontrivial=False)
    # ---- exhaustive sweep of all pairs of small canonical fractions (every shortcut branch with small values)
    N = 4 if tier == "quick" else 12
    small = [(n, d) for d in range(1, N + 1) for n in range(-N, N + 1) if gcd(n, d) == 1] if sweep else []
    cov["exhaustive small fractions |n|,d <="] = N
    for x in small:
        fx = fr(x)
        for y in small:
            fy = fr(y)
            for sym, (mop, f) in BIN.items():
                if sym == "/" and y[0] == 0:
                    exp, kind = None, "throw"
                else:
                    exp, kind = f(fx, fy), "rat"
                add("op" + sym, 1, flat(x, y), mop, flat(x, y), kind, exp)
                add("op" + sym + "=", 1, flat(x, y), mop + "in", [0] + flat(x, y), kind, exp)
            add("cmpall", 1, flat(x, y), "cmpall", flat(x, y), "cmp", (sg(fx - fy), sg(abs(fx) - abs(fy))))
    # ---- class sweep: every operator form x operand classes {0, 1, -1, integer, non-integer} (small and multi-limb) x alias pattern
    B = 2**64
    reps0 = [(0, 1), (1, 1), (-1, 1), (5, 1), (-7, 1), (B + 1, 1), (3, 7), (-9, 4), (B * B + 1, 2 * B + 3), (1, 3), (-1, 2), (-(B + 2), 3 * B)]
    reps = [canon(*r) for r in reps0]
    for red in (1, 0):
        if red == 0:
            reps = reps0 + [(6, 4), (-B, 2 * B)]      # unreduced operands are legal in NoReduce mode
        for x in reps:
            fx = fr(x)
            for sym, (mop, f) in BIN.items():
                q = QNAME[sym]
                if sym == "/" and x[0] == 0:
                    exp, kind = None, "throw"
                else:
                    exp, kind = f(fx, fx), "rat"
                for v in ("op" + sym + "=.alias", "q." + q + "in.alias"):
                    add(v, red, flat(x), mop + "in", [1] + flat(x), kind, exp)
                add("q." + q + ".alias_rab", red, flat(x), mop, flat(x, x), kind, exp)
            for y in reps:
                fy = fr(y)
                for sym, (mop, f) in BIN.items():
                    q = QNAME[sym]
                    if sym == "/" and y[0] == 0:
                        exp, kind = None, "throw"
                    else:
                        exp, kind = f(fx, fy), "rat"
                    add("op" + sym, red, flat(x, y), mop, flat(x, y), kind, exp)
                    add("q." + q, red, flat(x, y), mop, flat(x, y), kind, exp)
                    add({"+": "q.add.alias_ra", "-": "q.sub.alias_rb", "*": "q.mul.alias_ra", "/": "q.div.alias_rb"}[sym], red, flat(x, y), mop, flat(x, y), kind, exp)
                    add("op" + sym + "=", red, flat(x, y), mop + "in", [0] + flat(x, y), kind, exp)
                    add("q." + q + "in", red, flat(x, y), mop + "in", [0] + flat(x, y), kind, exp)
                add("cmpall", red, flat(x, y), "cmpall", flat(x, y), "cmp", (sg(fx - fy), sg(abs(fx) - abs(fy))))
        short = [(0, 1), (1, 1), (-1, 1), (-7, 1), (3, 7), (-9, 4), (B + 1, 3 * B + 1)]
        for x in short:
            for y in short:
                for z in short:
                    fx, fy, fz = fr(x), fr(y), fr(z)
                    a3 = flat(x, y, z)
                    add("q.axpy", red, a3, "q_axpy", a3, "rat", fx * fy + fz)
                    add("q.axpy.alias_rc", red, a3, "q_axpy", a3, "rat", fx * fy + fz)
                    add("q.maxpy.alias_rc", red, a3, "q_maxpy", a3, "rat", fz - fx * fy)
                    add("q.axmy.alias_rb", red, a3, "q_axmy", a3, "rat", fx * fy - fz)
                    add("q.axpyin", red, a3, "q_axpyin", a3, "rat", fx + fy * fz)
                    add("q.maxpyin", red, a3, "q_maxpyin", a3, "rat", fx - fy * fz)
                    add("q.axmyin", red, a3, "q_axmyin", a3, "rat", fy * fz - fx)
    reps = [canon(*r) for r in reps0]
    # ---- sequences of operations on ONE object (a non-canonical intermediate must not survive)
    SEQ = {"a": lambda x, y: x + y, "s": lambda x, y: x - y, "m": lambda x, y: x * y, "d": lambda x, y: x / y,
           "qa": lambda x, y: x + y, "qs": lambda x, y: x - y, "qm": lambda x, y: x * y, "qd": lambda x, y: x / y,
           "A": lambda x, y: x + x, "S": lambda x, y: x - x, "M": lambda x, y: x * x, "D": lambda x, y: x / x,
           "n": lambda x, y: -x, "i": lambda x, y: 1 / x, "N": lambda x, y: -x,
           "t": lambda x, y: x + y, "u": lambda x, y: x - y, "p": lambda x, y: x * y, "q": lambda x, y: x / y,
           "xa": lambda x, y: x + y * y, "xm": lambda x, y: x - y * y}
    seqops = sorted(SEQ)
    for i in range(per * 4):
        x = gen_rat(rng, 1, cov) if rng.chance(3, 4) else rng.choice(reps)
        val = fr(x)
        toks, thrown = [], False
        for j in range(rng.range(2, 6)):
            op = rng.choice(seqops)
            if op == "i" and val == 0:
                op = "n"          # invin(0): the known finding fix-9, driven by the directed cases, kept out of the random sequences
            y = rng.choice(reps) if rng.chance(2, 3) else gen_rat(rng, 1, {})
            if rng.chance(1, 6):
                y = (0, 1)
            if rng.chance(1, 8):
                y = canon((-val).numerator, val.denominator) if rng.chance(1, 2) else canon(val.numerator, val.denominator)
            toks += [op, y[0], y[1]]
            try:
                val = SEQ[op](val, fr(y))
            except ZeroDivisionError:
                thrown = True
                break
            if abs(val.numerator).bit_length() + val.denominator.bit_length() > 3000:
                break
        add("seq", 1, flat(x) + toks, "seq", flat(x) + toks, "throw" if thrown else "ratc", None if thrown else val)
    # ---- powers: both signs of the base x both parities and signs of the exponent
    for x in [(-2, 3), (2, 3), (-5, 1), (5, 1), (-1, 1), (1, 1), (-1, 2), (1, 2), (-(B + 1), 3), (B + 1, 3), (-3, B + 1), (0, 1)]:
        for y in range(-6, 7):
            if x[0] == 0 and y < 0:
                continue
            add("pow.i64", 1, flat(x) + [y], "pow_i64", flat(x) + [y], "ratc", fr(x) ** y)
            if y >= 0:
                for v in ("pow.u32", "pow.u64", "q.pow.u32", "q.pow.u64"):
                    add(v, 1, flat(x) + [y], "pow_u", flat(x) + [y], "ratc", fr(x) ** y)
    # ---- every boundary of the double decoder
    for e in (0, 1, 2, 1022, 1023, 1024, 1074, 1075, 1076, 1077, 2045, 2046):
        for m in (0, 1, 2, 2**51, 2**52 - 2, 2**52 - 1):
            for sgn in (0, 1):
                bits = (sgn << 63) | (e << 52) | m
                xd = struct.unpack("<d", struct.pack("<Q", bits))[0]
                for v in ("ctor.double", "q.init.double"):
                    for red in (1, 0):
                        add(v, red, ["%016x" % bits], "of_double", [sgn, e, m], "rat", Fraction(xd))
                for red in (1, 0):
                    if rt_in_domain(red, e, m):
                        add("rt.double", red, ["%016x" % bits], "rt_double", [sgn, e, m], "raw", "%016x" % (bits if (e or m) else 0))
    for eb in (0, 1, 2, 126, 127, 128, 253, 254):
        for m in (0, 1, 2**22, 2**23 - 1):
            for sgn in (0, 1):
                fb = (sgn << 31) | (eb << 23) | m
                f = struct.unpack("<f", struct.pack("<I", fb))[0]
                bits = struct.unpack("<Q", struct.pack("<d", f))[0]
                add("q.init.float", 1, ["%08x" % fb], "of_double", [bits >> 63, (bits >> 52) & 0x7ff, bits & ((1 << 52) - 1)], "rat", Fraction(f))
                if rt_in_domain(1, (bits >> 52) & 0x7ff, bits & ((1 << 52) - 1), 128):
                    add("rt.float", 1, ["%08x" % fb], "rt_float", [bits >> 63, (bits >> 52) & 0x7ff, bits & ((1 << 52) - 1)], "raw", "%08x" % (fb if (fb & 0x7fffffff) else 0))
    # ---- conversions, printing, residue
    INTT = [("conv.int", I32MIN, I32MAX), ("conv.int64", I64MIN, I64MAX), ("q.convert.int64", I64MIN, I64MAX), ("conv.uint64", 0, U64MAX), ("conv.uint32", 0, U32MAX),
            ("conv.short", -2**15, 2**15 - 1), ("conv.uint16", 0, 2**16 - 1), ("conv.uint8", 0, 255), ("conv.schar", -128, 127)]
    for i in range(per):
        for v, lo, hi in INTT:
            q0 = rng.choice([lo, hi, 0, 1, -1 if lo < 0 else 1, lo + 1, hi - 1, rng.range(lo, hi)])
            d = rng.choice([1, 2, 3, 7, 2**32 + 1, gen_den(rng, 2)])
            r0 = rng.range(0, d - 1)
            n = q0 * d + r0 if q0 >= 0 else q0 * d - r0          # trunc(n/d) = q0
            x = canon(n, d)
            if lo == 0 and x[0] < 0:
                continue
            add(v, 1, flat(x), "conv_int", [lo, hi] + flat(x), "raw", str(trunc0(fr(x))))
        x = gen_rat(rng, 1, cov)
        if rng.chance(1, 3):
            x = canon(rng.bits(rng.range(1, 80)) * rng.choice([1, -1]), (rng.bits(rng.range(1, 80)) or 1))
        conv_float_cases(add, x)
        add("conv.string", 1, flat(x), "string", flat(x), "raw", "%d/%d" % x)
        for v in ("print", "op<<", "q.write"):
            add(v, 1, flat(x), "print", flat(x), "raw", ("%d/%d" % x) if x[1] > 1 else "%d" % x[0])
        # x % r : r coprime to the denominator (otherwise mpz_invert has no result), r = 0 throws
        r = rng.choice([0, 1, -1, 2, 7, -7, 2**64 - 59, gen_int(rng, 2), gen_int(rng, 1)])
        if r == 0:
            add("mod", 1, flat(x) + [r], "mod", flat(x) + [r], "throw", None)
        elif gcd(x[1], r) == 1:
            inv = pow(x[1], -1, abs(r)) if abs(r) > 1 else 0
            add("mod", 1, flat(x) + [r], "mod", flat(x) + [r], "raw", str(x[0] * inv if x[0] else 0))
    # ---- three-operand wrappers
    for i in range(per * 2):
        red = 0 if i % 5 == 4 else 1
        x, y = gen_pair(rng, red, cov)
        z = gen_pair(rng, red, cov)[0] if rng.chance(1, 2) else (gen_int(rng, 1), y[1])
        if z[0] == 0:
            z = (0, 1)
        if red:
            z = canon(*z)
        fx, fy, fz = fr(x), fr(y), fr(z)
        a3 = flat(x, y, z)
        add("q.axpy", red, a3, "q_axpy", a3, "rat", fx * fy + fz)
        add("q.axpy.alias_rc", red, a3, "q_axpy", a3, "rat", fx * fy + fz)
        add("q.axpy.alias_ra", red, a3, "q_axpy", a3, "rat", fx * fy + fz)
        add("q.maxpy", red, a3, "q_maxpy", a3, "rat", fz - fx * fy)
        add("q.maxpy.alias_rc", red, a3, "q_maxpy", a3, "rat", fz - fx * fy)
        add("q.axmy", red, a3, "q_axmy", a3, "rat", fx * fy - fz)
        add("q.axmy.alias_rb", red, a3, "q_axmy", a3, "rat", fx * fy - fz)
        add("q.axpyin", red, a3, "q_axpyin", a3, "rat", fx + fy * fz)
        add("q.axpyin.alias_ra", red, a3, "q_axpyin", flat(x, x, z), "rat", fx + fx * fz)
        add("q.maxpyin", red, a3, "q_maxpyin", a3, "rat", fx - fy * fz)
        add("q.maxpyin.alias_rb", red, a3, "q_maxpyin", flat(x, y, x), "rat", fx - fy * fx)
        add("q.axmyin", red, a3, "q_axmyin", a3, "rat", fy * fz - fx)
        add("q.axmyin.alias_ra", red, a3, "q_axmyin", flat(x, x, z), "rat", fx * fz - fx)
    if sweep:
        boundary_cases(add, rng, tier, cov)
    return cases


QW3 = {"add": ("add", lambda a, b: a + b), "sub": ("sub", lambda a, b: a - b), "mul": ("mul", lambda a, b: a * b), "div": ("div", lambda a, b: a / b)}
QW4 = {"axpy": ("q_axpy", lambda a, b, c: a * b + c), "maxpy": ("q_maxpy", lambda a, b, c: c - a * b), "axmy": ("q_axmy", lambda a, b, c: a * b - c)}
QWI3 = {"axpyin": ("q_axpyin", lambda r, a, b: r + a * b), "maxpyin": ("q_maxpyin", lambda r, a, b: r - a * b), "axmyin": ("q_axmyin", lambda r, a, b: a * b - r)}
QWI2 = {"addin": ("addin", lambda r, a: r + a), "subin": ("subin", lambda r, a: r - a), "mulin": ("mulin", lambda r, a: r * a), "divin": ("divin", lambda r, a: r / a)}
QWU = {"neg": ("q_neg", lambda a: -a), "inv": ("q_inv", lambda a: 1 / a), "assign": ("pos", lambda a: a)}
QWI1 = {"negin": ("q_negin", lambda r: -r), "invin": ("q_invin", lambda r: 1 / r)}
QW_ARITY = dict([(k, 3) for k in QW3] + [(k, 4) for k in QW4] + [(k, 3) for k in QWI3] + [(k, 2) for k in QWI2] + [(k, 2) for k in QWU] + [(k, 1) for k in QWI1])


def qw_case(add, op, pat, vals, red):
    """one call of the QField wrapper `op` with aliasing pattern `pat`; vals[k] = value held by object k"""
    v = [vals[int(c)] for c in pat]          # value seen by each parameter
    variant = "qw.%s.%s" % (op, pat)
    try:
        if op in QW3:
            ins = v[1:]; mop, f = QW3[op]; margs = flat(*ins); exp = f(*[fr(t) for t in ins])
        elif op in QW4:
            ins = v[1:]; mop, f = QW4[op]; margs = flat(*ins); exp = f(*[fr(t) for t in ins])
        elif op in QWI3:
            ins = v; mop, f = QWI3[op]; margs = flat(*ins); exp = f(*[fr(t) for t in ins])
        elif op in QWI1:
            ins = v; mop, f = QWI1[op]; margs = flat(*ins); exp = f(*[fr(t) for t in ins])
        elif op in QWI2:
            ins = v; mop, f = QWI2[op]; al = 1 if pat[0] == pat[1] else 0
            margs = [al] + (flat(v[0]) if al else flat(*ins)); exp = f(*[fr(t) for t in ins])
        else:
            ins = v[1:]; mop, f = QWU[op]
            if op == "inv":
                margs = [1 if pat[0] == pat[1] else 0] + flat(*ins)
            else:
                margs = flat(*ins)
            exp = f(*[fr(t) for t in ins])
        kind = "rat"
    except ZeroDivisionError:
        kind, exp = "throw", None
    # model side: the wrapper executed on a store of objects with the same aliasing pattern (Model.exec_*)
    site, klass = "QField<Rational>::%s (aliasing pattern r,a,b,c = %s)" % (op, pat), ""
    if kind == "throw" and op in ("inv", "invin"):
        site, klass = S_ZD_INVIN if (op == "invin" or pat == "00") else S_ZD_INV      # inv(r, r) forwards to invin
    add(variant, red, flat(*ins), "qw:%s:%s" % (op, pat), flat(*ins), kind, exp, site=site, klass=klass)


def boundary_cases(add, rng, tier, cov):
    """deterministic families: every wrapper x every aliasing pattern; operands that need the second gcd; cross factors;
    rounding boundaries; stored forms that only NoReduce mode produces"""
    F = canon
    base = [(F(1, 6), F(1, 3), F(1, 2), F(-1, 6)), (F(5, 6), F(1, 6), F(7, 12), F(1, 4)), (F(2, 3), F(3, 4), F(1, 5), F(5, 7)),
            (F(1, 2), F(1, 2), F(-1, 4), F(3, 4)), (F(0, 1), F(3, 4), F(1, 5), F(2, 1)), (F(3, 4), F(0, 1), F(0, 1), F(1, 1)),
            (F(1, 1), F(-1, 1), F(1, 2), F(-1, 2)), (F(-1, 1), F(5, 6), F(5, 6), F(1, 1)), (F(3, 1), F(-7, 1), F(2, 1), F(1, 3)),
            (F(P89, P107), F(P107, P89), F(1, P107), F(-1, P89)), (F(P107 + 1, 2 * P89 * P107), F(1, 2 * P89 * P107), F(2 * P89, 1), F(-1, 2 * P107)),
            (F(2**64 + 1, 3 * 2**64), F(-(2**64 - 1), 3 * 2**64), F(3, 2**65), F(2**64, 3))]
    tuples = []
    for t in base:
        for k in range(4):
            tuples.append(t[k:] + t[:k])
    n_alias = 0
    for op, k in sorted(QW_ARITY.items()):
        for pat in partitions(k):
            vs = list(tuples) if k > 2 else tuples[::2]
            for j in range(3):
                vs.append(tuple(gen_rat(rng, 1, {}) for _ in range(4)))
            for vals in vs:
                qw_case(add, op, pat, vals, 1)
                n_alias += 1
            for vals in tuples[1::5]:
                qw_case(add, op, pat, vals, 0)
                u = tuple((t[0] * 6, t[1] * 6) if t[0] else t for t in vals)      # unreduced operands (legal in NoReduce mode)
                qw_case(add, op, pat, u, 0)
    cov["wrapper x aliasing-pattern calls (all set partitions of the parameters)"] = n_alias
    cov["aliasing patterns per wrapper"] = dict((op, len(partitions(k))) for op, k in sorted(QW_ARITY.items()))
    # ---- second gcd of the Knuth addition / subtraction
    one = (1, 1)
    sf = shared_factor_pairs()
    cov["pairs with gcd(dx,dy) > 1 and gcd(cross term, d1) > 1 (deterministic)"] = len(sf)
    cov["  of which multi-limb"] = sum(1 for x, y, sg_, d2 in sf if x[1] >= 2**64)
    cov["  of which result zero or integer"] = sum(1 for x, y, sg_, d2 in sf if (fr(x) + sg_ * fr(y)).denominator == 1)
    for x, y, sgn_, d2 in sf:
        fx, fy = fr(x), fr(y)
        res = fx + sgn_ * fy
        sym, mop, qn = ("+", "add", "add") if sgn_ == 1 else ("-", "sub", "sub")
        add("op" + sym, 1, flat(x, y), mop, flat(x, y), "rat", res)
        add("op" + sym + "=", 1, flat(x, y), mop + "in", [0] + flat(x, y), "rat", res)
        qw_case(add, qn, "012", ((7, 5), x, y, one), 1)
        qw_case(add, qn, "001", (x, y, one, one), 1)
        qw_case(add, qn, "010", (y, x, one, one), 1)
        qw_case(add, qn + "in", "01", (x, y, one, one), 1)
        inop = "axpyin" if sgn_ == 1 else "maxpyin"
        qw_case(add, inop, "012", (x, y, one, one), 1)
        qw_case(add, inop, "012", (x, one, y, one), 1)
        if sgn_ == 1:
            qw_case(add, "axpy", "0123", ((7, 5), y, one, x), 1)
            qw_case(add, "axpy", "0120", (x, y, one, one), 1)          # r = c
            qw_case(add, "axpy", "0012", (y, one, x, one), 1)          # r = a
        else:
            qw_case(add, "maxpy", "0123", ((7, 5), y, one, x), 1)
            qw_case(add, "maxpy", "0120", (x, y, one, one), 1)
            qw_case(add, "axmy", "0123", ((7, 5), x, one, y), 1)
            qw_case(add, "axmy", "0120", (y, x, one, one), 1)
            qw_case(add, "axmyin", "012", (y, x, one, one), 1)
        # the same pair inside a sequence on one object: x (op) y, then back
        back = "s" if sgn_ == 1 else "a"
        toks = [("a" if sgn_ == 1 else "s"), y[0], y[1], back, y[0], y[1], ("qa" if sgn_ == 1 else "qs"), y[0], y[1]]
        add("seq", 1, flat(x) + toks, "seq", flat(x) + toks, "ratc", res)
    # ---- both gcds of the reduced product / quotient
    cf = cross_factor_pairs()
    cov["pairs with gcd(num x, den y) > 1 and gcd(den x, num y) > 1 (deterministic)"] = len(cf)
    for x, y in cf:
        fx, fy = fr(x), fr(y)
        add("op*", 1, flat(x, y), "mul", flat(x, y), "rat", fx * fy)
        add("op*=", 1, flat(x, y), "mulin", [0] + flat(x, y), "rat", fx * fy)
        for pat, vals in (("012", ((7, 5), x, y, one)), ("001", (x, y, one, one)), ("010", (y, x, one, one))):
            qw_case(add, "mul", pat, vals, 1)
        qw_case(add, "mulin", "01", (x, y, one, one), 1)
        qw_case(add, "axpy", "0123", ((7, 5), x, y, (0, 1)), 1)
        qw_case(add, "axpyin", "012", ((0, 1), x, y, one), 1)
        if y[0] != 0:
            yi = canon(y[1], y[0])
            add("op/", 1, flat(x, yi), "div", flat(x, yi), "rat", fx * fy)
            add("op/=", 1, flat(x, yi), "divin", [0] + flat(x, yi), "rat", fx * fy)
            for pat, vals in (("012", ((7, 5), x, yi, one)), ("001", (x, yi, one, one)), ("010", (yi, x, one, one))):
                qw_case(add, "div", pat, vals, 1)
            qw_case(add, "divin", "01", (x, yi, one, one), 1)
    # ---- conversions to double / float: truncation of members wider than 53 bits, subnormal and largest results, both signs
    cb = []
    for n, d in [(2**53 + 1, 1), (2**54 + 3, 1), (2**54 + 3, 3), (2**53 - 1, 2), (2**1023, 1), (2**1024 - 1, 1), (1, 2**1024 - 1), (1, 2**1023), (3, 2**1023),
                 (2**53 - 1, 2**1023), (2**52 + 1, 2**1023), (1, 3), (2, 3), (1, 10), (2**64 + 1, 2**64 - 1), (P107, P89), (P89, P107), (5, 1), (2**24 + 1, 1),
                 (2**25 + 3, 1), (2**25 + 1, 3), (2**128 - 2**104, 1), (2**128 - 2**103, 1), (1, 2**127), (1, 2**128 - 2**104), (3, 2**127), (2**24 - 1, 2**127),
                 (2**127 + 1, 2**127 - 1), (1, 2**149), (1, 2**150 + 1), (7, 2**1074 // 2**52 * 5), (2**200 + 1, 2**1000 + 1), (2**1000 + 1, 2**200 + 1),
                 (3**400, 5**250), (5**250, 3**400), (2**1020 + 2**960, 3), (3, 2**1020 + 2**960)]:
        if gcd(n, d) == 1:
            cb += [(n, d), (-n, d)]
    cb.append((0, 1))
    cov["conversion-to-floating-point boundary fractions (deterministic)"] = len(cb)
    for x in cb:
        conv_float_cases(add, x)
    # ---- machine-int operand sharing a factor with the denominator / numerator (Rational op int, int op Rational; both modes)
    B130 = 2**130
    for x, k in [((1, 2), 2), ((5, 6), 4), ((5, 6), -3), ((-7, 12), 18), ((3, B130), 2), ((B130 + 1, 3 * B130), 6), ((4, 9), 2), ((-4, 9), -6), ((6, 1), 3),
                 ((1, I32MAX), I32MAX), ((1, 2**31), I32MIN), ((5, 6), 0), ((5, 6), 1), ((5, 6), -1), ((0, 1), 4)]:
        fx, fk = fr(x), Fraction(k)
        for red in (1, 0):
            for sym, (mop, f) in BIN.items():
                add("op" + sym + ".int_r", red, flat(x) + [k], mop, flat(x, (k, 1)), "throw" if (sym == "/" and k == 0) else "rat",
                    None if (sym == "/" and k == 0) else f(fx, fk))
                add("op" + sym + ".int_l", red, flat(x) + [k], mop, flat((k, 1), x), "throw" if (sym == "/" and x[0] == 0) else "rat",
                    None if (sym == "/" and x[0] == 0) else f(fk, fx))
    # ---- rounding boundaries
    rb = rounding_boundaries()
    cov["rounding boundary fractions (halves, neighbours of halves, integers; 1..3 limbs; both signs)"] = len(rb)
    for w in rb:
        fw = fr(w)
        add("floor", 1, flat(w), "floor", flat(w), "raw", str(fw.numerator // fw.denominator))
        add("ceil", 1, flat(w), "ceil", flat(w), "raw", str(-((-fw.numerator) // fw.denominator)))
        add("trunc", 1, flat(w), "trunc", flat(w), "raw", str(trunc0(fw)))
        add("round", 1, flat(w), "round", flat(w), "raw", str(round_away(fw)))
        if I64MIN <= trunc0(fw) <= I64MAX:
            add("conv.int64", 1, flat(w), "conv_int", [I64MIN, I64MAX] + flat(w), "raw", str(trunc0(fw)))
    # ---- stored forms that only NoReduce mode produces (0/d, k*n/k*d): the order must still be that of Q
    B = 2**64
    nc = [(0, 4), (0, 1), (0, B), (2, 4), (1, 2), (3, 6), (-2, 4), (-1, 2), (6, 4), (3, 2), (2 * B, 4 * B), (-2 * B, 4 * B), (B * B, 2 * B * B), (B + 1, 2 * B + 2),
          (1, 3), (-7, 21), (5, 1), (10, 2), (-10, 2), (3 * P89, 3 * P107), (P89, P107)]
    for u in nc:
        for w in nc:
            fu, fw = fr(u), fr(w)
            zero_nc = (u[0] == 0 and u[1] != 1) or (w[0] == 0 and w[1] != 1)
            # absCompare on a zero stored as 0/d compares the denominators (Properties: C10_absCompare_needs_normalised_zero); compare() never calls it then
            add("cmpall", 0, flat(u, w), "cmpall", flat(u, w), "cmp", (sg(fu - fw), None if zero_nc else sg(abs(fu) - abs(fw))))
    cov["non-canonical stored forms compared pairwise (NoReduce)"] = len(nc) ** 2
    # in-place subtraction / addition in NoReduce mode produces 0/d: a later operation in Reduce mode must cope with the value (not required canonical)
    # ---- misc members, domain constants, random elements, element reader
    for x in [(0, 1), (1, 1), (-1, 1), (5, 6), (-5, 6), (B, 1), (-B, 3), (B * B - 1, B * B * B + 1), (-(B - 1), B - 2)]:
        lim = lambda v: 0 if v == 0 else (abs(v).bit_length() + 63) // 64
        ln = 8 * (lim(x[0]) + lim(x[1]))
        add("misc", 1, flat(x), "skip", [], "raw", "%d %d %d %d" % (ln, ln, sg(x[0]), sg(x[0])))
    add("q.consts2", 1, [], "skip", [], "raw", "0 1 1 1 -1 1 0 0 0 0 1 0", nontrivial=False)
    for bnd in [(1000, 999), (10**27, 10**35 - 1), (-(B + 5), 6 * B)]:
        add("q.random", 1, flat(bnd), "skip", [], "canonlist", None)
    for txt, n, hasden, d in [("6_/_-4", 6, 1, -4), ("-0/5", 0, 1, 5), ("12", 12, 0, 1), ("%d/%d" % (6 * P89, 4 * P89), 6 * P89, 1, 4 * P89), ("-7_/21_", -7, 1, 21)]:
        add("q.read", 1, [txt], "of_text", [n, hasden, d], "ratc", Fraction(n, d))


# directed cases for the recorded defects and their neighbourhood (always run first)
def directed_cases():
    big = 10**44 + 1
    cs = []

    def add(variant, red, iargs, mop, margs, kind, exp, sk=None):
        ia = [str(x) for x in iargs]
        cs.append({"variant": variant, "red": red, "iargs": ia, "mop": mop, "margs": [str(x) for x in margs],
                   "kind": kind, "exp": exp, "site": sk[0] if sk else "Rational " + variant, "klass": sk[1] if sk else klass_of(ia), "nt": True})
    add("cmpall", 1, [big, 3, 1, 3], "cmpall", [big, 3, 1, 3], "cmp", (1, 1))
    add("cmpall", 1, [1, 3, big, 3], "cmpall", [1, 3, big, 3], "cmp", (-1, -1))
    add("cmpall", 1, [-big, 3, -1, 3], "cmpall", [-big, 3, -1, 3], "cmp", (-1, 1))
    add("cmpall", 1, [1, 3, 2, 3], "cmpall", [1, 3, 2, 3], "cmp", (-1, -1))
    add("op+=.alias", 1, [1, 2], "addin", [1, 1, 2], "rat", Fraction(1))
    add("op-=.alias", 1, [1, 2], "subin", [1, 1, 2], "rat", Fraction(0))
    add("op+=.alias", 1, [3, 1], "addin", [1, 3, 1], "rat", Fraction(6))
    add("q.inv.alias", 1, [2, 3], "q_inv", [1, 2, 3], "ratc", Fraction(3, 2))
    add("q.inv.alias", 1, [-1, 1], "q_inv", [1, -1, 1], "ratc", Fraction(-1))
    add("q.inv.alias", 1, [1, 1], "q_inv", [1, 1, 1], "ratc", Fraction(1))
    add("ctor.nd.red", 1, [0, 5, 0], "mk_nd", [0, 5, 0], "raw", "0 1")
    add("ctor.nd.red", 1, [0, -5, 0], "mk_nd", [0, -5, 0], "raw", "0 1")
    add("ctor.nd.red", 1, [6, -4, 0], "mk_nd", [6, -4, 0], "raw", "-6 4")
    add("ctor.double", 1, ["8000000000000001"], "of_double", [1, 0, 1], "rat", Fraction(-1, 2**1074))
    add("ctor.double", 1, ["0000000000000001"], "of_double", [0, 0, 1], "rat", Fraction(1, 2**1074))
    add("ctor.double", 1, ["8000000000000000"], "of_double", [1, 0, 0], "rat", Fraction(0))
    add("ctor.double", 1, ["800fffffffffffff"], "of_double", [1, 0, 2**52 - 1], "rat", Fraction(-(2**52 - 1), 2**1074))
    add("ctor.i64pair", 1, [1, I64MIN], "mk_i64", [1, I64MIN], "ratc", Fraction(1, I64MIN))
    add("ctor.i64pair", 1, [I64MIN, -1], "mk_i64", [I64MIN, -1], "ratc", Fraction(I64MIN, -1))
    add("ctor.i64pair", 1, [I64MIN, 2], "mk_i64", [I64MIN, 2], "ratc", Fraction(I64MIN, 2))
    add("ctor.i64pair", 1, [0, -7], "mk_i64", [0, -7], "ratc", Fraction(0))
    # zero divisors: every way of dividing by a zero VALUE must be the exception GivMathDivZero, as for operator/ (never a stored x/0)
    for red in (1, 0):
        for y in (-1, -2, -7, I64MIN + 1):
            add("pow.i64", red, [0, 1, y], "pow_i64", [0, 1, y], "throw", None, S_ZD_POW)
        add("q.inv", red, [0, 1], "q_inv", [0, 0, 1], "throw", None, S_ZD_INV)
        add("qw.inv.01", red, [0, 1], "qw:inv:01", [0, 1], "throw", None, S_ZD_INV)
        add("q.inv.alias", red, [0, 1], "q_inv", [1, 0, 1], "throw", None, S_ZD_INVIN)
        add("qw.inv.00", red, [0, 1], "qw:inv:00", [0, 1], "throw", None, S_ZD_INVIN)
        add("q.invin", red, [0, 1], "q_invin", [0, 1], "throw", None, S_ZD_INVIN)
        add("qw.invin.0", red, [0, 1], "qw:invin:0", [0, 1], "throw", None, S_ZD_INVIN)
        add("seq", red, [3, 4, "s", 3, 4, "i", 0, 1], "seq", [3, 4, "s", 3, 4, "i", 0, 1], "throw", None, S_ZD_INVIN)
        # the neighbours that already throw
        add("op/", red, [1, 1, 0, 1], "div", [1, 1, 0, 1], "throw", None)
        add("op/=", red, [5, 7, 0, 1], "divin", [0, 5, 7, 0, 1], "throw", None)
        add("qw.div.012", red, [5, 7, 0, 1], "qw:div:012", [5, 7, 0, 1], "throw", None)
        add("qw.divin.01", red, [5, 7, 0, 1], "qw:divin:01", [5, 7, 0, 1], "throw", None)
        add("op/.int_r", red, [5, 7, 0], "div", [5, 7, 0, 1], "throw", None)
        add("op/.int_l", red, [0, 1, 3], "div", [3, 1, 0, 1], "throw", None)
        add("mod", red, [5, 7, 0], "mod", [5, 7, 0], "throw", None)
        for v, mop, ia in (("ctor.nd", "mk_nd", [5, 0, 1]), ("ctor.i64pair", "mk_i64", [5, 0]), ("ctor.u64pair", "mk_u64", [5, 0]), ("ctor.i32pair", "mk_i64", [-5, 0]),
                           ("ctor.u32pair", "mk_u64", [0, 0]), ("q.init.nd", "q_init_nd", [0, 0])):
            add(v, red, ia[:2], mop, ia, "throw", None)
        for txt in ("5/0", "0/0", "-7_/_0"):
            for v in ("ctor.string", "io.read", "q.read"):
                add(v, red, [txt], "of_text", [int(txt.split("/")[0].strip("_")), 1, 0], "throw", None)
    return cs


# ---------------------------------------------------------------- constants the theorems depend on, read from the source on every run
def source_tie(chk):
    """C10_ctor_double_every_finite_double_exact is a theorem about the decoder constants of Model.of_double.  Read the
    constants of Rational::Rational(double) from /repo's current givratcstor.C and the ones of the model from Model.v;
    any difference means the theorem is no longer about this source.  A source that cannot be matched any more (rewritten
    constructor) is recorded as inconclusive, not as a violation: the oracle still judges every class of doubles."""
    import re
    tie = {}
    try:
        src = open(os.path.join(vf.REPO, "src/kernel/rational/givratcstor.C")).read()
        mod = open(os.path.join(vf.coq_dir(AREA), "Model.v")).read()
    except OSError as ex:
        chk.cov["source_tie"] = "unreadable: %s" % ex
        return
    body = src[src.find("Rational::Rational(double x)"):]
    body = body[:body.find("Rational::Rational(Neutral")]
    pats = {"exponent bias shift (1075 - exponent)": (r"shift\s*=\s*(\d+)\s*-\s*t\.u\.exponent", r"let shift := (\d+) - e in"),
            "subnormal divisor 2^k": (r"Integer\(1\)\s*<<\s*(\d+)\s*\)", r"Z\.shiftl 1 (\d+)\)\) red s"),
            "hidden bit": (r"(\d+)_ui64", r"let tt := m \+ (\d+) in")}
    body2 = src[src.find("Rational::Rational(const Integer &n, const Integer &d, int red)"):]
    vs, vm = sorted(set(re.findall(r"if \(red == (-?\d+)\) reduce\(\)", body2[:1500]))), sorted(set(re.findall(r"if redarg =\? (-?\d+) then reduce", mod)))
    tie["value of the red argument that triggers reduce()"] = {"source": vs, "model": vm}
    fields = dict((k, re.search(k + r"\s*:\s*(\d+)", src)) for k in ("mantissa", "exponent", "negative"))
    tie["ieee bit-field widths in the source"] = dict((k, int(v.group(1)) if v else None) for k, v in fields.items())
    want_fields = {"mantissa": 52, "exponent": 11, "negative": 1}
    bad = []
    for name, (ps, pm) in pats.items():
        vs, vm = sorted(set(re.findall(ps, body))), sorted(set(re.findall(pm, mod)))
        tie[name] = {"source": vs, "model": vm}
        if not vs or not vm:
            chk.cov.setdefault("inconclusive", []).append("source tie: pattern for '%s' not found (source %s, model %s)" % (name, vs, vm))
        elif vs != vm:
            bad.append("%s: source %s, model %s" % (name, vs, vm))
    if vs and vm and vs != vm:
        bad.append("red argument: source %s, model %s" % (vs, vm))
    elif not vs or not vm:
        chk.cov.setdefault("inconclusive", []).append("source tie: pattern for the red argument not found (source %s, model %s)" % (vs, vm))
    if all(fields.values()) and tie["ieee bit-field widths in the source"] != want_fields:
        bad.append("bit-field widths %s, the theorem quantifies over %s" % (tie["ieee bit-field widths in the source"], want_fields))
    chk.cov["source_tie"] = tie
    chk.count(("source tie", "double decoder constants"), nontrivial=True)
    if bad:
        chk.broke("constants of Rational(double) in givratcstor.C differ from the ones C10_ctor_double_every_finite_double_exact is proved for", "; ".join(bad))


# ---------------------------------------------------------------- evaluation
def platform_tie(chk, himpl):
    """The model hard-codes 64-bit limbs (raw value of mpz_cmpabs), binary64 = (53, emin -1074, 11 exponent bits, members below 2^1024)
    and binary32 = (24, -149, 8, 2^128), and assumes that float/double expressions are evaluated in their own format.  The compiled
    harness prints the platform's parameters; the model's are read from Model.v.  A platform that differs makes the raw-value
    correspondence of those call forms meaningless (NOT a defect of the library): they are then judged by the oracle only and the
    fact is recorded as inconclusive.  Returns the set of call-form prefixes whose correspondence is switched off."""
    import re
    rc, out, err, timed = _spawn([himpl, "5"], "platform 1\n", 600)
    off = set()
    if timed or rc != 0 or not out:
        chk.cov.setdefault("inconclusive", []).append("platform probe gave no answer (rc=%s): platform tie not checked" % rc)
        return off
    plat = dict(kv.split("=", 1) for kv in out[0].split() if "=" in kv)
    mod = open(os.path.join(vf.coq_dir(AREA), "Model.v")).read()
    m_limb = re.findall(r"Z\.log2 \(Z\.abs x\) / (\d+) \+ 1", mod)
    m_dbl = re.findall(r"encode (\d+) \((-\d+)\) (\d+) \(num r <\? 0\) \(rne_quot \1 \(\2\) \(trunc_bits", mod)
    m_flt = re.findall(r"encode (\d+) \((-\d+)\) (\d+) \(num r <\? 0\) \(rne_quot \1 \(\2\) fn fd\)", mod)
    m_lim = sorted(set(re.findall(r"2 \^ (\d+) <=\? n", mod))), sorted(set(re.findall(r"2 \^ (\d+) <=\? fn", mod)))
    try:
        p_dbl = (int(plat["dbl_mant"]), int(plat["dbl_min_exp"]) - int(plat["dbl_mant"]), 8 * int(plat["dbl_bytes"]) - int(plat["dbl_mant"]), int(plat["dbl_max_exp"]))
        p_flt = (int(plat["flt_mant"]), int(plat["flt_min_exp"]) - int(plat["flt_mant"]), 8 * int(plat["flt_bytes"]) - int(plat["flt_mant"]), int(plat["flt_max_exp"]))
        want_dbl = tuple(int(x) for x in m_dbl[0]) + (int(m_lim[0][0]),)
        want_flt = tuple(int(x) for x in m_flt[0]) + (int(m_lim[1][0]),)
        limb_ok = [plat["limb_bits"]] == m_limb
        fp_ok = p_dbl == want_dbl and p_flt == want_flt and plat["flt_eval_method"] == "0" and plat["dbl_denorm"] == "1"
    except (KeyError, IndexError, ValueError) as ex:
        chk.cov.setdefault("inconclusive", []).append("platform tie: parameters unreadable (%s)" % ex)
        return off
    chk.cov["platform_tie"] = {"platform": plat, "model limb bits": m_limb, "model binary64 (p, emin, exponent bits, member limit 2^k)": want_dbl,
                               "model binary32": want_flt, "limb width agrees": limb_ok, "floating-point formats agree": fp_ok}
    chk.count(("platform tie", "limb width and floating-point formats"), nontrivial=True)
    if not limb_ok:
        off |= {"cmpall", "misc"}
        chk.cov.setdefault("inconclusive", []).append("platform has %s-bit limbs, the model of mpz_cmpabs has %s: raw compare()/absCompare() values are judged by sign only (oracle), no correspondence" % (plat.get("limb_bits"), m_limb))
    if not fp_ok:
        off |= {"conv.double", "conv.float", "q.convert.double", "q.convert.float", "rt.double", "rt.float"}
        chk.cov.setdefault("inconclusive", []).append("platform floating-point formats %s / %s (eval method %s) differ from the model's %s / %s: operator double / float are not compared" % (p_dbl, p_flt, plat.get("flt_eval_method"), want_dbl, want_flt))
    return off


CPU_BUDGET = 10            # CPU seconds one call of the implementation may take (the slowest legitimate case takes milliseconds)
CPU_BUDGET_RETRY = 30      # budget of the single re-run that decides between "slow" and "does not return"
MODEL_CPU_TOTAL = 1500     # CPU seconds the extracted-model driver may take for one chunk (RLIMIT_CPU)
WALL = 3000                # wall-clock limit of one chunk: exceeded = machine load = inconclusive, never a verdict
CHUNK = 6000
HANG = "DOES-NOT-RETURN"


def _spawn(cmd, text, wall, cpu_total=None):
    """(rc, stdout lines, stderr, wall_timed_out); communicate(timeout=...) - never a blocking read before the wait"""
    import subprocess, resource

    def pre():
        if cpu_total:
            resource.setrlimit(resource.RLIMIT_CPU, (cpu_total, cpu_total + 10))
    p = subprocess.Popen(cmd, stdin=subprocess.PIPE, stdout=subprocess.PIPE, stderr=subprocess.PIPE,
                         universal_newlines=True, errors="replace", preexec_fn=pre)
    try:
        out, err = p.communicate(text, timeout=wall)
        return p.returncode, out.splitlines(), err, False
    except subprocess.TimeoutExpired:
        p.kill()
        out, err = p.communicate()
        return None, (out or "").splitlines(), err or "", True


MAX_CONFIRMED, MAX_OVERRUNS, MAX_CRASHES_PER_FORM, MAX_CRASHES = 3, 6, 4, 12
CRASH = "CRASHED"


def form_of(line):
    return line.split(" ", 1)[0]


def run_stream(cmd, lines, notes, what, impl, state):
    """run one chunk; returns a list with one answer per line, None where no answer was obtained.
    impl: per-case CPU watchdog inside the harness (marker line HANG, exit 97): a first-stage overrun (CPU_BUDGET) is re-run alone
    with CPU_BUDGET_RETRY; still no answer -> the answer of that case is HANG (a failing input) and its call form is not driven
    any more in this run; at most MAX_CONFIRMED confirmations and MAX_OVERRUNS first-stage overruns per run, then the streams stop.
    A crash of the harness (signal / unexpected exit) is the answer CRASH of the case it stopped at; after MAX_CRASHES_PER_FORM
    crashes a form is not driven any more.  model driver: RLIMIT_CPU on the whole chunk (tooling, not a verdict)."""
    import signal
    n = len(lines)
    res = [None] * n
    pos = mh = 0
    while pos < n:
        if impl and (state["hangs"] >= MAX_CONFIRMED or state["overruns"] >= MAX_OVERRUNS or state["crashes"] >= MAX_CRASHES):
            notes.append("%s: %d calls confirmed not to return, %d first-stage overruns, %d crashes: the remaining %d cases of this chunk were not run"
                         % (what, state["hangs"], state["overruns"], state["crashes"], n - pos))
            state["stopped"] = True
            break
        idx = [i for i in range(pos, n) if not (impl and form_of(lines[i]) in state["dead_forms"])]
        if not idx:
            break
        rc, out, err, timed = _spawn(cmd + ([str(CPU_BUDGET)] if impl else []), "".join(lines[i] for i in idx), WALL,
                                     None if impl else MODEL_CPU_TOTAL)
        if impl and out and out[-1] == HANG:
            k = len(out) - 1
            for j in range(k):
                res[idx[j]] = out[j]
            hung = idx[k]
            state["overruns"] += 1
            rc2, out2, err2, timed2 = _spawn(cmd + [str(CPU_BUDGET_RETRY)], lines[hung], WALL)
            if len(out2) == 1 and out2[0] != HANG and rc2 == 0:
                res[hung] = out2[0]
                notes.append("%s: case %r needed more than %d s of CPU (answered within %d s)" % (what, lines[hung][:120], CPU_BUDGET, CPU_BUDGET_RETRY))
            elif timed2:
                notes.append("%s: wall-clock time-out while re-running %r alone: not judged" % (what, lines[hung][:120]))
            else:
                res[hung] = HANG
                state["hangs"] += 1
                state["dead_forms"].add(form_of(lines[hung]))
                notes.append("%s: call form %s does not return on %r: form not driven any more in this run" % (what, form_of(lines[hung]), lines[hung][:120]))
            pos = hung + 1
            continue
        if timed:
            k = max(len(out) - 1, 0)                       # the last line may be incomplete
            for j in range(k):
                res[idx[j]] = out[j]
            notes.append("%s: wall-clock time-out (%d s) after %d of %d cases of a chunk (machine load): the rest is not judged" % (what, WALL, k, len(idx)))
            break
        if (not impl) and rc is not None and rc < 0 and -rc in (signal.SIGXCPU, signal.SIGKILL):
            k = len(out)
            for j in range(min(k, len(idx))):
                res[idx[j]] = out[j]
            notes.append("%s: CPU limit (%d s) reached at case %r: skipped, correspondence not judged for it" % (what, MODEL_CPU_TOTAL, lines[idx[k]][:120] if k < len(idx) else "?"))
            if k >= len(idx):
                break
            pos = idx[k] + 1
            mh += 1
            if mh >= 3:
                break
            continue
        if impl and rc != 0 and len(out) < len(idx):
            # the harness died (signal, abort, exit) while running case idx[len(out)]: every earlier line is complete (flushed per case)
            k = len(out)
            for j in range(k):
                res[idx[j]] = out[j]
            dead = idx[k]
            f = form_of(lines[dead])
            res[dead] = "%s rc=%s %s" % (CRASH, rc, (err or "").strip().splitlines()[-1][:120] if (err or "").strip() else "")
            state["crashes"] += 1
            state["crash_forms"][f] = state["crash_forms"].get(f, 0) + 1
            if state["crash_forms"][f] >= MAX_CRASHES_PER_FORM:
                state["dead_forms"].add(f)
                notes.append("%s: call form %s crashed %d times: form not driven any more in this run" % (what, f, MAX_CRASHES_PER_FORM))
            pos = dead + 1
            continue
        if rc != 0 or len(out) != len(idx):
            k = min(len(out), len(idx))
            for j in range(k):
                res[idx[j]] = out[j]
            notes.append("%s: ended with rc=%s after %d of %d lines: %s" % (what, rc, k, len(idx), (err or "")[-300:]))
            return res, "rc=%s, %d/%d lines" % (rc, k, len(idx))
        for j, i in enumerate(idx):
            res[i] = out[j]
        pos = n
    return res, None


PLATFORM_OFF = set()


def run_cases(chk, cases, himpl, drv, stats):
    notes = chk.cov.setdefault("inconclusive", [])
    ncorr = 0
    for c0 in range(0, len(cases), CHUNK):
        part = cases[c0:c0 + CHUNK]
        impl_in = ["%s %d %s\n" % (c["variant"], c["red"], " ".join(c["iargs"])) for c in part]
        model_in = ["%s %d %s\n" % (c["mop"], c["red"], " ".join(c["margs"])) for c in part]
        iout, ierr = run_stream([himpl], impl_in, notes, "implementation harness", True, stats)
        if ierr:
            chk.broke("implementation harness failed (%s)" % ierr)
        mout = [None] * len(part)
        if drv:
            mout, merr = run_stream([drv], model_in, notes, "extracted-model driver", False, stats)
            if merr:
                chk.broke("model driver failed (%s)" % merr)
        for i, c in enumerate(part):
            stats["planned"] += 1
            if c["mop"] != "skip":
                stats["planned_corr"] += 1
            if iout[i] is None:
                continue
            if c["variant"] in PLATFORM_OFF and c["variant"] != "cmpall":
                continue                       # expectation is platform-specific (see platform_tie): recorded as inconclusive there
            got = iout[i].strip()
            stats["judged"] += 1
            bad = judge(c, got)
            desc = {"variant": c["variant"], "red": c["red"], "args": c["iargs"], "model_op": c["mop"], "model_args": c["margs"],
                    "kind": c["kind"], "exp": str(c["exp"])}
            chk.count((c["variant"], c["red"], tuple(c["iargs"])), nontrivial=c["nt"])
            if (c0 + i) % 1499 == 0:
                chk.sample({"variant": c["variant"], "red": c["red"], "args": [a[:60] for a in c["iargs"]], "impl": got[:120], "spec": str(c["exp"])[:120]})
            for (site, klass, expd, why) in bad:
                chk.fail_input(site, klass, desc, expd, got, why)
            if mout[i] is not None and c["mop"] != "skip" and c["variant"] not in PLATFORM_OFF:
                ncorr += 1
                mg = mout[i].strip()
                if mg != got and not bad:      # impl != oracle is already reported as a failing input
                    chk.broke("correspondence model/implementation differs on %s red=%d args=%s: model=%s impl=%s"
                              % (c["variant"], c["red"], c["iargs"], mg[:300], got[:300]))
        if len(chk.failing) > 200 or stats["stopped"]:
            break
    stats["corr"] += ncorr
    return ncorr


def expected_string(c):
    k = c["kind"]
    if k in ("rat", "ratc"):
        return rs(c["exp"])
    if k == "throw":
        return "THROW"
    return str(c["exp"])


def judge(c, got):
    """list of (site, klass, expected, why) for every way the implementation output violates the specification"""
    k, site, klass = c["kind"], c["site"], c["klass"]
    out = []
    if k == "throw":
        if got == HANG:
            out.append((site, "does-not-return", "THROW", "the call does not return within %d s of CPU time (re-run alone)" % CPU_BUDGET_RETRY))
        elif got.startswith(CRASH):
            out.append((site, "crash", "THROW", "the harness process died in this call: " + got))
        elif got != "THROW":
            out.append((site, klass, "THROW", "division by zero not reported as GivMathDivZero"))
        return out
    if got == HANG:
        return [(site, "does-not-return", expected_string(c), "the call does not return within %d s of CPU time (re-run alone)" % CPU_BUDGET_RETRY)]
    if got.startswith(CRASH):
        return [(site, "crash", expected_string(c), "the harness process died in this call: " + got)]
    if got.startswith("THROW") or got.startswith("UNKNOWN") or got.startswith("EXN"):
        return [(site, klass, expected_string(c), "unexpected exception / harness answer")]
    if k in ("rat", "ratc"):
        try:
            n, d = [int(t) for t in got.split()]
        except ValueError:
            return [(site, klass, rs(c["exp"]), "unparsable")]
        f = c["exp"]
        if d == 0 or Fraction(n, d) != f:
            out.append((site, klass, rs(f), "value is not exact"))
        elif d < 0:
            out.append((site, klass, rs(f), "denominator not positive"))
        elif (k == "ratc" or c["red"] == 1) and (n, d) != (f.numerator, f.denominator):
            out.append((site, klass, rs(f), "result not in canonical form"))
        return out
    if k == "canonlist":
        t = got.split()
        if "BAD-ZERO" in t or len(t) % 2 or not t:
            return [(site, klass, "canonical non-zero elements", "nonzerorandom returned zero / unparsable")]
        try:
            for i in range(0, len(t), 2):
                n, d = int(t[i]), int(t[i + 1])
                if d <= 0 or gcd(n, d) != 1:
                    out.append((site, klass, "%d %d" % canon(n, d if d else 1), "random element %d/%d is not in canonical form" % (n, d)))
                    break
        except ValueError:
            return [(site, klass, "canonical elements", "unparsable")]
        return out
    if k == "raw":
        if got != c["exp"]:
            out.append((site, klass, c["exp"], "differs from the specification"))
        return out
    if k == "cmp":
        s, sa = c["exp"]
        t = got.split()
        try:
            cv, av = int(t[0]), int(t[1])
            eq, ne, lt, gt, le, ge = [int(x) for x in t[2:8]]
        except (ValueError, IndexError):
            return [(site, klass, str(c["exp"]), "unparsable")]
        if sg(cv) != s:
            out.append(("compare(const Rational&, const Rational&)", "", str(s), "sign of compare() is not the sign of a-b"))
        if sa is not None and sg(av) != sa:
            out.append(("absCompare(const Rational&, const Rational&)", "", str(sa), "sign of absCompare() is not the sign of |a|-|b|"))
        for name, v, truth in (("==", eq, s == 0), ("!=", ne, s != 0), ("<=", le, s <= 0), (">=", ge, s >= 0)):
            if bool(v) != truth:
                out.append(("Rational::operator" + name, "", str(int(truth)), "operator differs from the order of Q"))
        for name, v, truth in (("<", lt, s < 0), (">", gt, s > 0)):
            if bool(v) != truth:
                out.append(("Rational::operator" + name, "", str(int(truth)), "operator differs from the order of Q (compare() = %d)" % cv))
        if (lt + eq + gt) != 1:
            out.append(("Rational trichotomy", "", "exactly one of < == >", "trichotomy fails"))
        return out
    return out


def main(tier, replay=None):
    merge_frag_findings()
    chk = vf.Check("C10", tier, "proof")
    rng = vf.Rng(chk.seed)
    chk.cov["trusted_base"] = [
        "Coq 8.16.1 kernel + vm_compute (no native_compute); standard library QArith/Znumtheory",
        "extraction: ExtrOcamlBasic only; Z/positive kept as extracted inductives; OCaml 4.13.1; zarith only for text I/O in harness/zio.ml",
        "Integer (gmp++) operations are taken as the exact Z operations (property C01/C02); mpz_cmpabs/mpz_cmp are modelled on 64-bit limb counts (Model.v cmpabsI/cmpI), validated by the correspondence run on the raw compare() value",
        "the model is hand-written after the C++ bodies (branch by branch); the tie is differential (correspondence run), not a translation",
        "harness/c10_rational.C, checks/C10.py (case generator, python fractions.Fraction oracle); decoding of double bits into (sign, exponent, mantissa) is done by the check",
        "g++ 12 / x86-64 / IEEE-754 binary64 for the implementation side",
    ]
    chk.assumptions = ["operands of arithmetic in Reduce mode are canonical (den > 0, gcd = 1, 0 = 0/1): the theorems' hypothesis; generated that way (every public constructor is proved to establish it)",
                       "NoReduce mode: operands have a positive denominator (any common factor); results are judged on value and sign of the denominator only",
                       "division by a zero value is the exception GivMathDivZero (None in the model, THROW in the harness) for operator/, /=, QField::div/divin, x % 0, null denominators in constructors and - model after frag/C10.fix-9 - pow(0, negative), QField::inv / invin of zero; pow exponents are small (the value grows as |x|^y)",
                       "comparison theorems need den > 0 only (C10_six_operators_are_the_order_of_Q_on_any_stored_form); absCompare called directly also needs zero stored as 0/1"]
    # 1. proofs
    res = vf.coq_check_props(AREA)
    chk.proof_result(res, AREA)
    # 2. executables
    drv, l1 = vf.ocaml_build(AREA) if os.path.exists(os.path.join(vf.coq_dir(AREA), "ocaml", "model.ml")) else (None, "extraction did not run")
    if drv is None:
        chk.broke("extracted model driver does not build", l1)
    himpl, l2 = vf.build_harness("c10_rational.C")
    if himpl is None:
        chk.broke("implementation harness does not compile against /repo", l2)
        return chk.finish()
    # 2b. compile probe: the six operators on two Rationals must resolve under ISO C++ (no g++ extension)
    probe = os.path.join(vf.ROOT, "harness", "c10_probe_ops.C")
    rcp, outp = vf.sh([vf.CXX, "-std=gnu++11", "-DHAVE_CONFIG_H", "-fsyntax-only", "-pedantic-errors"] + vf.inc_flags() + [probe], timeout=900)
    chk.count(("probe", "operators"), nontrivial=True)
    if rcp == 124:
        chk.cov.setdefault("inconclusive", []).append("compile probe timed out (machine load)")
    elif rcp != 0:
        amb = [l for l in outp.splitlines() if "error" in l]
        ops = sorted(set(o for o in ("<=", ">=", "==", "!=", "<", ">") for l in outp.splitlines()
                         if ("operator" + o + "(" in l.replace(" ", "")) and "candidate" in l))
        if amb and all("ambiguous" in l for l in amb) and ops == ["<="]:
            chk.fail_input(S_LE[0], S_LE[1], {"variant": "compile probe harness/c10_probe_ops.C", "red": 1, "args": [], "model_op": "-", "model_args": [], "kind": "raw", "exp": "compiles"},
                           "compiles", "\n".join(amb[:4]), "a <= b does not resolve under ISO C++ overload resolution")
        else:
            chk.fail_input("Rational comparison operators (compile probe)", "", {"variant": "compile probe harness/c10_probe_ops.C", "red": 1, "args": [], "model_op": "-", "model_args": [], "kind": "raw", "exp": "compiles"},
                           "compiles", outp[-1500:], "the six operators on two Rationals do not compile with -pedantic-errors")
    source_tie(chk)
    PLATFORM_OFF.clear()
    PLATFORM_OFF.update(platform_tie(chk, himpl))
    # 3. cases
    cov = {}
    if replay:
        data = json.load(open(replay))
        cases = []
        for f in data.get("failing_inputs", []):
            c = f["case"]
            cases.append({"variant": c["variant"], "red": c["red"], "iargs": c["args"], "mop": c["model_op"], "margs": c["model_args"],
                          "kind": "raw", "exp": f["expected"], "site": f["site"], "klass": f["klass"], "nt": True})
            if c["kind"] in ("rat", "ratc"):
                n, d = [int(t) for t in f["expected"].split()]
                cases[-1].update(kind=c["kind"], exp=Fraction(n, d))
            elif c["kind"] == "cmp":
                cases[-1].update(kind="cmp", exp=eval(c["exp"], {"__builtins__": {}}))
            elif c["kind"] == "throw":
                cases[-1].update(kind="throw", exp=None)
            elif c["kind"] == "canonlist":
                cases[-1].update(kind="canonlist", exp=None)
    dist = {}
    ncorr = nored = 0
    stats = {"planned": 0, "planned_corr": 0, "judged": 0, "corr": 0, "hangs": 0, "overruns": 0, "crashes": 0, "crash_forms": {}, "dead_forms": set(), "stopped": False}
    rounds = 1 if (replay or tier == "quick") else 8     # thorough: eight batches (memory), the sweep in the first
    for rd in range(rounds):
        if not replay:
            cases = (directed_cases() if rd == 0 else []) + build_cases(rng, tier, cov, sweep=(rd == 0))
        ncorr += run_cases(chk, cases, himpl, drv, stats)
        for c in cases:
            dist[c["variant"]] = dist.get(c["variant"], 0) + 1
        nored += sum(1 for c in cases if c["red"] == 0)
        if chk.broken or len(chk.failing) > 40 or stats["hangs"] or stats["crashes"]:
            break
    # floors: what was actually compared.  Falling below them is a tooling problem (time-outs, load): it is said here, loudly,
    # and is neither a pass of the unjudged part nor a verdict about /repo.
    chk.cov["compared"] = {"cases planned": stats["planned"], "implementation answers judged by the oracle": stats["judged"],
                           "correspondence comparisons planned": stats["planned_corr"], "correspondence comparisons made": stats["corr"],
                           "theorems re-checked": len(res.get("theorems", [])) if res.get("ok") else 0}
    floor_missed = []
    if stats["hangs"] or stats["overruns"] or stats["crashes"]:
        chk.cov["hang_and_crash_handling"] = {"first-stage overruns": stats["overruns"], "confirmed does-not-return": stats["hangs"], "crashes": stats["crashes"],
                                              "call forms not driven any more": sorted(stats["dead_forms"]),
                                              "budgets (CPU s)": {"first stage": CPU_BUDGET, "confirmation": CPU_BUDGET_RETRY}}
    if not (chk.broken or len(chk.failing) > 40 or stats["hangs"] or stats["crashes"]):
        if stats["judged"] < 0.98 * stats["planned"]:
            floor_missed.append("only %d of %d implementation answers were judged" % (stats["judged"], stats["planned"]))
        if drv and stats["corr"] < 0.95 * stats["planned_corr"]:
            floor_missed.append("only %d of %d correspondence comparisons were made" % (stats["corr"], stats["planned_corr"]))
        if not replay and tier == "quick" and stats["planned"] < 30000:
            floor_missed.append("only %d cases were generated (floor 30000)" % stats["planned"])
    if floor_missed:
        chk.cov["floor_missed"] = floor_missed
        vf.log("C10: FLOOR MISSED (inconclusive, tooling): " + "; ".join(floor_missed))
    if not chk.cov.get("inconclusive"):
        chk.cov.pop("inconclusive", None)
    if len(chk.broken) > 20:
        chk.broken = chk.broken[:20] + [{"what": "... %d more" % (len(chk.broken) - 20), "detail": ""}]
    chk.cov["rule"] = ("every public call form (variant) of Rational / QField<Rational> x operands from a structured distribution "
                       "(0, +-1, integers, word limits, multi-limb, related pairs: equal denominators, shared factors with the other "
                       "denominator, cross factors, opposite, equal, reciprocal, different limb counts, close values); all classes of finite doubles; "
                       "non-trivial = not a pure copy/predicate; distinct = (variant, flag, operands)")
    chk.cov["traces_validated_against_impl"] = ncorr
    chk.cov["variants"] = len(dist)
    chk.cov["distribution_by_variant"] = dist
    chk.cov["operand_classes"] = cov
    chk.cov["noreduce_cases"] = nored
    return chk.finish()
