# C11 — rational reconstruction is sound, and complete inside the uniqueness bound.   (DESIGN 5/C11)
# proof:  coq/C11 (hand model after givratreconstruct.C; invariants of the half-extended Euclid loop,
#         soundness for all (f,m,k), completeness in the envelope, fuel sufficiency)
# tie:    correspondence: extracted model vs every public call form of /repo's current sources
#         (Rational::ratrecon / RationalReconstruction x3, ZRing<Integer> wrappers, Rational ctor, QField);
#         polynomial version: extracted list model vs Poly1Dom<Modular<int64_t>|Modular<double>,Dense>::ratrecon (5 and 6 args) / ratreconcheck
# search: python specification oracle (integers: congruence, bounds, gcd, expected a/b;
#         polynomials over Z/p: congruence, degree bound, den != 0, gcd and monic den when reduced)
import math, os, sys, time
import vf

AREA = "C11"

# variant -> (model op, number of args on the impl line, mapper impl args -> model args, has success flag)
def _id(a): return a
VARIANTS = {
    "ratrecon.static": ("ratrecon", 5, lambda a: a[:4], True),
    "ratrecon.zring": ("ratrecon", 5, lambda a: a[:4], True),
    "ratrecon.dflt": ("ratrecon", 3, lambda a: a + [1], True),
    "ratrecon.zdflt": ("ratrecon", 3, lambda a: a + [1], True),
    "ratrecon.fr1": ("ratrecon", 4, _id, True),
    "ratrecon.zfr1": ("ratrecon", 4, _id, True),
    "rr7.sdflt": ("rr7", 3, lambda a: a + [1, 1], True),
    "rr7.fr1": ("rr7", 4, lambda a: a + [1], True),
    "rr7.zfr1": ("rr7", 4, lambda a: a + [1], True),
    "rr7.static": ("rr7", 5, _id, True),
    "rr7.zring": ("rr7", 5, _id, True),
    "rr7.dflt": ("rr7", 3, lambda a: a + [1, 1], True),
    "rr4.static": ("rr4", 2, _id, True),
    "rr4.zring": ("rr4", 2, _id, True),
    "rr6.static": ("rr6", 4, _id, True),
    "rr6.zring": ("rr6", 4, _id, True),
    "ctor": ("ctor", 5, _id, False),
    "ctor.dflt": ("ctor", 4, lambda a: a + [0], False),
    "qfk": ("qfk", 5, _id, False),
    "qfk.dflt": ("qfk", 4, lambda a: a + [0], False),
    "qf": ("qf", 4, _id, False),
    "qf.dflt": ("qf", 3, lambda a: a + [1], False),
}
# the callers that read Rational::flags, run before anything has set it: the library's initial value (documented: Reduce)
VARIANTS["ctor.init"] = ("ctor", 4, lambda a: a[:3] + [1] + a[3:], False)
VARIANTS["qfk.init"] = ("qfk", 4, lambda a: a[:3] + [1] + a[3:], False)
VARIANTS["qf.init"] = ("qf", 3, lambda a: a[:2] + [1] + a[2:], False)
# an output being the same object as an input (Rational::ratrecon / RationalReconstruction x3): same values expected
for _j in range(6):
    VARIANTS["ratrecon.al%d" % _j] = ("ratrecon", 5, lambda a: a[:4], True)
    VARIANTS["rr7.al%d" % _j] = ("rr7", 5, _id, True)
for _j in range(4):
    VARIANTS["rr4.al%d" % _j] = ("rr4", 2, _id, True)
for _j in range(8):
    VARIANTS["rr6.al%d" % _j] = ("rr6", 4, _id, True)
POLY_BASE = ["poly.rr5", "poly.check", "poly.rr6", "poly.rr5d", "poly.checkd", "poly.rr6d"]
POLY_FORMS = POLY_BASE + ["%s.al%d" % (b, j) for b in POLY_BASE for j in range(4)]


def poly_model_op(v):
    """model op of a polynomial call form: strip the alias suffix and the storage-type suffix"""
    b = v.split(".al")[0]
    return b[:-1] if b.endswith("d") else b

SMALL_PRIMES = [2, 3, 5, 7, 11, 13, 17, 19, 23, 29, 31, 37, 41, 43, 47, 53, 59, 61, 67, 71, 73, 79, 83, 89, 97, 101, 103, 107, 109, 113]


def is_probable_prime(n):
    if n < 2:
        return False
    for p in SMALL_PRIMES:
        if n % p == 0:
            return n == p
    d, s = n - 1, 0
    while d % 2 == 0:
        d //= 2; s += 1
    for a in (2, 3, 5, 7, 11, 13, 17, 19, 23, 29, 31, 37):
        x = pow(a, d, n)
        if x in (1, n - 1):
            continue
        for _ in range(s - 1):
            x = x * x % n
            if x == n - 1:
                break
        else:
            return False
    return True


def next_prime(n):
    n = max(n, 2)
    while not is_probable_prime(n):
        n += 1
    return n


def gen_modulus(rng):
    """(class, m) : primes, composites, prime powers, powers of two; tiny, word-sized and multi-limb"""
    c = rng.below(10)
    if c == 0:
        return "tiny", rng.range(2, 64)
    if c == 1:
        bits = rng.choice([8, 16, 31, 32, 33, 62, 63, 64, 65, 127, 128, 129, 192, 256])
        return "pow2", 1 << bits
    if c == 2:
        p = rng.choice(SMALL_PRIMES + [65537, 4294967311, 18446744073709551557])
        e = rng.range(2, 12)
        return "primepower", p ** e
    if c in (3, 4):
        bits = rng.choice([6, 10, 16, 31, 32, 40, 62, 63, 64])
        return "prime-word", next_prime(rng.bits(bits) | (1 << (bits - 1)))
    if c == 5:
        bits = rng.choice([65, 96, 128, 160, 256])
        return "prime-multi", next_prime(rng.bits(bits) | (1 << (bits - 1)))
    if c in (6, 7):
        m = 1
        for _ in range(rng.range(2, 10)):       # smooth composite: cofactors share factors with m often
            m *= rng.choice(SMALL_PRIMES[:12]) ** rng.range(1, 3)
        return "smooth", m
    if c == 8:
        return "composite-word", max(2, rng.bits(rng.choice([12, 24, 32, 48, 63, 64])))
    return "composite-multi", max(2, vf.limbs_value(rng, rng.range(2, 5)) | 1 << 64)


def isqrt(n):
    return math.isqrt(n)


def gen_k(rng, m):
    s = isqrt(m)
    c = rng.below(12)
    if c == 0: return 1
    if c == 1: return 2
    if c == 2: return m
    if c == 3: return max(1, m - 1)
    if c == 4: return max(1, m // 2)
    if c in (5, 6, 7): return max(1, s)
    if c == 8: return max(1, s + rng.range(-2, 2))
    if c == 9: return rng.range(1, min(m, 64))
    if c == 10: return rng.choice([m + 1, 2 * m, m + rng.range(1, m)])      # outside the domain: the widening loops get there
    return rng.range(1, m)


def gen_fraction(rng, m, where):
    """a/b relative to the envelope 4|a| <= sqrt m, 4 b <= sqrt m; returns (a, b) with gcd(a,b) = gcd(b,m) = 1 or None"""
    s = isqrt(m)
    e = s // 4
    for _ in range(40):
        if where == "inside":
            if e < 1: return None
            b = rng.choice([1, e, max(1, e - 1), rng.range(1, e)])
            a = rng.choice([0, 1, -1, e, -e, rng.range(-e, e)])
        elif where == "edge":       # just outside the envelope, still below sqrt(m)/2
            if e < 1: return None
            b = rng.choice([e + 1, e + 2, rng.range(e + 1, max(e + 1, s // 2))])
            a = rng.choice([e + 1, -(e + 1), rng.range(-(s // 2), s // 2)])
        else:                        # outside: around sqrt(m) and beyond
            b = rng.range(max(1, s // 2), 2 * s + 2)
            a = rng.range(-2 * s - 2, 2 * s + 2)
        if b >= 1 and math.gcd(a, b) == 1 and math.gcd(b, m) == 1:
            return a, b
    return None


def gen_residue(rng, m):
    """(class, f, expected fraction or None)"""
    c = rng.below(16)
    if c < 4:
        where = ["inside", "inside", "edge", "outside"][c]
        ab = gen_fraction(rng, m, where)
        if ab:
            a, b = ab
            f = a * pow(b, -1, m) % m
            sh = rng.below(6)
            if sh == 0 and f != 0: f -= m          # negative representative
            if sh == 1: f += m * rng.range(1, 3)   # representative >= m
            return "frac-" + where, f, (a, b)
    if c == 4: return "zero-ish", rng.choice([0, m, -m, 2 * m, 1, -1, m - 1, m + 1, 1 - m]), None
    if c == 5: return "negative", -rng.range(1, m), None
    if c == 6: return "ge-m", m + rng.below(3 * m), None
    if c == 7: return "below-minus-m", -m - rng.range(1, 2 * m), None
    if c == 8:                                      # shares a factor with m
        g = math.gcd(m, rng.range(2, 64))
        return "gcd(f,m)>1", (g * rng.range(1, max(1, m // g))) % m, None
    if c == 9: return "near-sqrt", max(0, isqrt(m) + rng.range(-3, 3)), None
    return "random", rng.below(m), None


def first_candidate(f, m, k):
    """statistics only (which branch a case takes): the Euclidean remainder sequence stopped at r1 < k"""
    r0, t0, r1, t1 = m, 0, (f % m if f < 0 else f), 1
    n = 0
    while r1 >= k:
        q = r0 // r1
        r0, r1 = r1, r0 - q * r1
        t0, t1 = t1, t0 - q * t1
        n += 1
    return r1, t1, n


def branch_class(f, m, k):
    """which branch of Rational::ratrecon(.., forcereduce = true) the input takes (generation / statistics only)"""
    r0, t0, r1, t1 = m, 0, (f % m if f < 0 else f), 1
    while r1 >= k:
        q = r0 // r1
        r0, r1 = r1, r0 - q * r1
        t0, t1 = t1, t0 - q * t1
    if math.gcd(r1, t1) == 1: return "first"
    if r1 == 0: return "num0-ok" if f % m == 0 else "num0-fail"
    q = (r0 + r1 - k) // r1
    return "second-ok" if math.gcd(r0 - q * r1, t0 - q * t1) == 1 else "second-rejected"


def py_ratrecon(f, m, k):
    """reference run of Rational::ratrecon(.., forcereduce = true), used ONLY to construct boundary inputs (never to judge)"""
    r0, t0, r1, t1 = m, 0, (f % m if f < 0 else f), 1
    while r1 >= k:
        q = r0 // r1
        r0, r1 = r1, r0 - q * r1
        t0, t1 = t1, t0 - q * t1
    n, d = (-r1, -t1) if t1 < 0 else (r1, t1)
    if math.gcd(n, d) == 1: return 1, n, d
    if n == 0: return (1 if f % m == 0 else 0), n, d
    q = (r0 + r1 - k) // r1
    r0 -= q * r1; t0 -= q * t1
    n, d = (-r0, -t0) if t0 < 0 else (r0, t0)
    return (1 if math.gcd(n, d) == 1 else 0), n, d


def rr6_boundary_cases(tier):
    """deterministic block 3: RationalReconstruction(a,b,x,m,a_bound,b_bound) with b_bound = den - 1, den, den + 1 where den is the
    denominator the reconstruction finds (the test `b <= b_bound` at equality), and a_bound = |num|, |num| + 1"""
    cases = []
    for mi, m in enumerate(GRID_MODULI):
        if tier == "quick" and m.bit_length() > 64: continue
        s = isqrt(m)
        for fi, f in enumerate(sorted(set(x % m for x in (2, 3, s, s + 1, m - 1, m // 2, m // 3, m // 2 + 1, 3 * (m // 4), 51, 75, 246, (m * 5) // 7)))):
            for ab0 in (max(1, s), max(1, s // 2)):
                k = ab0                       # the bound handed to ratrecon is the caller's numbound (224c4ab)
                if not 1 <= k <= m: continue
                ok, n, d = py_ratrecon(f, m, k)
                if not ok or d < 1: continue
                for bb in (d - 1, d, d + 1):
                    if bb < 1: continue
                    for ab in (ab0, abs(n), abs(n) + 1):
                        if ab < 1: continue
                        for v in ("rr6.static", "rr6.zring", "rr6.al%d" % ((fi + mi) % 8)):
                            for x in ((f,) if ".al" in v else (f, f + m)):
                                cases.append((v, "rr6", [x, m, ab, bb], [x, m, ab, bb], None, "rr6-boundary", "grid"))
    return cases


def huge_shift_cases(tier):
    """deterministic block 4 (run LAST): cost proportional to the VALUE instead of the SIZE of an operand.  Residues many moduli below
    zero and above m: f +- 2^e * m for e = 64, 90, 200 (a linear-in-|f|/m loop does not return: per-case CPU watchdog), through EVERY
    integer entry point and every combination of its flags; residues: a fraction inside the envelope (completeness is judged on
    these representatives too) and one whose first candidate is not coprime; plus huge moduli (2^200, 2^200 + 235 prime-ish odd,
    3^130) with k = 1, 2, m - 1, m and residues 1, m - 1, m/2, 2^100 (a linear-in-m or linear-in-k loop)."""
    cases = []
    vs = [v for v in sorted(VARIANTS) if not v.endswith(".init")]
    for mi, m in enumerate([1000000007, 9973 * 10007 * 10009, 250, 1 << 64]):
        s = isqrt(m); e4 = max(1, s // 4)
        a, b = (1234, 4321) if e4 >= 4321 else ((-7, 12) if e4 >= 12 else (1, 1))
        while math.gcd(b, m) != 1 or math.gcd(a, b) != 1: b += 1
        f_env = a * pow(b, -1, m) % m
        f_bad = next((f for f in range(1, 4000) if branch_class(f, m, s) in ("second-ok", "second-rejected", "num0-fail")), None)
        for (f0, frac) in ((f_env, (a, b) if 4 * abs(a) <= s and 4 * b <= s else None), (f_bad, None)):
            if f0 is None: continue
            for ei, e in enumerate((64, 90, 200)):
                for sign in (-1, 1):
                    x = f0 + sign * (m << e)
                    for vi, v in enumerate(vs):
                        op, nargs, mp, _ = VARIANTS[v]
                        if ".al" in v and tier == "quick" and (vi + mi + ei) % 4 != 0: continue
                        if tier == "quick" and mi >= 2 and (vi + ei) % 2 != 0: continue
                        if op == "rr6":
                            ia = [x, m, max(1, s), max(1, s)]
                            cases.append((v, op, ia, ia, None, "huge-shift", "grid"))
                            continue
                        full = [x, m] if op in ("rr4", "qf") else [x, m, max(1, s)]
                        nflags = nargs - len(full)
                        for bits in range(1 << nflags):
                            ia = full + [(bits >> j) & 1 for j in range(nflags)]
                            cases.append((v, op, ia, mp(list(ia)), frac, "huge-shift", "grid"))
    for m in (1 << 200, (1 << 200) + 235, 3 ** 130):
        for k in (1, 2, m - 1, m):
            for f in (1, m - 1, m // 2, 1 << 100, -(1 << 100)):
                for v in vs:
                    op, nargs, mp, _ = VARIANTS[v]
                    if op in ("rr4", "rr6", "qf") or ".al" in v or ".dflt" in v or ".fr1" in v or ".zfr1" in v or ".sdflt" in v or ".zdflt" in v: continue
                    nflags = nargs - 3
                    ia = [f, m, k] + [1] * nflags
                    cases.append((v, op, ia, mp(list(ia)), None, "huge-modulus", "grid"))
    return cases


def word_threshold_cases():
    """deterministic block 5: moduli at the word thresholds (just below / above 2^32, 2^53, 2^63, 2^64, 2^128; primes and composites)
    through EVERY default-bound entry point (k = sqrt m computed by the library: rr4.*, qf, qf.dflt) and, with k = isqrt(m) given,
    through the other forms; residues: fractions inside the envelope (python isqrt), 1 and m - 1"""
    cases = []
    vs = [v for v in sorted(VARIANTS) if not v.endswith(".init")]
    mods = []
    for e in (32, 53, 63, 64, 128):
        mods += [(1 << e) - 1, (1 << e) + 1, (1 << e), next_prime((1 << e) + 2)]
        q = (1 << e) - 1
        while not is_probable_prime(q): q -= 2
        mods.append(q)
    mods += [(1 << 64) - 59, (1 << 64) - (1 << 32) + 1, (1 << 64) - (1 << 32), (1 << 64) - (1 << 32) + 2, (1 << 64) + 13, (1 << 63) - 25, (1 << 53) - 111]
    for mi, m in enumerate(sorted(set(mods))):
        s = isqrt(m); e4 = s // 4
        fr = []
        for a, b in ((e4, e4 - 1), (-3, 7), (1, e4)):
            while b > 1 and (math.gcd(b, m) != 1 or math.gcd(a, b) != 1): b -= 1
            if math.gcd(b, m) == 1 and math.gcd(a, b) == 1 and 4 * abs(a) <= s and 4 * b <= s:
                fr.append((a * pow(b, -1, m) % m, (a, b)))
        for (f, frac) in fr + [(1, (1, 1)), (m - 1, (-1, 1))]:
            for vi, v in enumerate(vs):
                op, nargs, mp, _ = VARIANTS[v]
                if op == "rr6": continue
                dflt = op in ("rr4", "qf")
                if not dflt and (".al" in v or (vi + mi) % 3 != 0): continue
                full = [f, m] if dflt else [f, m, s]
                nflags = nargs - len(full)
                for bits in range(1 << nflags):
                    ia = full + [(bits >> j) & 1 for j in range(nflags)]
                    cases.append((v, op, ia, mp(list(ia)), frac, "word-threshold", "grid"))
    return cases


def init_flag_cases():
    """deterministic block 0 (must be the first lines the harness sees): Rational(f,m,k,recurs) and both QField<Rational>::ratrecon
    forms before anything has called SetReduce / SetNoReduce, on inputs whose first candidate is not coprime"""
    cases = []
    for f, m, k, c in grid_triples():
        if c in ("first", "first-no-iteration", "zero", "num0-ok") or m > (1 << 16): continue
        for x in (f, f - m, f + m):
            for rc in (0, 1):
                for v in ("ctor.init", "qfk.init") + (("qf.init",) if k == isqrt(m) else ()):
                    op, nargs, mp, _ = VARIANTS[v]
                    ia = [x, m, rc] if v == "qf.init" else [x, m, k, rc]
                    cases.append((v, op, ia, mp(list(ia)), None, "initial-flags-" + c, "grid"))
    return cases


# moduli of the deterministic blocks (the same on every run and for every seed): tiny, the examples of tests/test-ratrecon.C,
# prime, prime power, power of two at the limb boundary, smooth multi-limb, multi-limb prime
GRID_MODULI = [8, 12, 250, 1000, 1009, 3 ** 9, 1 << 16, 2 * 3 * 5 * 7 * 11 * 13 * 17 * 19, 1 << 64, (1 << 89) - 1,
               (2 ** 5) * (3 ** 7) * (5 ** 6) * (7 ** 5) * (11 ** 4) * (13 ** 3)]


def grid_triples():
    """(f, m, k, class): for every grid modulus and every bound k in {1, 2, sqrt m - 1, sqrt m, sqrt m + 1, m/2, m - 1, m} the first
    residue (deterministic scan) of each branch class: first candidate, second candidate accepted / rejected, num == 0"""
    out = []
    for m in GRID_MODULI:
        s = isqrt(m)
        for k in sorted(set(x for x in (1, 2, s - 1, s, s + 1, m // 2, m - 1, m) if 1 <= x <= m)):
            seen = {}
            cands = list(range(0, 40)) + [m // d * j for d in (2, 3, 4, 5, 6, 8, 9, 10, 12, 25) if m % d == 0 for j in range(1, d)] + \
                    [s + j for j in range(-3, 4)] + [m - j for j in range(1, 20)] + [(m * j) // 7 + i for j in range(1, 7) for i in range(3)] + \
                    [(j * j * 7919 + 13 * j) % m for j in range(1, 120)]
            for f in cands:
                if not 0 <= f < m: continue
                c = branch_class(f, m, k)
                # "first" means a non-trivial first-candidate success: residue not 0 (mod m) and at least one loop iteration
                # (f >= k); f = 0 (the x == 0 shortcut of the 7-argument wrapper, 0/1) is kept as its own class "zero"
                if c == "first" and f == 0: c = "zero"
                elif c == "first" and f < k: c = "first-no-iteration"
                if c not in seen:
                    seen[c] = f
                if len(seen) == 7: break
            for c, f in sorted(seen.items()):
                out.append((f, m, k, c))
    return out


def grid_cases(tier):
    """deterministic block 1: every integer call form x every combination of its boolean flags x the representatives
    f - 2m, f - m, f, f + m, f + 2m of the residue (negative / below -m / reduced / >= m) on a rotating subset of the grid
    triples (all of them in the thorough tier); the bounds k = m + 1 and 2m (outside the domain) go to ratrecon only"""
    cases = []
    tr = grid_triples()
    vs = [v for v in sorted(VARIANTS) if not v.endswith(".init")]
    for idx, (f, m, k, c) in enumerate(tr):
        reps = [f - 2 * m, f - m, f, f + m, f + 2 * m]
        for vi, v in enumerate(vs):
            op, nargs, mp, _ = VARIANTS[v]
            if op in ("rr4", "rr6"): continue
            # quick: each triple goes to every non-aliased form, and to one aliased form in rotation
            if ".al" in v and tier == "quick" and (vi + idx) % 6 != 0: continue
            if m.bit_length() > 64 and tier == "quick" and (vi + idx) % 3 != 0: continue
            if tier == "quick" and c in ("first", "first-no-iteration", "zero", "num0-fail", "num0-ok") and m > 1000 and (vi + idx) % 3 != 1: continue
            full = [None, m, k] if op != "qf" else [None, m]
            if op == "qf" and k != isqrt(m): continue
            nflags = nargs - len(full)
            for ri, x in enumerate(reps):
                # quick: the five representatives rotate over (triple, form); all five for the tiny moduli and in the thorough tier
                if tier == "quick" and m > 1000 and ri != (vi + idx) % 5: continue
                if tier == "quick" and m <= 1000 and c in ("first-no-iteration", "zero") and ri not in (0, 2, 3): continue
                for bits in range(1 << nflags):
                    ia = [x] + full[1:] + [(bits >> j) & 1 for j in range(nflags)]
                    cases.append((v, op, ia, mp(list(ia)), None, "grid-" + c, "grid"))
        for kk in (m + 1, 2 * m):
            for x in ((f, kk + 1, f - m) if tier == "quick" else (f, f + m, f - m, kk, kk + 1, kk - 1)):
                for fr in (0, 1):
                    ia = [x, m, kk, fr, 1]
                    cases.append(("ratrecon.static", "ratrecon", ia, ia[:4], None, "grid-k>m", "grid"))
    # rr4 / rr6 (no flags): every grid modulus x structured residues x the representatives, all call forms incl. aliased
    for m in GRID_MODULI:
        s = isqrt(m)
        base = sorted(set(x % m for x in (0, 1, 2, s, s + 1, m - 1, m // 2, m // 3, m // 2 + 1, 3 * (m // 4), 51, 75, 246)))
        bounds = ((s, s), (max(1, s // 2), max(1, m // max(1, s // 2))), (1, m), (m, 1), (s + 1, max(1, s - 1)))
        for fi, f in enumerate(base):
            for xi, x in enumerate((f - m, f, f + m)):
                for vi, v in enumerate(vs):
                    op, nargs, mp, _ = VARIANTS[v]
                    if op == "rr4":
                        if tier == "quick" and ".al" in v and (vi + fi + xi) % 4 != 0: continue
                        cases.append((v, op, [x, m], [x, m], None, "grid-rr4", "grid"))
                    elif op == "rr6":
                        for bi, (ab, bb) in enumerate(bounds):
                            # quick: the aliased forms and the bounds rotate
                            if tier == "quick" and ".al" in v and (vi + fi + xi + bi) % 16 != 0: continue
                            if tier == "quick" and ".al" not in v and (fi + xi + bi) % 2 != 0: continue
                            cases.append((v, op, [x, m, ab, bb], [x, m, ab, bb], None, "grid-rr6", "grid"))
    return cases


def envelope_cases(tier):
    """deterministic block 2: the boundary of the uniqueness envelope 4|a| <= sqrt m, 4 b <= sqrt m: a, b in {e - 1, e} (inside: must be
    reconstructed exactly) and e + 1 (outside: soundness only), representatives f - m, f, f + m, through EVERY entry point that
    can be given the default bound sqrt m (Reduce / forcereduce on and off, recurs on and off)"""
    cases = []
    vs = [v for v in sorted(VARIANTS) if not v.endswith(".init")]
    for m in GRID_MODULI + [10007 * 10009, (1 << 127) - 1]:
        s = isqrt(m); e = s // 4
        if e < 2: continue
        pairs = []
        for a0 in ((e, 0, e + 1) if tier == "quick" else (e, e - 1, 1, 0, e + 1)):
            for b0 in ((e, 1, e + 1) if tier == "quick" else (e, e - 1, 1, e + 1)):
                b = b0 if a0 else 1
                while b > 1 and (math.gcd(b, m) != 1 or math.gcd(a0, b) != 1): b -= 1
                if math.gcd(b, m) != 1 or math.gcd(a0, b) != 1: continue
                for a in ((a0, -a0) if a0 else (0,)):
                    if (a, b) not in pairs: pairs.append((a, b))
        for pi, (a, b) in enumerate(pairs):
            f0 = a * pow(b, -1, m) % m
            for ri, x in enumerate((f0 - m, f0, f0 + m)):
                for vi, v in enumerate(vs):
                    op, nargs, mp, _ = VARIANTS[v]
                    if op == "rr6": continue
                    if tier == "quick" and ri != (vi + pi) % 3: continue       # the representatives rotate over (pair, form)
                    if tier == "quick" and ".al" in v and (vi + pi + ri) % 5 != 0: continue
                    if tier == "quick" and m.bit_length() > 64 and (vi + pi + ri) % 3 != 0: continue
                    full = [x, m] if op in ("rr4", "qf") else [x, m, s]
                    nflags = nargs - len(full)
                    for bits in range(1 << nflags):
                        if tier == "quick" and nflags == 2 and bits in (1, 2) and (pi + ri) % 2: continue
                        ia = full + [(bits >> j) & 1 for j in range(nflags)]
                        cases.append((v, op, ia, mp(list(ia)), (a, b), "envelope-boundary", "grid"))
    return cases


# ------------------------------------------------------------------ specification oracle
def spec_check(op, a, out, extra=None):
    """returns list of (klass, message) for every clause of the property the implementation output violates.
    Only inputs inside the property's domain are judged (m >= 2, 1 <= k <= m; for ratrecon itself also k > m when the
    residue is below k, which is what the widening loops produce).
    extra = (num', den') of the reference call for the callers without a success report (out[0] is then its flag)."""
    ok, n, d = out
    bad = []
    if op == "ratrecon":
        f, m, k, fr = a
        if not (m >= 2 and k >= 1 and (k <= m or f < k)): return bad
        if ok:
            kl = "in-domain"
            if (n - d * f) % m != 0: bad.append((kl, "num != den*f (mod m)"))
            if not abs(n) < k: bad.append((kl, "|num| >= k"))
            if not d > 0: bad.append((kl, "den <= 0"))
            if fr and math.gcd(n, d) != 1: bad.append((kl, "gcd(num,den) != 1 although a reduced fraction was requested"))
    elif op == "rr7":
        f, m, k, fr, rc = a
        if not (m >= 2 and 1 <= k <= m): return bad
        if ok:
            if (n - d * f) % m != 0: bad.append(("in-domain", "num != den*f (mod m)"))
            lim = max(k, f) if rc else k
            if not abs(n) < lim: bad.append(("in-domain", "|num| >= bound"))
            if not d > 0: bad.append(("in-domain", "den <= 0"))
            if fr and math.gcd(n, d) != 1: bad.append(("in-domain", "gcd(num,den) != 1 although a reduced fraction was requested"))
    elif op == "rr4":
        f, m = a
        if not m >= 2: return bad
        k = isqrt(m)
        if ok:
            kl = "in-domain"
            if (n - d * f) % m != 0: bad.append((kl, "num != den*f (mod m)"))
            if not abs(n) < k: bad.append((kl, "|num| >= sqrt(m)"))
            if not d > 0: bad.append((kl, "den <= 0"))
            if math.gcd(n, d) != 1: bad.append((kl, "gcd(num,den) != 1"))
    elif op == "rr6":
        # the property's clauses against the CALLER's bounds (header: numbound, denbound), not against a bound the code derives
        f, m, ab, bb = a
        if not (m >= 2 and 1 <= ab <= m and bb >= 1): return bad
        if ok:
            kl = "in-domain"
            if (n - d * f) % m != 0: bad.append((kl, "num != den*f (mod m)"))
            if not abs(n) < ab: bad.append(("numbound", "|num| >= numbound"))
            if not 0 < d <= bb: bad.append((kl, "den not in (0, denbound]"))
            if math.gcd(n, d) != 1: bad.append(("unreduced", "gcd(num,den) != 1 (the result of ratrecon is ignored)"))
    elif op in ("ctor", "qfk", "qf"):
        # no success report: the pair always satisfies the congruence with den > 0; and when the reconstruction these
        # callers are specified to perform first (Rational::ratrecon(f,m,k,flags)) reports success, the stored pair is
        # that reconstruction: all four clauses hold, gcd = 1 under the Reduce flag
        if op == "qf":
            f, m, fl, rc = a; k = isqrt(m)
        else:
            f, m, k, fl, rc = a
        if not (m >= 2 and 1 <= k <= m): return bad
        if (n - d * f) % m != 0: bad.append(("in-domain", "num != den*f (mod m)"))
        if not d > 0: bad.append(("in-domain", "den <= 0"))
        if extra is not None and ok:
            if not abs(n) < k: bad.append(("in-domain", "|num| >= k although Rational::ratrecon reports a reconstruction"))
            if fl and math.gcd(n, d) != 1: bad.append(("in-domain", "gcd(num,den) != 1 under the Reduce flag although Rational::ratrecon reports a reduced reconstruction"))
            if not bad and (n, d) != extra: bad.append(("in-domain", "stored pair differs from the reconstruction %d/%d reported by Rational::ratrecon" % extra))
    return bad


def spec_complete(op, a, frac, out):
    """completeness inside the envelope: default bound, reduced fraction requested"""
    if frac is None: return None
    x, y = frac
    if op == "rr4": f, m = a; k = isqrt(m); fr = 1
    elif op == "ratrecon": f, m, k, fr = a
    elif op == "rr7": f, m, k, fr, rc = a
    elif op in ("ctor", "qfk"): f, m, k, fr, rc = a       # Rational::flags = Reduce is "a reduced fraction is requested"
    elif op == "qf": f, m, fr, rc = a; k = isqrt(m)
    else: return None
    s = isqrt(m)
    if not (m >= 2 and k == s and fr and 4 * abs(x) <= s and 4 * y <= s and math.gcd(x, y) == 1 and (x - y * f) % m == 0): return None
    return (1, x, y)


def parse_out(line):
    t = line.split()
    if len(t) not in (3, 5): return None
    try:
        return (int(t[0]), int(t[1]), int(t[2]))
    except ValueError:
        return None


def parse_extra(line):
    """(num', den') of the reference call printed by the variants without a success report"""
    t = line.split()
    try:
        return (int(t[3]), int(t[4])) if len(t) == 5 else None
    except ValueError:
        return None


def gen_cases(rng, tier, chk):
    n = 9000 if tier == "quick" else 250000
    cases = []   # (variant, op, implargs, modelargs, frac, fclass, mclass)
    vs = [v for v in sorted(VARIANTS) if not v.endswith(".init")]
    for i in range(n):
        mclass, m = gen_modulus(rng)
        if tier == "quick" and m.bit_length() > 200 and rng.chance(1, 2):
            mclass, m = gen_modulus(rng)
        fclass, f, frac = gen_residue(rng, m)
        v = vs[i % len(vs)] if rng.chance(1, 2) else rng.choice(["ratrecon.static", "ratrecon.zring", "rr4.static", "rr7.static", "rr6.static"])
        op, nargs, mp, _ = VARIANTS[v]
        k = gen_k(rng, m)
        if frac and rng.chance(2, 3): k = max(1, isqrt(m))
        fr, rc = rng.below(4) != 0, rng.below(2)
        if op == "ratrecon": ia = [f, m, k, int(fr), rc][:nargs]
        elif op == "rr7": ia = [f, m, k, int(fr), rc][:nargs]
        elif op == "rr4": ia = [f, m]
        elif op == "rr6":
            s = isqrt(m)
            ab = rng.choice([max(1, s), max(1, s // 2), k, rng.range(1, m)])
            bb = rng.choice([max(1, s), max(1, m // max(1, ab)), rng.range(1, m), 1])
            ia = [f, m, ab, bb]
        elif op in ("ctor", "qfk"): ia = [f, m, k, int(fr), rc][:nargs]
        else: ia = [f, m, int(fr), rc][:nargs]
        cases.append((v, op, ia, mp(list(ia)), frac, fclass, mclass))
    # exhaustive small block: every (m, f, k) with m <= M0, f in [-m, 2m], k in [1, m]
    M0 = 14 if tier == "quick" else 40
    for m in range(1, M0 + 1):          # m = 1 is outside the property's quantifier: compared with the model only
        for f in range(-m, 2 * m + 1):
            for k in range(1, m + 1):
                for fr in (0, 1):
                    ia = [f, m, k, fr, 0]
                    cases.append(("ratrecon.static", "ratrecon", ia, ia[:4], None, "exhaustive", "tiny"))
    # every call form x every combination of its boolean flags (and its default-argument forms) on inputs where the
    # flags matter: the first Euclidean candidate is not coprime (second candidate taken or failure) -- small moduli
    # exhaustively, larger ones from the smooth / prime-power generators
    trip = []
    for m in range(2, (8 if tier == "quick" else 14) + 1):
        for f in range(-m - 1, 2 * m + 2):
            for k in range(1, m + 1):
                r1, t1, _ = first_candidate(f, m, k)
                if math.gcd(r1, t1) != 1: trip.append((f, m, k, "tiny"))
    want = len(trip) + (150 if tier == "quick" else 3000)
    tries = 0
    while len(trip) < want and tries < 40 * want:
        tries += 1
        mclass, m = gen_modulus(rng)
        if mclass not in ("smooth", "pow2", "primepower", "composite-word"): continue
        fclass, f, _ = gen_residue(rng, m)
        k = rng.choice([max(1, isqrt(m)), gen_k(rng, m), 1, m])
        if k > m: continue
        r1, t1, _ = first_candidate(f, m, k)
        if math.gcd(r1, t1) != 1: trip.append((f, m, k, mclass))
    for ti, (f, m, k, mclass) in enumerate(trip):
        for vi, v in enumerate(vs):
            op, nargs, mp, _ = VARIANTS[v]
            if op in ("rr4", "rr6"): continue
            if ".al" in v and (vi + ti) % 6 != 0: continue      # aliased forms: one per triple, in rotation
            full = [f, m, k] if op != "qf" else [f, m]
            nflags = nargs - len(full)
            for bits in range(1 << nflags):
                ia = full + [(bits >> j) & 1 for j in range(nflags)]
                cases.append((v, op, ia, mp(list(ia)), None, "flag-combinations", mclass))
    # envelope enumeration: all a/b with b <= 64 inside the envelope for a set of moduli
    nm = 40 if tier == "quick" else 250
    for j in range(nm):
        mclass, m = gen_modulus(rng)
        while isqrt(m) < 8:
            mclass, m = gen_modulus(rng)
        e = isqrt(m) // 4
        bs = list(range(1, min(e, 64) + 1))
        for b in bs:
            if math.gcd(b, m) != 1: continue
            for a in ([0, 1, -1, e, -e, e - 1, 1 - e] + [rng.range(-e, e) for _ in range(2 if tier == "quick" else 8)]) if e > 16 else range(-e, e + 1):
                if math.gcd(a, b) != 1: continue
                f = a * pow(b, -1, m) % m
                ia = [f, m]
                cases.append(("rr4.static", "rr4", ia, ia, (a, b), "envelope-enum", mclass))
    # deterministic blocks (independent of the seed)
    cases += grid_cases(tier)
    cases += envelope_cases(tier)
    cases += rr6_boundary_cases(tier)
    cases += word_threshold_cases()
    return init_flag_cases() + cases           # the initial-flags block first: nothing has touched Rational::flags yet


# ------------------------------------------------------------------ polynomials over Z/p (python oracle, independent of the model)
def ptrim(a):
    a = list(a)
    while a and a[-1] == 0: a.pop()
    return a

def pdeg(a): return len(ptrim(a)) - 1

def padd(a, b, p):
    n = max(len(a), len(b))
    return ptrim([((a[i] if i < len(a) else 0) + (b[i] if i < len(b) else 0)) % p for i in range(n)])

def psub(a, b, p):
    n = max(len(a), len(b))
    return ptrim([((a[i] if i < len(a) else 0) - (b[i] if i < len(b) else 0)) % p for i in range(n)])

def pmul(a, b, p):
    if not a or not b: return []
    r = [0] * (len(a) + len(b) - 1)
    for i, x in enumerate(a):
        if x:
            for j, y in enumerate(b):
                r[i + j] = (r[i + j] + x * y) % p
    return ptrim(r)

def pdivmod(a, b, p):
    a, b = ptrim(a), ptrim(b)
    q = [0] * max(0, len(a) - len(b) + 1)
    ib = pow(b[-1], -1, p)
    a = list(a)
    while len(a) >= len(b):
        c = a[-1] * ib % p
        d = len(a) - len(b)
        q[d] = c
        for j, y in enumerate(b):
            a[d + j] = (a[d + j] - c * y) % p
        a = ptrim(a[:-1]) if a[-1] == 0 else ptrim(a)
    return ptrim(q), ptrim(a)

def pgcd(a, b, p):
    a, b = ptrim(a), ptrim(b)
    while b:
        a, b = b, pdivmod(a, b, p)[1]
    return a

def pinvmod(a, m, p):
    """inverse of a modulo m in (Z/p)[X] or None"""
    r0, t0, r1, t1 = ptrim(m), [], pdivmod(a, m, p)[1], [1]
    while r1:
        q, r = pdivmod(r0, r1, p)
        r0, t0, r1, t1 = r1, t1, r, psub(t0, pmul(q, t1, p), p)
    if len(r0) != 1: return None
    c = pow(r0[0], -1, p)
    return pdivmod([x * c % p for x in t0], m, p)[1]

POLY_PRIMES = [2, 3, 5, 7, 13, 101, 257, 65521, 1048573, 67108859]

# fixed inputs of the deterministic polynomial call-form block: (p, M, (A, B) | P, dk); coefficient lists, low degree first
POLY_GRID = [
    (101, [5, 2, 0, 1], ([3, 1], [1, 4]), 1),                  # (3+x)/(1+4x) mod x^3+2x+5
    (101, [5, 2, 0, 1], ([3, 1], [1, 4]), 2),
    (101, [5, 2, 0, 1], ([3, 1, 2], [1]), 2),                  # deg P == dk: no early exit
    (101, [0, 0, 0, 0, 1], [1, 0, 0, 1], 2),                   # X^4, 1 + X^3: the first candidate is not coprime
    (3, [0, 0, 1], [0, 1], 0),
    (3, [0, 0, 1], [0, 1], 1),
    (7, [1, 0, 0, 0, 0, 0, 1], ([1, 2, 3], [6, 5, 1]), 2),     # dk at the uniqueness boundary deg A = dk, deg B = deg M - dk - 1... - 1
    (7, [1, 0, 0, 0, 0, 0, 1], ([1, 2, 3], [4, 6, 5, 1]), 2),  # deg B = deg M - dk - 1: the boundary
    (65521, [1, 1, 0, 0, 1, 0, 0, 0, 3], ([5, 0, 0, 1], [2, 0, 7, 0, 1]), 3),
    (65521, [1, 1, 0, 0, 1, 0, 0, 0, 3], ([5, 0, 0, 1], [2, 0, 7, 0, 1]), 0),   # bound too small: failure or another pair
    (2, [1, 1, 0, 1, 1], ([1, 1], [1, 0, 1]), 1),
    (67108859, [7, 0, 0, 1], [0], 1),                          # P = 0
    (67108859, [7, 0, 0, 1], [5], 0),                          # non-zero constant with dk = 0
    (13, [12, 0, 1], [1, 1], 0),                               # M = (x-1)(x+1), P = x+1 shares a factor with M
    (13, [1, 2, 1], ([1], [1, 1]), 0),                         # M = (x+1)^2, B = x+1 not invertible -> handled below (pinvmod None)
]


def rand_poly(rng, p, d, monic=False):
    """degree exactly d (d = -1: zero)"""
    if d < 0: return []
    sparse = rng.chance(1, 4)
    a = [(0 if sparse and rng.chance(1, 2) else rng.below(p)) for _ in range(d)]
    a.append(1 if monic else rng.range(1, p - 1))
    return a

def gen_poly_case(rng, big):
    """returns (variant, args list for the line, fclass, expected fraction or None)"""
    p = rng.choice(POLY_PRIMES)
    dM = rng.choice([1, 2, 3, 4, 5, 6, 8, 11, 16] + ([24, 33, 48] if big else []))
    c = rng.below(12)
    M = rand_poly(rng, p, dM, monic=rng.chance(1, 2))
    if c == 0:                       # modulus X^n (the Pade case) or a power of a small polynomial
        M = [0] * dM + [1]
    elif c == 1 and dM >= 2:
        b = rand_poly(rng, p, 1)
        M = [1]
        for _ in range(dM): M = pmul(M, b, p)
    dk = rng.choice([0, 0, 1, dM - 1, max(0, dM // 2), max(0, (dM - 1) // 2), rng.range(0, dM - 1)])
    frac = None
    fclass = "random"
    r = rng.below(16)
    if r < 7:                        # P = A / B mod M with deg A <= dk, deg B <= dM - dk - 1
        dA = rng.choice([dk, dk, rng.range(-1, dk), max(-1, dk - 1)])
        dB = rng.choice([dM - dk - 1, dM - dk - 1, rng.range(0, dM - dk - 1), max(0, dM - dk - 2), 0])
        A = rand_poly(rng, p, dA)
        B = rand_poly(rng, p, dB, monic=True)
        if r == 6 and dA >= 1 and dB >= 1:          # common factor: the reconstructed pair is the reduced one
            g = rand_poly(rng, p, 1, monic=True)
            A = pmul(pdivmod(A, g, p)[0] or [1], g, p); B = pmul(pdivmod(B, g, p)[0] or [1], g, p)
        Bi = pinvmod(B, M, p)
        if Bi is not None:
            P = pdivmod(pmul(A, Bi, p), M, p)[1]
            fclass = "frac"
            if rng.chance(1, 4):         # a representative that is not reduced modulo M (deg P >= deg M)
                P = padd(P, pmul(M, rand_poly(rng, p, rng.range(0, 2)), p), p); fclass = "frac-unreduced"
            g = pgcd(A, B, p)
            if len(g) == 1: frac = (A, B)
        else:
            P = rand_poly(rng, p, rng.range(-1, dM - 1)); fclass = "den-not-invertible"
    elif r == 7: P = []; fclass = "zero"
    elif r == 8: P = [rng.range(1, p - 1)]; fclass = "constant"
    elif r == 9: P = rand_poly(rng, p, dM + rng.range(0, 3)); fclass = "deg>=degM"
    elif r == 10: P = pmul(M, rand_poly(rng, p, rng.range(0, 2)), p); fclass = "multiple-of-M"
    elif r == 11:                    # shares a factor with M
        g = pgcd(M, rand_poly(rng, p, max(1, dM // 2)), p)
        P = pdivmod(pmul(g, rand_poly(rng, p, rng.range(0, dM)), p), M, p)[1]; fclass = "gcd(P,M)!=1"
    elif r == 12: P = rand_poly(rng, p, dk); fclass = "deg=dk"
    else: P = rand_poly(rng, p, rng.range(max(0, dM - 2), dM - 1))
    fr = rng.below(2)
    v = rng.choice(["poly.rr5", "poly.check", "poly.rr6", "poly.rr6", "poly.rr5d", "poly.checkd", "poly.rr6d"])
    if rng.chance(1, 6): v = "%s.al%d" % (v, rng.below(4))       # an output is the same object as P or M
    if rng.chance(1, 8): P = P + [0] * rng.range(1, 3)            # vectors that are not normalised (zero leading entries)
    if rng.chance(1, 8): M = M + [0] * rng.range(1, 2)
    args = [p, dk, fr, len(P)] + P + [len(M)] + M
    return v, args, fclass, frac, (p, dk, fr, P, M)


def parse_poly_out(line):
    t = line.split()
    if len(t) < 3 or t[1] != "N" or "D" not in t: return None
    try:
        i = t.index("D")
        return int(t[0]), [int(x) for x in t[2:i]], [int(x) for x in t[i + 1:]]
    except ValueError:
        return None


def poly_spec(v, pc, out):
    """soundness clauses of the property for the polynomial version; domain: deg M >= 1, 0 <= dk < deg M"""
    p, dk, fr, P, M = pc
    ok, N, D = out
    bad = []
    if not (pdeg(M) >= 1 and 0 <= dk < pdeg(M)): return bad
    if not ok: return bad
    reduced = v.startswith("poly.check") or (v.startswith("poly.rr6") and fr)
    if any(not 0 <= x < p for x in N + D): bad.append(("in-domain", "coefficient outside [0,p)"))
    if pdivmod(psub(N, pmul(D, P, p), p), M, p)[1]: bad.append(("in-domain", "N != D*P (mod M)"))
    if pdeg(N) > dk: bad.append(("in-domain", "deg N > bound"))
    if not ptrim(D): bad.append(("in-domain", "D == 0"))
    elif reduced:
        if len(pgcd(N, D, p)) > 1: bad.append(("in-domain", "gcd(N,D) != 1 although a reduced fraction was requested"))
        if ptrim(D)[-1] != 1: bad.append(("in-domain", "D not monic after ratreconcheck"))
    return bad


def poly_unique(pc, frac, out):
    """polynomial analogue of the completeness clause: inside the uniqueness range (deg A <= dk, deg B < deg M - dk,
    gcd(A,B) = gcd(B,M) = 1) the reconstruction must succeed with N/D = A/B.  Only judged for deg P > dk: for
    deg P == dk the code does not take the early exit (it tests deg P < dk) and performs one more division step,
    returning another pair that still satisfies the soundness clauses but has deg D = deg M - dk."""
    p, dk, fr, P, M = pc
    ok, N, D = out
    A, B = frac
    if not ok: return "reported failure although %s / %s is a solution" % (A, B)
    if psub(pmul(N, B, p), pmul(A, D, p), p): return "N/D != A/B"
    return None


def cases_from_replay(path):
    """rebuild the case tuples from a replay file written by vf.Check.finish (failing_inputs[].case = variant + args)"""
    import json
    out = []
    for f in json.load(open(path)).get("failing_inputs", []):
        c = f.get("case") or {}
        v, a = c.get("variant"), [int(x) for x in c.get("args", [])]
        if v in VARIANTS:
            op, nargs, mp, _ = VARIANTS[v]
            out.append((v, op, a, mp(list(a)), None, "replay", "replay", None))
        elif v and v.startswith("poly.") and len(a) >= 5:
            nP = a[3]
            P, M = a[4:4 + nP], a[5 + nP:]
            out.append((v, poly_model_op(v), a, a, None, "replay", "p=%d" % a[0], (a[0], a[1], a[2], P, M)))
    out.sort(key=lambda c: not c[0].endswith(".init"))      # the initial-flags forms must be the first lines of the harness
    return out


def run_parallel(binary, lines, nproc, timeout=2400, args=()):
    """the extracted model computes on Coq's binary integers (slow on multi-limb moduli): run it on nproc
    interleaved slices of the case list at once and put the output lines back in order"""
    import subprocess
    nproc = max(1, min(nproc, len(lines) or 1))
    procs = []
    for j in range(nproc):
        pr = subprocess.Popen([binary] + list(args), stdin=subprocess.PIPE, stdout=subprocess.PIPE, stderr=subprocess.PIPE, universal_newlines=True)
        procs.append(pr)
    import threading
    outs, errs, rcs = [None] * nproc, [""] * nproc, [0] * nproc
    def work(j):
        try:
            o, e = procs[j].communicate("".join(lines[j::nproc]), timeout=timeout)
            outs[j], errs[j], rcs[j] = o.splitlines(), e, procs[j].returncode
        except subprocess.TimeoutExpired:
            procs[j].kill(); outs[j], errs[j], rcs[j] = [], "[timeout]", 124
    ths = [threading.Thread(target=work, args=(j,)) for j in range(nproc)]
    for t in ths: t.start()
    for t in ths: t.join()
    rc = max(rcs, key=abs)
    if rc != 0 or any(len(outs[j]) != len(lines[j::nproc]) for j in range(nproc)):
        return (rc or 1), [l for o in outs for l in (o or [])], "\n".join(errs)
    res = [None] * len(lines)
    for j in range(nproc):
        res[j::nproc] = outs[j]
    return 0, res, ""


def run_impl(himpl, lines, timeout):
    """run the implementation harness (ONE process at a time: the caps below are global) on the case lines.
    Returns (outputs, status): outputs[i] is the line of case i; "DOES-NOT-RETURN" when the case exceeded its CPU budget twice
    (10 s inside the stream, then 30 s alone); "CRASHED rc=.." when the process died in it; "SKIPPED" when its call form is no
    longer driven (after the first confirmed does-not-return, or 4 crashes, of that form); None when it was not reached.
    Caps per run: 3 confirmations, 6 first-stage overruns, 12 crashes, then the stream stops (status "hang-limit").
    status: "ok", "hang-limit", "timeout" (wall-clock limit of the whole stream) or an error text."""
    out = [None] * len(lines)
    form = [l.split(None, 1)[0] if l.strip() else "" for l in lines]
    dead, crashes = set(), {}
    n_confirm = n_over = n_crash = 0
    pos, t_end = 0, time.time() + timeout
    def nxt(p):
        while p < len(lines) and form[p] in dead:
            out[p] = "SKIPPED"; p += 1
        return p
    while True:
        pos = nxt(pos)
        if pos >= len(lines):
            return out, "ok"
        left = t_end - time.time()
        if left <= 5:
            return out, "timeout"
        idx = [i for i in range(pos, len(lines)) if form[i] not in dead]
        for i in range(pos, len(lines)):
            if form[i] in dead: out[i] = "SKIPPED"
        rc, o, err = vf.run_lines(himpl, "".join(lines[i] for i in idx), timeout=left)
        stuck = rc == 42 and o and o[-1].strip() == "DOES-NOT-RETURN"
        good = o[:-1] if stuck else o
        if rc == 124 and good:
            good = good[:-1]          # the last line of a killed process may be torn
        good = good[:len(idx)]
        for j, l in enumerate(good):
            out[idx[j]] = l
        if rc == 0 and len(good) == len(idx):
            return out, "ok"
        if rc == 124 and "[timeout]" in err:
            return out, "timeout"
        if len(good) >= len(idx):
            return out, "harness failed (rc=%s) after the last case %s" % (rc, err[-200:])
        cur = idx[len(good)]           # the case the process was in
        pos = cur + 1
        if stuck:
            n_over += 1
            env_old = os.environ.get("C11_CASE_CPU")
            os.environ["C11_CASE_CPU"] = "30"       # once more, alone, with a larger budget
            try:
                rc1, o1, e1 = vf.run_lines(himpl, lines[cur], timeout=max(60, t_end - time.time()))
            finally:
                if env_old is None: os.environ.pop("C11_CASE_CPU", None)
                else: os.environ["C11_CASE_CPU"] = env_old
            if rc1 == 0 and len(o1) == 1:
                out[cur] = o1[0]
            elif rc1 == 42:
                out[cur] = "DOES-NOT-RETURN"
                n_confirm += 1
                dead.add(form[cur])     # this call form is not driven any more in this run
            elif rc1 == 124:
                return out, "timeout"
            else:
                out[cur] = "CRASHED rc=%s" % rc1
                n_crash += 1
            if n_confirm >= 3 or n_over >= 6:
                return out, "hang-limit"
            continue
        if rc not in (0, 42, 124):
            # the process died in this case (signal / abort / uncaught exception): a concrete failing input; go on behind it
            out[cur] = "CRASHED rc=%s" % rc
            n_crash += 1
            crashes[form[cur]] = crashes.get(form[cur], 0) + 1
            if crashes[form[cur]] >= 4:
                dead.add(form[cur])
            if n_crash >= 12:
                return out, "hang-limit"
            continue
        return out, "harness failed (rc=%s, case %d of %d) %s" % (rc, cur, len(lines), err[-300:])


def main(tier, replay=None):
    chk = vf.Check("C11", tier, "proof")
    rng = vf.Rng(chk.seed)
    chk.cov["trusted_base"] = [
        "Coq 8.16.1 kernel",
        "extraction: ExtrOcamlBasic only; Z/positive/nat kept as extracted inductives; OCaml 4.13.1; zarith only for text I/O in harness/zio.ml",
        "Integer primitives used by the code (tdiv_q, tdiv_r, mpz_mod, submul, gcd, sqrt, compare) are given their GMP meaning on Z in Model.v (Z.quot, Z.rem, Z.modulo, Z.gcd, Z.sqrt); validated by the correspondence run",
        "polynomial primitives (degree, assign, divmodin, maxpyin, gcd, leadcoef, divin) are the models of Poly1Dom of coq/C08 (hand-written after the C++, owned by property C08); the ring laws, the division identity, the degree bound of the division and the product/threshold theorems used by the list theorems are C08's, the degree laws are proved in coq/C11/PolyLists.v; the extracted instance runs over C08.Fp.FpDom q (subset type of canonical residues, FieldOK proved for prime q in C08.ProofsFp): C11_fp_ratrecon_sound / _total are about exactly the extracted functions",
        "that C08's gcd model computes a gcd is not proved: polynomial reducedness is judged by the oracle only",
        "harness/c11_ratrecon.C, checks/C11.py (generators, python oracles)",
        "g++ / x86-64 / GMP for the implementation side",
    ]
    chk.assumptions = ["models hand-written after givratreconstruct.C and givpoly1ratrecon.inl; tie = correspondence on generated cases for every public call form",
                       "the `recurs` flag of Rational::ratrecon only controls std::cerr output and is not modelled",
                       "givaro defects repaired in /repo that this model follows: 5d1bca8 (residue f <= -m reduced with modin), 68125ac (6-argument RationalReconstruction returns ratrecon(...) && b <= b_bound), 224c4ab (6-argument RationalReconstruction hands ratrecon the caller's numbound)"]
    # the Coq build (coq/C08 first: imported read-only, then coq/C11) and the C++ builds are independent: run them side by side
    import threading
    box = {}
    def coq_side():
        res = vf.coq_check_props(AREA)
        # coq/C08 is also rebuilt by its own check: a build that fails while the other make is writing the same .vo files is
        # transient - retry before calling the obligation broken
        for attempt in range(2):
            if res["ok"] or res["forbidden"]: break
            time.sleep(15 + 30 * attempt)
            chk.notes.append("Coq build retried (attempt %d): %s" % (attempt + 2, res["log"][-300:].replace("\n", " | ")))
            res = vf.coq_check_props(AREA)
        box["res"] = res
        box["drv"] = vf.ocaml_build(AREA) if os.path.exists(os.path.join(vf.coq_dir(AREA), "ocaml", "model.ml")) else (None, "extraction did not run")
    def coq_side_safe():
        try:
            coq_side()
        except Exception as ex:         # never lose the verdict to a tooling exception in the side thread
            box["exc"] = repr(ex)
    th = threading.Thread(target=coq_side_safe)
    th.start()
    himpl, l2 = vf.build_harness("c11_ratrecon.C")
    th.join()
    if "res" not in box:
        box["res"] = vf.coq_check_props(AREA)
    if "drv" not in box:
        box["drv"] = vf.ocaml_build(AREA) if os.path.exists(os.path.join(vf.coq_dir(AREA), "ocaml", "model.ml")) else (None, "extraction did not run: %s" % box.get("exc"))
    chk.proof_result(box["res"], AREA)
    drv, l1 = box["drv"]
    if drv is None:
        chk.broke("extracted model driver does not build", l1)
    if himpl is None:
        chk.broke("implementation harness does not compile against /repo", l2)
        return chk.finish()
    vf.log("C11: proofs+builds %.1fs" % (time.time() - chk.t0))
    # constants the theorems depend on, as the COMPILED implementation sees them (tie, read on every run):
    #   Rational::Reduce / NoReduce converted to `bool forcereduce` by Rational(f,m,k,recurs) (model: flags = Reduce <-> true);
    #   KARA_THRESHOLD / SQR_THRESHOLD of givpoly1kara.inl (C11_list_ratrecon_sound needs kthr >= 1; passed to the extracted model)
    kthr, sthr = 50, 50
    rc, cout, cerr = vf.run_lines(himpl, "consts\n", timeout=600)
    ct = cout[0].split() if (rc == 0 and cout) else []
    if len(ct) == 7 and ct[0] == "CONSTS" and all(x.lstrip("-").isdigit() for x in ct[1:]):
        red, nored, redb, noredb, kthr, sthr = [int(x) for x in ct[1:]]
        chk.cov["source_constants"] = {"Rational::Reduce": red, "Rational::NoReduce": nored, "bool(Reduce)": redb, "bool(NoReduce)": noredb,
                                       "KARA_THRESHOLD": kthr, "SQR_THRESHOLD": sthr}
        if redb != 1 or noredb != 0:
            chk.broke("tie: Rational::Reduce / NoReduce convert to forcereduce = %d / %d (the model of Rational(f,m,k,recurs) and of "
                      "QField<Rational>::ratrecon assumes 1 / 0: the default mode requests a reduced fraction)" % (redb, noredb))
        if kthr < 1:
            chk.broke("tie: KARA_THRESHOLD = %d; C11_list_ratrecon_sound (C08's product theorem) needs a threshold >= 1" % kthr)
            kthr = 1
        sthr = max(sthr, 0)
    elif rc in (124, -9):
        chk.notes.append("inconclusive: the harness timed out printing its constants; thresholds 50/50 assumed")
    else:
        chk.broke("tie: the harness did not print the constants of the compiled implementation", "rc=%s out=%r %s" % (rc, cout[:2], cerr[-300:]))
    # the 6-argument RationalReconstruction is compared UNCONDITIONALLY with the model of the repaired body (RR6f: /repo 224c4ab,
    # numerator bound = the caller's numbound); the body with bound = x/bb is history (C11_rr6_numbound_refuted) - a revert is
    # reported by the oracle (klass numbound) and by the correspondence
    cases = gen_cases(rng, tier, chk)
    if True:              # b_bound = 0 (divided by zero before 224c4ab): a plain failure
        for m in GRID_MODULI[:6]:
            for f in (0, 1, m // 2, m - 1, m + 3):
                for v in ("rr6.static", "rr6.zring", "rr6.al3", "rr6.al7"):
                    cases.append((v, "rr6", [f, m, max(1, isqrt(m)), 0], [f, m, max(1, isqrt(m)), 0], None, "rr6-denbound-0", "grid"))
    # polynomial cases: (variant, op for the model, impl args, model args, frac, fclass, mclass, extra)
    npoly = 2500 if tier == "quick" else 120000
    pcases = []
    for i in range(npoly):
        v, args, fclass, frac, pc = gen_poly_case(rng, tier != "quick")
        pcases.append((v, poly_model_op(v), args, args, frac, fclass, "p=%d" % pc[0], pc))
    # exhaustive small block over F_2 and F_3 (deterministic): every M of small degree (F_3: both leading coefficients), every residue P up to a degree above deg M
    # (residues of degree below / equal / above the modulus), every dk in [0, deg M), 5-argument, check and dispatcher with both flags
    # number of coefficient slots of P per (p, deg M, leading coefficient of M): deg P ranges over -1 .. slots - 1
    if tier == "quick":
        slots = {(2, 1, 1): 4, (2, 2, 1): 5, (2, 3, 1): 6, (2, 4, 1): 4, (3, 1, 1): 4, (3, 1, 2): 3, (3, 2, 1): 3, (3, 2, 2): 2}
    else:
        slots = dict(((2, d, 1), d + 3 if d <= 4 else d) for d in range(1, 7))
        slots.update(dict(((3, d, l), d + 2 if d <= 2 else d) for d in range(1, 5) for l in (1, 2) if d <= 3 or l == 1))
    for (p, dM, lead), dP in sorted(slots.items()):
        for mi in range(p ** dM):
            M = [(mi // p ** j) % p for j in range(dM)] + [lead]
            for pi in range(p ** dP):
                P = ptrim([(pi // p ** j) % p for j in range(dP)])
                for dk in range(0, dM):
                    for v, fr in (("poly.rr5", 1), ("poly.check", 0), ("poly.rr6", 0), ("poly.rr6", 1)):
                        args = [p, dk, fr, len(P)] + P + [len(M)] + M
                        pcases.append((v, v, args, args, None, "exhaustive", "p=%d" % p, (p, dk, fr, P, M)))
    # degenerate moduli (outside the property's domain deg M >= 1, compared with the model only): the branches `degV == 0` and
    # `degV < 0` of the early exits: M a non-zero constant, M = 0 (empty and [0]), every polynomial call form
    for p in (2, 101):
        for M in ([], [0], [1], [3 % p or 1], [5 % p, 0]):
            for P in ([], [1], [2 % p or 1, 1], [0, 0, 1], [1, 0]):
                for dk in (0, 1):
                    for v in POLY_FORMS:
                        if ".al" in v and (len(M) + len(P) + dk + POLY_FORMS.index(v)) % 3: continue
                        args = [p, dk, 1, len(P)] + P + [len(M)] + M
                        pcases.append((v, poly_model_op(v), args, args, None, "degenerate-modulus", "p=%d" % p, (p, dk, 1, P, M)))
    # sizes above KARA_THRESHOLD / SQR_THRESHOLD (read from the implementation): the Karatsuba branches of the products inside
    # divmodin / maxpyin are taken (fixed generator state: the same inputs on every run)
    krng = vf.Rng(20261002)
    for j in range(4 if tier == "quick" else 24):
        p = (65521, 101, 2, 67108859)[j % 4]
        dM = 2 * max(kthr, sthr, 8) + 24 + 3 * j
        dk = dM // 2 - (j % 3)
        M = rand_poly(krng, p, dM, monic=(j % 2 == 0))
        A, B = rand_poly(krng, p, dk - (j % 2)), rand_poly(krng, p, dM - dk - 1, monic=True)
        Bi = pinvmod(B, M, p)
        if Bi is None: continue
        P = pdivmod(pmul(A, Bi, p), M, p)[1]
        if j % 4 == 3: P = padd(P, pmul(M, [1, 1], p), p)
        frac0 = (A, B) if len(pgcd(A, B, p)) == 1 else None
        for v, fr in (("poly.rr5", 0), ("poly.rr6", 1), ("poly.checkd", 0)):
            args = [p, dk, fr, len(P)] + P + [len(M)] + M
            pcases.append((v, poly_model_op(v), args, args, frac0, "karatsuba-size", "p=%d" % p, (p, dk, fr, P, M)))
    # deterministic call-form block: fixed (p, M, A/B or P, dk) x representatives of the residue (reduced; + c*M: degree equal to
    # deg M; + (X^2+7)*M: degree above; zero leading entries) x every polynomial call form incl. the aliased ones x both flags
    for (p, M, src, dk) in POLY_GRID:
        if isinstance(src, tuple):
            A, B = src
            Bi = pinvmod(B, M, p)
            P0 = pdivmod(pmul(A, Bi, p), M, p)[1] if Bi is not None else ptrim(A)
            # the uniqueness range: deg A <= dk, deg B < deg M - dk, gcd(A,B) = gcd(B,M) = 1
            frac0 = src if (Bi is not None and len(pgcd(A, B, p)) == 1 and pdeg(A) <= dk and pdeg(B) < pdeg(M) - dk) else None
        else:
            P0, frac0 = ptrim(src), None
        reps = [("reduced", P0), ("deg=degM", padd(P0, pmul(M, [3 % p or 1], p), p)), ("deg>degM", padd(P0, pmul(M, [7 % p, 0, 1], p), p)),
                ("unnormalised", P0 + [0, 0]),
                ("deg=10degM", padd(P0, pmul(M, [1] + [0] * (9 * pdeg(M) - 1) + [1], p), p))]
        for rname, P in reps:
            for v in POLY_FORMS:
                for fr in (0, 1):
                    args = [p, dk, fr, len(P)] + P + [len(M)] + M
                    pcases.append((v, poly_model_op(v), args, args, frac0, "grid-" + rname, "p=%d" % p, (p, dk, fr, P, M)))
    allc = [(v, op, ia, ma, frac, fc, mc, None) for (v, op, ia, ma, frac, fc, mc) in cases] + pcases
    # last, so that everything else has been judged if one of them does not return
    allc += [(v, op, ia, ma, frac, fc, mc, None) for (v, op, ia, ma, frac, fc, mc) in huge_shift_cases(tier)]
    if replay:
        allc = cases_from_replay(replay)
        chk.notes.append("replay of %d cases from %s" % (len(allc), replay))
    model_in = ["%s %s\n" % ("rr6f" if c[1] == "rr6" else c[1], " ".join(str(x) for x in c[3])) for c in allc]
    vf.log("C11: generation done %.1fs" % (time.time() - chk.t0))
    impl_lines = ["%s %s\n" % (c[0], " ".join(str(x) for x in c[2])) for c in allc]
    iout, istatus = run_impl(himpl, impl_lines, 2400)
    inconclusive = []
    n_skip = sum(1 for x in iout if x == "SKIPPED")
    if n_skip:
        inconclusive.append("%d cases of call forms that were stopped after a confirmed does-not-return / 4 crashes were not driven" % n_skip)
    if istatus == "timeout":
        # a wall-clock time-out of our own tooling (machine load) is an inconclusive stream, not a violation: the cases that
        # were answered are judged, the others are counted as NOT compared (floors below)
        n_done = sum(1 for x in iout if x is not None and x != "SKIPPED")
        inconclusive.append("implementation harness: wall-clock limit 2400 s reached after %d of %d cases" % (n_done, len(allc)))
    elif istatus == "hang-limit":
        n_done = sum(1 for x in iout if x is not None and x != "SKIPPED")
        inconclusive.append("implementation harness: stream stopped at the cap of hanging / crashing cases (3 confirmed does-not-return, 6 first-stage overruns or 12 crashes; reported as failing inputs); %d of %d cases run" % (n_done, len(allc)))
    elif istatus != "ok":
        bad = next((allc[i] for i, x in enumerate(iout) if x is None), None)
        chk.broke("implementation %s; next case: %s" % (istatus, bad and (bad[0], bad[2])))
        return chk.finish()
    mout = None
    if drv:
        rc, mout, merr = run_parallel(drv, model_in, 6 if tier == "quick" else 12, args=[str(kthr), str(sthr)])
        if rc == 124 and "[timeout]" in merr:
            inconclusive.append("model driver: wall-clock limit reached; correspondence NOT judged on any case (specification oracle judged)")
            mout = None
        elif rc != 0 or len(mout) != len(allc):
            chk.broke("model driver failed (rc=%s, %d/%d lines)" % (rc, len(mout), len(allc)), merr)
            mout = None
    vf.log("C11: impl+model runs done %.1fs" % (time.time() - chk.t0))
    ncorr = 0
    norac = {"integer": 0, "polynomial": 0}
    stats = {}
    def st(key):
        stats[key] = stats.get(key, 0) + 1
    for i, (v, op, ia, ma, frac, fclass, mclass, pc) in enumerate(allc):
        case = {"variant": v, "args": [str(x) for x in ia]}
        st("variant/" + v); st("modulus/" + mclass); st("residue/" + ("poly-" if pc else "") + fclass)
        if iout[i] is None:           # not reached before the wall-clock limit / the hang cap: not compared, not counted
            st("not-compared/not-reached")
            continue
        if iout[i] == "SKIPPED":      # its call form is no longer driven after a confirmed hang / 4 crashes: not compared
            st("not-compared/form-stopped")
            continue
        if i % 1499 == 0:
            chk.sample({"variant": v, "args": [str(x) for x in ia][:24], "impl": iout[i][:200]})
        nfail = len(chk.failing)
        if iout[i].startswith("CRASHED"):
            site = ("polyratrecon:" + op[5:]) if pc is not None else ("ratrecon:" + VARIANTS[v][0])
            chk.fail_input(site, "crash", case, "the call returns", iout[i], "the harness process died in this call (%s)" % iout[i])
            continue
        if iout[i].strip() == "DOES-NOT-RETURN":
            site = ("polyratrecon:" + op[5:]) if pc is not None else ("ratrecon:" + VARIANTS[v][0])
            chk.fail_input(site, "does-not-return", case, "the call returns", "no return within 10 s of CPU time in the stream and 30 s alone",
                           "the call does not return (per-case CPU watchdog of the harness)")
            continue
        if pc is not None:
            # ---------------- polynomial case
            out = parse_poly_out(iout[i])
            chk.count((v, tuple(ia)), nontrivial=(pdeg(pc[4]) >= 2))
            if out is None:
                chk.broke("unparsable implementation output on %s %s: %r" % (v, ia, iout[i]))
                continue
            norac["polynomial"] += 1
            site = "polyratrecon:" + op[5:]      # op = model op: rr5 / check / rr6 (storage type and aliasing suffixes stripped)
            for klass, msg in poly_spec(v, pc, out):
                chk.fail_input(site, klass, case, msg, iout[i], msg)
            if out[0]: st("poly/success")
            if frac is not None and 0 <= pc[1] < pdeg(pc[4]) and pdeg(pc[3]) > pc[1]:
                st("poly/uniqueness-checked")
                msg = poly_unique(pc, frac, out)
                if msg and len(chk.failing) == nfail:
                    chk.fail_input(site, "uniqueness", case, "N/D == %s / %s" % frac, iout[i], msg)
            if mout is not None:
                ncorr += 1
                if len(chk.failing) == nfail and mout[i].split() != iout[i].split():
                    chk.broke("correspondence model/implementation differs on %s %s: model=%s impl=%s" % (v, ia, mout[i], iout[i]))
            continue
        # ---------------- integer case
        out = parse_out(iout[i])
        flag = VARIANTS[v][3]
        chk.count((v, tuple(ia)), nontrivial=(ma[1] > 3))
        if out is None:
            chk.broke("unparsable implementation output on %s %s: %r" % (v, ia, iout[i]))
            continue
        # branch statistics
        if op in ("ratrecon", "rr4") and ma[1] >= 2:
            k = ma[2] if op == "ratrecon" else isqrt(ma[1])
            if 1 <= k <= ma[1]:
                r1, t1, nit = first_candidate(ma[0], ma[1], k)
                frq = ma[3] if op == "ratrecon" else 1
                if frq and math.gcd(r1, t1) != 1:
                    st("branch/num==0" if r1 == 0 else ("branch/second-candidate-ok" if out[0] else "branch/second-candidate-rejected"))
                else:
                    st("branch/first-candidate")
                if nit == 0: st("branch/zero-iterations")
        if op == "rr6" and len(ma) == 4:
            if out[2] == ma[3]: st("rr6/den==b_bound")
            elif out[2] == ma[3] + 1: st("rr6/den==b_bound+1")
        # specification
        norac["integer"] += 1
        for klass, msg in spec_check(op, ma, out, parse_extra(iout[i])):
            chk.fail_input("ratrecon:" + VARIANTS[v][0], klass, case, msg, iout[i], msg)
        exp = spec_complete(op, ma, frac, out)
        if exp is not None:
            st("completeness-checked")
            if out != exp:
                chk.fail_input("ratrecon:" + VARIANTS[v][0], "completeness", case, "%d %d %d" % exp, iout[i],
                               "fraction inside the uniqueness envelope not reconstructed")
        # correspondence (not reported again for a case the oracle already rejects)
        if mout is not None:
            ncorr += 1
            mo = parse_out(mout[i])
            if mo is None:
                if mout[i].strip() == "NONE":
                    dom = ma[1] >= 2 and (op not in ("ratrecon", "rr7", "ctor", "qfk") or ma[2] >= 1)
                    if dom:
                        chk.broke("model ran out of fuel on %s %s (fuel lemma covers m >= 2, k >= 1)" % (op, ma))
                    continue
                chk.broke("unparsable model output on %s %s: %r" % (op, ma, mout[i]))
                continue
            same = (mo == out) if flag else (mo[1:] == out[1:])
            if not same and len(chk.failing) == nfail:
                chk.broke("correspondence model/implementation differs on %s %s: model=%s impl=%s" % (v, ia, mout[i], iout[i]))
            # the model is proved sound: a success of the model rejected by the oracle means oracle and theorem disagree
            if len(chk.failing) == nfail and (spec_check(op, ma, mo) or (exp is not None and mo != exp)):
                chk.broke("extracted model violates the specification oracle on %s %s: model=%s" % (op, ma, mout[i]))
    if len(chk.broken) > 20:
        chk.broken = chk.broken[:20] + [{"what": "... %d more" % (len(chk.broken) - 20), "detail": ""}]
    chk.cov["rule"] = ("integers: moduli tiny/2^k/prime powers/primes (word, multi-limb)/smooth composites/random composites; residues a*b^-1 inside, at the edge of and "
                       "outside the envelope, negative, >= m, < -m, sharing a factor with m, random; k in {1,2,sqrt m (+-2),m/2,m-1,m,small,random}; "
                       "exhaustive (m,f,k) block for small m; envelope enumeration b <= 64.  polynomials over F_p, p in %s: M random/monic/X^n/power of a linear factor, "
                       "deg M in 1..16 (48 thorough), dk in [0, deg M); P = A/B mod M inside the uniqueness range (also with a common factor), zero, constant, deg >= deg M, "
                       "multiple of M, sharing a factor with M, deg = dk, random; exhaustive block over F_2 and F_3.  non-trivial = m > 3 resp. deg M >= 2; distinct = (variant,args)" % POLY_PRIMES)
    # floors on what was actually compared in this run: a run that stays below them because of tooling problems (time-outs,
    # a model driver that did not build) is INCONCLUSIVE for the missing part and says so - it is never counted as a pass
    fl = {"quick": {"oracle integer": 50000, "oracle polynomial": 15000, "correspondence": 65000, "theorems": 37},
          "thorough": {"oracle integer": 500000, "oracle polynomial": 300000, "correspondence": 800000, "theorems": 37}}[tier]
    got = {"oracle integer": norac["integer"], "oracle polynomial": norac["polynomial"], "correspondence": ncorr,
           "theorems": chk.cov.get("discharged", 0)}
    chk.cov["floor"] = {"required": fl, "compared": got}
    if not replay:
        missed = ["%s: %d < %d" % (k, got[k], fl[k]) for k in sorted(fl) if got[k] < fl[k]]
        if missed:
            chk.cov["floor_missed"] = missed
            inconclusive.append("below the floor: " + "; ".join(missed))
    if inconclusive:
        chk.cov["inconclusive"] = inconclusive
        for x in inconclusive:
            chk.notes.append("INCONCLUSIVE: " + x)
        print("INCONCLUSIVE property=C11 " + " | ".join(inconclusive))
    chk.cov["traces_validated_against_impl"] = ncorr
    chk.cov["poly_moduli_prime"] = all(is_probable_prime(q) for q in POLY_PRIMES + [g[0] for g in POLY_GRID])
    if not chk.cov["poly_moduli_prime"]:
        chk.broke("a modulus of the polynomial run is not prime: C11_fp_ratrecon_sound does not apply to it")
    chk.cov["variants"] = len(VARIANTS) + len(POLY_FORMS)
    chk.cov["call_forms"] = dict((k[8:], n) for k, n in sorted(stats.items()) if k.startswith("variant/"))
    chk.cov["distribution"] = dict(sorted(stats.items()))
    fb = {}
    for f in chk.failing:
        key = "%s[%s] %s" % (f["site"], f["klass"], f["expected"] if f["klass"] not in ("completeness", "uniqueness") else "not reconstructed")
        fb[key] = fb.get(key, 0) + 1
    chk.cov["failing_by_class"] = fb
    return chk.finish()
