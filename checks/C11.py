# C11 — rational reconstruction is sound, and complete inside the uniqueness bound.   (DESIGN 5/C11)
# proof:  coq/C11 (hand model after givratreconstruct.C; invariants of the half-extended Euclid loop,
#         soundness for all (f,m,k), completeness in the envelope, fuel sufficiency)
# tie:    correspondence: extracted model vs every public call form of /repo's current sources
#         (Rational::ratrecon / RationalReconstruction x3, ZRing<Integer> wrappers, Rational ctor, QField);
#         polynomial version: extracted list model vs Poly1Dom<Modular<int64_t>,Dense>::ratrecon / ratreconcheck
# search: python big-integer specification oracle (congruence, bounds, gcd, expected a/b)
import math, os, sys
import vf

AREA = "C11"

# variant -> (model op, number of args on the impl line, mapper impl args -> model args, has success flag)
def _id(a): return a
VARIANTS = {
    "ratrecon.static": ("ratrecon", 5, lambda a: a[:4], True),
    "ratrecon.zring": ("ratrecon", 5, lambda a: a[:4], True),
    "ratrecon.dflt": ("ratrecon", 3, lambda a: a + [1], True),
    "rr7.static": ("rr7", 5, _id, True),
    "rr7.zring": ("rr7", 5, _id, True),
    "rr7.dflt": ("rr7", 3, lambda a: a + [1, 1], True),
    "rr4.static": ("rr4", 2, _id, True),
    "rr4.zring": ("rr4", 2, _id, True),
    "rr6.static": ("rr6", 4, _id, True),
    "rr6.zring": ("rr6", 4, _id, True),
    "ctor": ("ctor", 5, _id, False),
    "ctor.dflt": ("ctor", 4, lambda a: a + [0], False),
    "qfk": ("qfk", 5, _id, False),
    "qfk.dflt": ("qfk", 4, lambda a: a + [0], False),
    "qf": ("qf", 4, _id, False),
    "qf.dflt": ("qf", 3, lambda a: a + [1], False),
}

SMALL_PRIMES = [2, 3, 5, 7, 11, 13, 17, 19, 23, 29, 31, 37, 41, 43, 47, 53, 59, 61, 67, 71, 73, 79, 83, 89, 97, 101, 103, 107, 109, 113]


def is_probable_prime(n):
    if n < 2:
        return False
    for p in SMALL_PRIMES:
        if n % p == 0:
            return n == p
    d, s = n - 1, 0
    while d % 2 == 0:
        d //= 2; s += 1
    for a in (2, 3, 5, 7, 11, 13, 17, 19, 23, 29, 31, 37):
        x = pow(a, d, n)
        if x in (1, n - 1):
            continue
        for _ in range(s - 1):
            x = x * x % n
            if x == n - 1:
                break
        else:
            return False
    return True


def next_prime(n):
    n = max(n, 2)
    while not is_probable_prime(n):
        n += 1
    return n


def gen_modulus(rng):
    """(class, m) : primes, composites, prime powers, powers of two; tiny, word-sized and multi-limb"""
    c = rng.below(10)
    if c == 0:
        return "tiny", rng.range(2, 64)
    if c == 1:
        bits = rng.choice([8, 16, 31, 32, 33, 62, 63, 64, 65, 127, 128, 129, 192, 256])
        return "pow2", 1 << bits
    if c == 2:
        p = rng.choice(SMALL_PRIMES + [65537, 4294967311, 18446744073709551557])
        e = rng.range(2, 12)
        return "primepower", p ** e
    if c in (3, 4):
        bits = rng.choice([6, 10, 16, 31, 32, 40, 62, 63, 64])
        return "prime-word", next_prime(rng.bits(bits) | (1 << (bits - 1)))
    if c == 5:
        bits = rng.choice([65, 96, 128, 160, 256])
        return "prime-multi", next_prime(rng.bits(bits) | (1 << (bits - 1)))
    if c in (6, 7):
        m = 1
        for _ in range(rng.range(2, 10)):       # smooth composite: cofactors share factors with m often
            m *= rng.choice(SMALL_PRIMES[:12]) ** rng.range(1, 3)
        return "smooth", m
    if c == 8:
        return "composite-word", max(2, rng.bits(rng.choice([12, 24, 32, 48, 63, 64])))
    return "composite-multi", max(2, vf.limbs_value(rng, rng.range(2, 5)) | 1 << 64)


def isqrt(n):
    return math.isqrt(n)


def gen_k(rng, m):
    s = isqrt(m)
    c = rng.below(12)
    if c == 0: return 1
    if c == 1: return 2
    if c == 2: return m
    if c == 3: return max(1, m - 1)
    if c == 4: return max(1, m // 2)
    if c in (5, 6, 7): return max(1, s)
    if c == 8: return max(1, s + rng.range(-2, 2))
    if c == 9: return rng.range(1, min(m, 64))
    return rng.range(1, m)


def gen_fraction(rng, m, where):
    """a/b relative to the envelope 4|a| <= sqrt m, 4 b <= sqrt m; returns (a, b) with gcd(a,b) = gcd(b,m) = 1 or None"""
    s = isqrt(m)
    e = s // 4
    for _ in range(40):
        if where == "inside":
            if e < 1: return None
            b = rng.choice([1, e, max(1, e - 1), rng.range(1, e)])
            a = rng.choice([0, 1, -1, e, -e, rng.range(-e, e)])
        elif where == "edge":       # just outside the envelope, still below sqrt(m)/2
            if e < 1: return None
            b = rng.choice([e + 1, e + 2, rng.range(e + 1, max(e + 1, s // 2))])
            a = rng.choice([e + 1, -(e + 1), rng.range(-(s // 2), s // 2)])
        else:                        # outside: around sqrt(m) and beyond
            b = rng.range(max(1, s // 2), 2 * s + 2)
            a = rng.range(-2 * s - 2, 2 * s + 2)
        if b >= 1 and math.gcd(a, b) == 1 and math.gcd(b, m) == 1:
            return a, b
    return None


def gen_residue(rng, m):
    """(class, f, expected fraction or None)"""
    c = rng.below(16)
    if c < 4:
        where = ["inside", "inside", "edge", "outside"][c]
        ab = gen_fraction(rng, m, where)
        if ab:
            a, b = ab
            f = a * pow(b, -1, m) % m
            sh = rng.below(6)
            if sh == 0 and f != 0: f -= m          # negative representative
            if sh == 1: f += m * rng.range(1, 3)   # representative >= m
            return "frac-" + where, f, (a, b)
    if c == 4: return "zero-ish", rng.choice([0, m, -m, 2 * m, 1, -1, m - 1, m + 1, 1 - m]), None
    if c == 5: return "negative", -rng.range(1, m), None
    if c == 6: return "ge-m", m + rng.below(3 * m), None
    if c == 7: return "below-minus-m", -m - rng.range(1, 2 * m), None
    if c == 8:                                      # shares a factor with m
        g = math.gcd(m, rng.range(2, 64))
        return "gcd(f,m)>1", (g * rng.range(1, max(1, m // g))) % m, None
    if c == 9: return "near-sqrt", max(0, isqrt(m) + rng.range(-3, 3)), None
    return "random", rng.below(m), None


def first_candidate(f, m, k):
    """statistics only (which branch a case takes): the Euclidean remainder sequence stopped at r1 < k"""
    r0, t0, r1, t1 = m, 0, (f + m if f < 0 else f), 1
    n = 0
    while r1 >= k:
        q = r0 // r1
        r0, r1 = r1, r0 - q * r1
        t0, t1 = t1, t0 - q * t1
        n += 1
    return r1, t1, n


# ------------------------------------------------------------------ specification oracle
def spec_check(op, a, out):
    """returns list of (klass, message) for every clause of the property the implementation output violates.
    Only inputs inside the property's domain are judged (m >= 2, 1 <= k <= m)."""
    ok, n, d = out
    bad = []
    if op == "ratrecon":
        f, m, k, fr = a
        if not (m >= 2 and 1 <= k <= m): return bad
        if ok:
            kl = "f<-m" if f < -m else "in-domain"
            if (n - d * f) % m != 0: bad.append((kl, "num != den*f (mod m)"))
            if not abs(n) < k: bad.append((kl, "|num| >= k"))
            if not d > 0: bad.append((kl, "den <= 0"))
            if fr and math.gcd(n, d) != 1: bad.append((kl, "gcd(num,den) != 1 although a reduced fraction was requested"))
    elif op == "rr7":
        f, m, k, fr, rc = a
        if not (m >= 2 and 1 <= k <= m): return bad
        if ok:
            if (n - d * f) % m != 0: bad.append(("in-domain", "num != den*f (mod m)"))
            lim = max(k, f) if rc else k
            if not abs(n) < lim: bad.append(("in-domain", "|num| >= bound"))
            if not d > 0: bad.append(("in-domain", "den <= 0"))
            if fr and math.gcd(n, d) != 1: bad.append(("in-domain", "gcd(num,den) != 1 although a reduced fraction was requested"))
    elif op == "rr4":
        f, m = a
        if not m >= 2: return bad
        k = isqrt(m)
        if ok:
            kl = "f<-m" if f < -m else "in-domain"
            if (n - d * f) % m != 0: bad.append((kl, "num != den*f (mod m)"))
            if not abs(n) < k: bad.append((kl, "|num| >= sqrt(m)"))
            if not d > 0: bad.append((kl, "den <= 0"))
            if math.gcd(n, d) != 1: bad.append((kl, "gcd(num,den) != 1"))
    elif op == "rr6":
        f, m, ab, bb = a
        if not (m >= 2 and ab >= 1 and bb >= 1): return bad
        k = max((abs(f) // bb) * (1 if f >= 0 else -1), ab)      # x/b_bound truncates
        if not 1 <= k <= m: return bad
        if ok:
            kl = "f<-m" if f < -m else "in-domain"
            if (n - d * f) % m != 0: bad.append((kl, "num != den*f (mod m)"))
            if not abs(n) < k: bad.append((kl, "|num| >= max(a_bound, f/b_bound)"))
            if not 0 < d <= bb: bad.append((kl, "den not in (0, b_bound]"))
            if math.gcd(n, d) != 1: bad.append(("unreduced", "gcd(num,den) != 1 (the result of ratrecon is ignored)"))
    elif op in ("ctor", "qfk", "qf"):
        # no success report: the pair always satisfies the congruence, den > 0
        if op == "qf":
            f, m, fl, rc = a; k = isqrt(m)
        else:
            f, m, k, fl, rc = a
        if not (m >= 2 and 1 <= k <= m): return bad
        if (n - d * f) % m != 0: bad.append(("in-domain", "num != den*f (mod m)"))
        if f >= -m and not d > 0: bad.append(("in-domain", "den <= 0"))
    return bad


def spec_complete(op, a, frac, out):
    """completeness inside the envelope: default bound, reduced fraction requested"""
    if frac is None: return None
    x, y = frac
    if op == "rr4": f, m = a; k = isqrt(m); fr = 1
    elif op == "ratrecon": f, m, k, fr = a
    elif op == "rr7": f, m, k, fr, rc = a
    else: return None
    s = isqrt(m)
    if not (m >= 2 and k == s and fr and 4 * abs(x) <= s and 4 * y <= s and f >= -m): return None
    return (1, x, y)


def parse_out(line):
    t = line.split()
    if len(t) != 3: return None
    try:
        return (int(t[0]), int(t[1]), int(t[2]))
    except ValueError:
        return None


def gen_cases(rng, tier, chk):
    n = 9000 if tier == "quick" else 400000
    cases = []   # (variant, op, implargs, modelargs, frac, fclass, mclass)
    vs = sorted(VARIANTS)
    for i in range(n):
        mclass, m = gen_modulus(rng)
        if tier == "quick" and m.bit_length() > 200 and rng.chance(1, 2):
            mclass, m = gen_modulus(rng)
        fclass, f, frac = gen_residue(rng, m)
        v = vs[i % len(vs)] if rng.chance(1, 2) else rng.choice(["ratrecon.static", "ratrecon.zring", "rr4.static", "rr7.static", "rr6.static"])
        op, nargs, mp, _ = VARIANTS[v]
        k = gen_k(rng, m)
        if frac and rng.chance(2, 3): k = max(1, isqrt(m))
        fr, rc = rng.below(4) != 0, rng.below(2)
        if op == "ratrecon": ia = [f, m, k, int(fr), rc][:nargs]
        elif op == "rr7": ia = [f, m, k, int(fr), rc][:nargs]
        elif op == "rr4": ia = [f, m]
        elif op == "rr6":
            s = isqrt(m)
            ab = rng.choice([max(1, s), max(1, s // 2), k, rng.range(1, m)])
            bb = rng.choice([max(1, s), max(1, m // max(1, ab)), rng.range(1, m), 1])
            ia = [f, m, ab, bb]
        elif op in ("ctor", "qfk"): ia = [f, m, k, int(fr), rc][:nargs]
        else: ia = [f, m, int(fr), rc][:nargs]
        cases.append((v, op, ia, mp(list(ia)), frac, fclass, mclass))
    # exhaustive small block: every (m, f, k) with m <= M0, f in [-m, 2m], k in [1, m]
    M0 = 14 if tier == "quick" else 40
    for m in range(2, M0 + 1):
        for f in range(-m, 2 * m + 1):
            for k in range(1, m + 1):
                for fr in (0, 1):
                    ia = [f, m, k, fr, 0]
                    cases.append(("ratrecon.static", "ratrecon", ia, ia[:4], None, "exhaustive", "tiny"))
    # envelope enumeration: all a/b with b <= 64 inside the envelope for a set of moduli
    nm = 40 if tier == "quick" else 400
    for j in range(nm):
        mclass, m = gen_modulus(rng)
        while isqrt(m) < 8:
            mclass, m = gen_modulus(rng)
        e = isqrt(m) // 4
        bs = list(range(1, min(e, 64) + 1))
        for b in bs:
            if math.gcd(b, m) != 1: continue
            for a in ([0, 1, -1, e, -e, e - 1, 1 - e] + [rng.range(-e, e) for _ in range(2 if tier == "quick" else 8)]) if e > 16 else range(-e, e + 1):
                if math.gcd(a, b) != 1: continue
                f = a * pow(b, -1, m) % m
                ia = [f, m]
                cases.append(("rr4.static", "rr4", ia, ia, (a, b), "envelope-enum", mclass))
    return cases


def main(tier, replay=None):
    chk = vf.Check("C11", tier, "proof")
    rng = vf.Rng(chk.seed)
    chk.cov["trusted_base"] = [
        "Coq 8.16.1 kernel",
        "extraction: ExtrOcamlBasic only; Z/positive/nat kept as extracted inductives; OCaml 4.13.1; zarith only for text I/O in harness/zio.ml",
        "Integer primitives used by the code (tdiv_q, tdiv_r, submul, gcd, sqrt, compare) are given their GMP meaning on Z in Model.v (Z.quot, Z.rem, Z.gcd, Z.sqrt); validated by the correspondence run",
        "harness/c11_ratrecon.C, harness/c11_polyratrecon.C, checks/C11.py (generators, python oracle)",
        "g++ / x86-64 / GMP for the implementation side",
    ]
    chk.assumptions = ["model hand-written after givratreconstruct.C; tie = correspondence on generated cases for every public call form",
                       "the `recurs` flag of ratrecon only controls std::cerr output and is not modelled"]
    res = vf.coq_check_props(AREA)
    chk.proof_result(res, AREA)
    drv, l1 = vf.ocaml_build(AREA) if os.path.exists(os.path.join(vf.coq_dir(AREA), "ocaml", "model.ml")) else (None, "extraction did not run")
    if drv is None:
        chk.broke("extracted model driver does not build", l1)
    himpl, l2 = vf.build_harness("c11_ratrecon.C")
    if himpl is None:
        chk.broke("implementation harness does not compile against /repo", l2)
        return chk.finish()
    # which of the two one-line repairs (frag/C11.fix-*.diff) does the source carry?  Probed on the implementation;
    # the model takes the answer as flags, everything else about the behaviour is compared case by case.
    rc, pout, perr = vf.run_lines(himpl, "ratrecon.static -11 5 5 1 1\nrr6.static 2 8 2 4\n", timeout=60)
    fx1 = len(pout) == 2 and pout[0].split() == ["1", "4", "1"]
    fx2 = len(pout) == 2 and pout[1].split()[:1] == ["0"]
    chk.cov["source_variant"] = {"fix1_residue_below_minus_m_reduced": fx1, "fix2_rr6_uses_result_of_ratrecon": fx2, "probe_output": pout}
    cases = gen_cases(rng, tier, chk)
    impl_in = "".join("%s %s\n" % (v, " ".join(str(x) for x in ia)) for v, op, ia, ma, fr, fc, mc in cases)
    model_in = "".join("%s %s\n" % (op, " ".join(str(x) for x in ma)) for v, op, ia, ma, fr, fc, mc in cases)
    rc, iout, ierr = vf.run_lines(himpl, impl_in, timeout=1500)
    if rc != 0 or len(iout) != len(cases):
        bad = cases[len(iout)] if len(iout) < len(cases) else None
        chk.broke("implementation harness failed (rc=%s, %d/%d lines); next case: %s" % (rc, len(iout), len(cases), bad and (bad[0], bad[2])), ierr)
        return chk.finish()
    mout = None
    if drv:
        rc, mout, merr = vf.run_lines(drv, model_in, timeout=1500, args=[str(int(fx1)), str(int(fx2))])
        if rc != 0 or len(mout) != len(cases):
            chk.broke("model driver failed (rc=%s, %d/%d lines)" % (rc, len(mout), len(cases)), merr)
            mout = None
    ncorr = 0
    stats = {}
    def st(key):
        stats[key] = stats.get(key, 0) + 1
    for i, (v, op, ia, ma, frac, fclass, mclass) in enumerate(cases):
        out = parse_out(iout[i])
        flag = VARIANTS[v][3]
        case = {"variant": v, "args": [str(x) for x in ia]}
        chk.count((v, tuple(ia)), nontrivial=(ma[1] > 3))
        st("variant/" + v); st("modulus/" + mclass); st("residue/" + fclass)
        if out is None:
            chk.broke("unparsable implementation output on %s %s: %r" % (v, ia, iout[i]))
            continue
        if i % 1499 == 0:
            chk.sample({"variant": v, "args": [str(x) for x in ia], "impl": iout[i]})
        # branch statistics
        if op in ("ratrecon", "rr4") and ma[1] >= 2:
            k = ma[2] if op == "ratrecon" else isqrt(ma[1])
            if 1 <= k <= ma[1]:
                r1, t1, nit = first_candidate(ma[0], ma[1], k)
                frq = ma[3] if op == "ratrecon" else 1
                if frq and math.gcd(r1, t1) != 1:
                    st("branch/num==0" if r1 == 0 else ("branch/second-candidate-ok" if out[0] else "branch/second-candidate-rejected"))
                else:
                    st("branch/first-candidate")
                if nit == 0: st("branch/zero-iterations")
        # specification
        for klass, msg in spec_check(op, ma, out):
            chk.fail_input("ratrecon:" + VARIANTS[v][0], klass, case, msg, iout[i], msg)
        exp = spec_complete(op, ma, frac, out)
        if exp is not None:
            st("completeness-checked")
            if out != exp:
                chk.fail_input("ratrecon:" + VARIANTS[v][0], "completeness", case, "%d %d %d" % exp, iout[i],
                               "fraction inside the uniqueness envelope not reconstructed")
        # correspondence
        if mout is not None:
            ncorr += 1
            mo = parse_out(mout[i])
            if mo is None:
                if mout[i].strip() == "NONE":
                    dom = ma[1] >= 2 and (op not in ("ratrecon", "rr7", "ctor", "qfk") or ma[2] >= 1)
                    if dom:
                        chk.broke("model ran out of fuel on %s %s (fuel lemma covers m >= 2, k >= 1)" % (op, ma))
                    continue
                chk.broke("unparsable model output on %s %s: %r" % (op, ma, mout[i]))
                continue
            same = (mo == out) if flag else (mo[1:] == out[1:])
            if not same:
                chk.broke("correspondence model/implementation differs on %s %s: model=%s impl=%s" % (v, ia, mout[i], iout[i]))
            for klass, msg in spec_check(op, ma, mo):
                pass  # the model is judged by its theorems; a model/oracle disagreement shows as impl/oracle + correspondence
    if len(chk.broken) > 20:
        chk.broken = chk.broken[:20] + [{"what": "... %d more" % (len(chk.broken) - 20), "detail": ""}]
    chk.cov["rule"] = ("moduli: tiny/2^k/prime powers/primes (word, multi-limb)/smooth composites/random composites; residues: a*b^-1 inside, at the edge of and "
                       "outside the envelope, negative, >= m, < -m, sharing a factor with m, random; k in {1,2,sqrt m (+-2),m/2,m-1,m,small,random}; "
                       "exhaustive (m,f,k) block for small m; envelope enumeration b <= 64; non-trivial = m > 3; distinct = (variant,args)")
    chk.cov["traces_validated_against_impl"] = ncorr
    chk.cov["variants"] = len(VARIANTS)
    chk.cov["distribution"] = dict(sorted(stats.items()))
    fb = {}
    for f in chk.failing:
        key = "%s[%s] %s" % (f["site"], f["klass"], f["expected"] if f["klass"] != "completeness" else "not reconstructed")
        fb[key] = fb.get(key, 0) + 1
    chk.cov["failing_by_class"] = fb
    return chk.finish()
